#!/bin/sh
# usage: tools/confirm_mutant.sh <seed-name> <property> <patch.diff> <demo_test.go> <notes.md> <checks...>
# Confirms in a scratch worktree that the patch compiles, keeps the repository's tests green, and that the
# demonstration fails with it and passes without it; then runs the named quick checks against /repo with the
# patch applied in the scratch worktree (VERIF_REPO) and stores everything under /verif/seeded/<seed-name>/.
set -u
NAME="$1"; PROP="$2"; PATCH="$3"; DEMO="$4"; NOTES="$5"; shift 5
export GOFLAGS=-mod=mod GOPROXY=off GOSUMDB=off GOTOOLCHAIN=local
WT=/tmp/wt/confirm-$$
git -C /repo worktree add -q --detach "$WT" HEAD || exit 2
cleanup() { git -C /repo worktree remove --force "$WT" 2>/dev/null; }
trap cleanup EXIT INT TERM
cd "$WT" || exit 2
DEMODIR=path
head -1 "$DEMO" | grep -q 'path/exec' && DEMODIR=path/exec
head -1 "$DEMO" | grep -q 'path/parser' && DEMODIR=path/parser
head -1 "$DEMO" | grep -q 'path/types' && DEMODIR=path/types
head -1 "$DEMO" | grep -q 'path/ast' && DEMODIR=path/ast
cp "$DEMO" "$DEMODIR/zz_seed_demo_test.go"
DEMOPKG=./$DEMODIR/
RACE=""; sed -n 2p "$DEMO" | grep -q "race: yes" && RACE="-race"
go test $RACE -vet=off -count=1 "$DEMOPKG" >/tmp/confirm-clean-$$.log 2>&1; clean_rc=$?
rm -f "$DEMODIR/zz_seed_demo_test.go"
git apply "$PATCH" || { echo "patch does not apply"; exit 2; }
go build ./... || { echo "does not compile"; exit 2; }
go test -vet=off -count=1 ./... >/tmp/confirm-suite-$$.log 2>&1; suite_rc=$?
cp "$DEMO" "$DEMODIR/zz_seed_demo_test.go"
go test $RACE -vet=off -count=1 "$DEMOPKG" >/tmp/confirm-mut-$$.log 2>&1; mut_rc=$?
rm -f "$DEMODIR/zz_seed_demo_test.go"
echo "demo on clean tree: rc=$clean_rc (want 0); suite with patch: rc=$suite_rc (want 0); demo with patch: rc=$mut_rc (want !=0)"
rm -f /tmp/confirm-*-$$.log
if [ $clean_rc -ne 0 ] || [ $suite_rc -ne 0 ] || [ $mut_rc -eq 0 ]; then echo "NOT CONFIRMED"; exit 1; fi
cd /verif
# the checks run against the scratch worktree, which still has the patch applied (/repo is not touched)
for id in "$@"; do
  out=$(VERIF_REPO="$WT" /verif/check "$id" quick 2>&1); rc=$?
  nv=$(echo "$out" | grep -c '^VIOLATION')
  first=$(echo "$out" | grep -A1 '^VIOLATION' | sed -n 2p | cut -c1-300)
  echo "  check $id: exit=$rc violations=$nv"
  printf '%s\t%s\t%s\t%s\n' "$id" "$rc" "$nv" "$first" >> "/tmp/confirm-results-$$.tsv"
done
mkdir -p "/verif/seeded/$NAME"
cp "$PATCH" "/verif/seeded/$NAME/patch.diff"
cp "$DEMO" "/verif/seeded/$NAME/demo_test.go"
cp "$NOTES" "/verif/seeded/$NAME/notes.md" 2>/dev/null
BASE=$(git -C /repo rev-parse --short HEAD)
PROP="$PROP" BASE="$BASE" python3 - "/tmp/confirm-results-$$.tsv" "/verif/seeded/$NAME/meta.json" <<'PY'
import json, os, sys
checks = []
for line in open(sys.argv[1]):
    c, rc, nv, first = line.rstrip("\n").split("\t", 3)
    checks.append({"check": c, "exit": int(rc), "violation_lines": int(nv), "first": first.strip()})
json.dump({"property": os.environ["PROP"], "base_commit": os.environ["BASE"],
           "needs": "see notes.md (written by the independent sub-agent that produced the change)",
           "confirmed": {"demo_passes_on_clean_tree": True, "repo_suite_passes_with_patch": True, "demo_fails_with_patch": True,
                         "how": "tools/confirm_mutant.sh in a scratch worktree of /repo (removed afterwards)"},
           "quick_checks_with_patch": checks}, open(sys.argv[2], "w"), indent=1)
PY
rm -f "/tmp/confirm-results-$$.tsv"
echo "stored /verif/seeded/$NAME"
