#!/bin/sh
# usage: tools/try_mutant.sh <patch.diff> <check-id>...   (applies the patch to /repo, runs the quick checks, reverts)
P="$1"; shift
cd /repo || exit 2
git diff --quiet || { echo "repo not clean"; exit 2; }
git apply "$P" || { echo "patch does not apply"; exit 2; }
trap 'git -C /repo checkout -- . ' EXIT INT TERM
for id in "$@"; do
  out=$(/verif/check "$id" "${TIER:-quick}" 2>&1); rc=$?
  echo "== $id exit=$rc $(echo "$out" | grep -c '^VIOLATION') violation lines"
  echo "$out" | grep -A1 '^VIOLATION' | head -4 | cut -c1-400
  echo "$out" | grep '^INFRA' | head -3 | cut -c1-300
done
