#!/bin/sh
# usage: tools/rerun_seeded.sh [name-pattern]
# Re-applies every stored seeded change (in a scratch worktree of /repo, via VERIF_REPO) and runs the quick
# check of its property: every line must say "caught". /repo itself is not modified.
PAT="${1:-*}"
fail=0
for d in /verif/seeded/$PAT/; do
  n=$(basename "$d"); id=${n%%-*}
  WT=/tmp/wt/rs-$$-$n
  git -C /repo worktree add -q --detach "$WT" HEAD || exit 2
  if ! ( cd "$WT" && git apply "$d/patch.diff" ) 2>/dev/null; then
    echo "$n: patch no longer applies (the repository moved on)"; git -C /repo worktree remove --force "$WT"; continue
  fi
  out=$(VERIF_REPO="$WT" /verif/check "$id" quick 2>&1); rc=$?
  nv=$(echo "$out" | grep -c '^VIOLATION')
  if [ $rc -eq 1 ] && [ "$nv" -gt 0 ]; then echo "$n: caught ($nv violation lines)"; else echo "$n: MISSED (exit=$rc)"; fail=1; fi
  git -C /repo worktree remove --force "$WT"
done
exit $fail
