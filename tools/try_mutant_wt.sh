#!/bin/sh
# usage: tools/try_mutant_wt.sh <patch.diff> <check-id>...
# Like try_mutant.sh, but applies the patch in a scratch worktree of /repo and points the
# checks at it (VERIF_REPO), so /repo itself is never modified (usable while other checks run).
P="$1"; shift
WT=/tmp/wt/try-$$
git -C /repo worktree add -q --detach "$WT" HEAD || exit 2
trap 'git -C /repo worktree remove --force "$WT" 2>/dev/null' EXIT INT TERM
( cd "$WT" && git apply "$P" ) || { echo "patch does not apply"; exit 2; }
for id in "$@"; do
  out=$(VERIF_REPO="$WT" /verif/check "$id" "${TIER:-quick}" 2>&1); rc=$?
  echo "== $id exit=$rc $(echo "$out" | grep -c '^VIOLATION') violation lines"
  echo "$out" | grep -A1 '^VIOLATION' | head -4 | cut -c1-400
  echo "$out" | grep '^INFRA' | head -3 | cut -c1-300
done
