#!/usr/bin/env python3
"""Regenerates /verif/MANIFEST.json from the table below (one entry per claimed
property); every property of properties.jsonl that is not claimed is listed
under not_applicable with its reason."""
import json, subprocess

EXEC_NOTE = "Trusted: TLC, the wire encoder/decoder of the harness (Go values <-> tagged records, numbers as exact limb records), Go's strconv for json.Number -> float64, the Go runtime's map iteration (every member order the specification enumerates is accepted; beyond 4 expansions of 2-member / 2 of 3-member objects results are compared as multisets). Raise sites whose suppressibility the properties do not fix, integer quotients (truncated or exact) and array subscripts below strict .** are accepted either way. Behaviours pinned by the repository's own tests that contradict the property are modelled as named deviations and listed in known-findings.jsonl."
TECH = "explicit TLA+ specification of the evaluation rules (spec/PathSem.tla) model-checked by TLC over an exhaustive bounded universe; the universe TLC exported is replayed on the real code and every recorded observation is judged by a TLC trace specification (spec/Trace_Exec.tla)"

CLAIMED = {
 "C01": dict(technique=TECH,
  text="MC_Mix: TLC enumerates every kind of path head followed by up to 2 steps from a 22-step alphabet (accessors, subscripts, .**, filters, item methods) plus predicate check expressions x all JSON trees up to 3 nodes x {lax, strict} and checks that the outcomes PathSem assigns to the five entry points satisfy the laws of ExecLaws; the Go runner replays that universe, plus 20k (quick) / 400k (thorough) seeded random grammar-derivable paths of depth <= 3 on random documents and variables, and Trace_Exec accepts a Query observation only if some permitted evaluation of PathSem (object member order, unclassified raise sites, quotient policy) produces exactly those items in that order with that error class, with and without WithSilent.",
  note=EXEC_NOTE + " Datetime methods and like_regex patterns outside the modelled fragment are reported as not decided (counted in the evidence).", ref="DESIGN.md section 7 C01"),
 "C05": dict(technique=TECH,
  text="On the MC_Mix universe and on seeded random cases the runner wraps every entry point in recover() and a wall-clock deadline, deep-copies document and variables before and compares after, checks every returned container for pointer identity with a sub-value of the input (or a keyvalue triple) and every number for finiteness; Trace_Exec rejects a record when any entry point panicked, returned ErrInvalid, an unclassified error, NULL from Query/First, an error not wrapping ErrExecution, a mutated input, a non-finite number or a foreign container. TLC checks that PathSem itself never produces such an outcome on the universe.",
  note=EXEC_NOTE, ref="DESIGN.md section 7 C05"),
 "C06": dict(technique=TECH,
  text="For every case of MC_Mix and of the seeded random universe all five entry points are executed under the same options and Trace_Exec checks the relations of the property on the real observations: First = head of Query with the same error class; Query success => Exists = non-empty; Exists true => some permitted complete evaluation of PathSem yields an item; strict: Query error => Exists error; Match = sole boolean / NULL / single-boolean error; ExistsOrMatch = Match or Exists by IsPredicate. TLC checks the same relations on PathSem's own outcomes over the universe (they hold, so the law is consistent and non-vacuous: the universe contains paths that fail before, after and instead of producing items).",
  note=EXEC_NOTE, ref="DESIGN.md section 7 C06"),
 "C07": dict(technique=TECH,
  text="MC_C07: TLC enumerates every accessor/filter chain (16-step alphabet, length<=2 quick / <=3 thorough, plus three-step shapes below .**) x every JSON tree (<=3 / <=4 nodes, plus arrays with an ill-shaped element at each position) x {lax, strict} and checks on the specification that the continuation-style rules agree with an independent level-at-a-time oracle that does not stop at a mismatch (lax: never an error; strict: suppressible error iff the oracle met a mismatch); the same universe is replayed on the real code and judged by Trace_Exec.",
  note=EXEC_NOTE, ref="DESIGN.md section 7 C07"),
 "C08": dict(technique=TECH,
  text="Every case of MC_Mix (which contains filters and predicates with suppressible and with non-suppressible failing conditions followed by erroring steps) and of the seeded random universe is observed with and without WithSilent; Trace_Exec checks on the pair of real observations: no silent result wraps ErrVerbose; a verbose success is reproduced identically; a suppressible verbose failure becomes no error (Query/First) or NULL unless established (Exists/Match) and the silent items are exactly those PathSem produces before the failure; non-suppressible classes are returned unchanged.",
  note=EXEC_NOTE, ref="DESIGN.md section 7 C08"),
 "C09": dict(technique="explicit TLA+ specification (PathSem) model-checked by TLC for compositionality over all split points of a bounded chain universe; the same groups of executions replayed on the real code and judged by a TLC trace specification (spec/Trace_Group.tla); context templates judged by Trace_Exec",
  text="MC_C09: TLC enumerates every chain of up to 2 (quick) / 3 (thorough) root-independent steps (16-step alphabet incl. subscripts, .**, filters on @, item methods, keyvalue) x all JSON trees up to 3 nodes x {lax, strict} and checks on PathSem, for every split point P | S, that Query(P S) is the concatenation over the items x of Query(P) of Query($ S, x), failing where the first of those fails, and that the same steps from a variable or a literal return what they return from $. The Go runner executes the same groups (the suffix on each REAL item of the prefix) and Trace_Group checks the relation on the real observations (keyvalue ids compared modulo base object, strict splits after .** excluded as the property says). Context templates -- constructs that rebind @ / last / leniency below .** , left through each of their exits (completed, early answer inside exists, suppressed failure, nothing found) and followed by a use of the outer binding -- are judged against PathSem, whose environment is passed down and cannot be disturbed.",
  note=EXEC_NOTE + " A mismatch on a context template is attributed to C09 although it could in principle stem from another rule used by the template.", ref="DESIGN.md section 7 C09"),
 "C10": dict(technique="explicit TLA+ specification (PathSem) model-checked by TLC for the filter law over a prefix x condition x document universe; the same groups of executions replayed on the real code and judged by a TLC trace specification (spec/Trace_Group.tla)",
  text="MC_C10: TLC enumerates 6 (quick) / 12 (thorough) prefix paths x 102 filter conditions (comparisons of @, @.a, @[*], @.size() with literals of every type; exists; starts with; like_regex; && || !; is unknown; a nested filter; conditions failing suppressibly and non-suppressibly; conditions that look at $) x all JSON trees up to 2 / 3 nodes plus nested-array documents x {lax, strict}, rewrites each condition into a predicate check over the item (@ -> $, $ -> a variable) and checks on PathSem that P ? (C) is the order-preserving subsequence of P's (lax: once-unwrapped) items whose rewritten condition yields true, and that in strict mode consecutive filters equal the filter on their conjunction. The runner executes P ? (C), P and the rewritten condition on every REAL item and Trace_Group checks the same relation on the real observations (no item altered, duplicated or reordered; unknown and false dropped without aborting; non-suppressible errors abort).",
  note=EXEC_NOTE + " Strict-mode prefixes containing .** are excluded from the rewriting law (the condition is evaluated leniently there, a fact found by model-checking the law on the specification).", ref="DESIGN.md section 7 C10"),
 "C11": dict(technique="explicit TLA+ specification (PathSem + Kleene tables) model-checked by TLC over complete truth tables; the same groups of executions replayed on the real code and judged by a TLC trace specification (spec/Trace_Group.tla)",
  text="MC_C11: TLC enumerates every ordered pair (p, q) of 15 conditions that realise true / false / unknown-by-type / unknown-by-suppressed-error / non-suppressible error (constants and document-dependent) x 16 documents x {lax, strict}, builds the 13 predicate checks p, q, p && q, p || q, !p, (p) is unknown, !!p, !(p && q), !p || !q, !(p || q), !p && !q, q && p, q || p and checks on PathSem that each compound's outcome is the Kleene table value of the operands' outcomes (a non-suppressible error of an evaluated operand is returned), plus commutativity, double negation, De Morgan (also as constant-level lemmas), is unknown never unknown, Match agreeing with Query, and exists(e) = emptiness of e / unknown only when e fails for 12 operand shapes. The runner executes the same 13 checks (Query and Match) and the exists groups, plus 4k (quick) / 100k (thorough) random condition pairs on random documents; Trace_Group evaluates the same law on the REAL outcomes of p and q.",
  note=EXEC_NOTE, ref="DESIGN.md section 7 C11"),
 "C20": dict(technique="explicit TLA+ state machine (Call / Run / Return with a cancelAt prophecy, spec/MC_C20.tla over PathSem with poll counting and exists-mode early exit) model-checked by TLC for every case x every poll; real executions cancelled at every poll judged by a TLC trace specification (spec/Trace_Cancel.tla), which also compares the poll counts the specification predicts with the real ones",
  text="MC_C20: for a pool of 36 paths covering every node kind and every consumer of an operand's status x documents x modes x {collecting call, lax Exists}, TLC explores cancelAt = k for every k from 1 to the number of polls of the uncancelled run (+1) and checks: the k-th poll ends the execution with the context error, no items, for every entry point, silent or not; no poll happens after it; an execution that ends before its k-th poll is unchanged. The runner measures, with a counting context.Context, the polls of each entry point under each option set, repeats the call with the context done from the k-th Done() on for EVERY k, with context.Canceled and DeadlineExceeded, verbose and silent, five entry points (137k calls quick on the pool + 146k on random paths), and Trace_Cancel checks on every call that observed the flip: error wraps ErrExecution and the context's error, no items, no boolean, no NULL, at most size-of-path further polls. Poll counts predicted by PathSem equal the real ones on the whole pool (reported as spec_drift otherwise).",
  note="Trusted: TLC, the counting context of the runner (a cancellation between two polls is indistinguishable from one immediately before the next poll), the wire format. 'After a bounded number of further steps' is checked as 'at most as many further polls as the path has nodes'.", ref="DESIGN.md section 7 C20"),
 "C12": dict(technique="explicit TLA+ specification of the item order (CompareItems over exact BigNum values, byte strings) model-checked by TLC for the order laws over all pairs and triples of a value corpus; the complete real comparison matrix judged by a TLC trace specification (spec/Trace_Matrix.tla)",
  text="MC_C12: over a corpus of null, booleans, 14 numbers (incl. 2^31, 2^53, 2^53+1, 2^53+2, 2^63-1, -2^63, 2^63, 10^19, halves) in every Go representation they have (int64 literal, float64, json.Number), 8 strings (empty, case variants, prefixes, e-acute, U+FFFD, U+1F600) and [], {}, [1], TLC checks on the specification's comparison: trichotomy on comparable pairs, a < b iff b > a, <= and >= as unions, transitivity over all 125k triples, null equals only null, cross-type / array / object pairs unknown. The runner executes every ordered pair x six operators x {lax, strict} as predicate checks (values enter as variables or path literals) and hands the COMPLETE real matrix to Trace_Matrix, which checks the same laws on the real answers and agreement of every cell with the specification's exact-value order; starts with is checked on every pair (true exactly for string prefixes).",
  note="Trusted: TLC, BigNum.tla (exact dyadic arithmetic, tested against Python fractions), strconv for json.Number -> float64. like_regex is judged only for literal patterns and the q flag so far (Regex.tla fragment); datetime comparison is part of C17. In lax mode arrays are left out of the matrix (operands are unwrapped there); the existential / strict sequence rule is covered by the exec-family universes (MC_Mix, MC_Types).", ref="DESIGN.md section 7 C12"),
 "C13": dict(technique=TECH + "; symmetric-operator matrices judged by spec/Trace_Matrix.tla",
  text="MC_C13: over a boundary corpus of 25 numbers (0, +-1, +-2, 3, 7, 10, int32/int64 limits and neighbours, 2^53 neighbours, 1/2, 3/2, -5/2, 2^63, -2^63-1, 1e308, 5e-324) in every Go representation, TLC checks on the specification's numeric tower (exact BigNum arithmetic with IEEE round-to-nearest-even): results are errors or finite numbers, integer operands whose exact result fits int64 give exactly that integer and otherwise the correctly rounded double (never a wrapped integer), division / modulo by zero are suppressible errors, + and * commute, -(-x) = x. The runner executes every ordered pair x {+ - * / %}, unary + / - / -(-x) / .abs() on each value, and operand-count / operand-type / sequence cases (21k cases); Trace_Exec accepts a result only if it equals the exact result the specification computes (bit-exact doubles), and Trace_Matrix checks x + y = y + x and x * y = y * x on the real results.",
  note=EXEC_NOTE + " Integer quotients may be truncated or exact. IEEE results are derived in the specification itself (BigNum.tla), not taken from Go.", ref="DESIGN.md section 7 C13"),
 "C16": dict(technique=TECH + "; string round-trip and keyvalue laws judged by spec/Trace_Group.tla",
  text="MC_C16: over a boundary grid of 32 numbers in every Go representation TLC checks on the specification's methods (Methods.tla): .integer() in int32, .bigint() in int64, halves round away from zero, .double() / .number() finite, a number and its spelling convert to the same value, .decimal(p, s) within precision and scale or an error, invalid precision / scale a non-suppressible error. The runner executes 11 methods x {lax, strict} on the grid (int64 literal, float64, json.Number), on the decimal spelling of every number as a string, on 55 irregular strings (NaN / inf spellings, padding, exponents, boolean spellings), on null / booleans / containers / out-of-range json.Number, and .decimal(p, s) for 9 precisions x 10 (thorough 12) scales (15.6k cases); Trace_Exec accepts only the value the specification computes exactly (correct rounding included). Trace_Group checks on real runs that x.string().m() = x.m() for the matching method and, on random objects executed twice on one document instance, that .keyvalue() yields one triple per member in key order with ids equal within an object, distinct across objects and stable.",
  note=EXEC_NOTE + " The shortest-round-trip spelling .string() prints for doubles with more than 15 significant digits and strconv's acceptance of hex floats / digit separators are not decided (counted as not judged).", ref="DESIGN.md section 7 C16"),
 "C14": dict(technique=TECH,
  text="MC_C14: TLC enumerates all arrays of length 0..3 (quick) / 0..4 (thorough) over {null, 1, \"x\", [2], {\"a\":1}}, arrays of negative / fractional / out-of-int32 numbers and non-arrays x subscript lists built from abstract bounds (integers and halves, last, last+-k, every ordered pair as a range, lists, non-numeric / multi-valued / missing / out-of-int32 bounds, bounds read from the document, nested subscripts) x {lax, strict} and checks PathSem against a positional oracle computed from the abstract bounds; the universe, with float64 and json.Number spellings of every document, is replayed on the real code and judged by Trace_Exec.",
  note=EXEC_NOTE, ref="DESIGN.md section 7 C14"),
 "C15": dict(technique=TECH,
  text="MC_C15: TLC enumerates all JSON trees up to 4 (quick) / 5 (thorough) nodes over {1, \"x\"} with keys {a, b}, empty containers at every position x .*, [*], .** with every level range over 0..3 (0..4) and last (including {last to k}), alone and followed by .a / .* x {lax, strict}; checks PathSem against a pre-order walk oracle, .** = .**{0 to last}, .**{k} = k-fold any-child, .**{last} = scalar leaves, and that strict member accessors below .** never err; the universe is replayed on the real code and judged by Trace_Exec (all member orders of the 2-member objects are enumerated).",
  note=EXEC_NOTE, ref="DESIGN.md section 7 C15"),
}

NOT_YET = "check not built yet (build in progress); planned technique in DESIGN.md section 7"

def main():
    ids = [json.loads(l)["id"] for l in open("/verif/properties.jsonl")]
    try:
        commits = subprocess.check_output(
            ["git", "-C", "/repo", "log", "--format=%h %s", "9dba781..HEAD"], text=True).strip().splitlines()
    except Exception:
        commits = []
    hook_commits = [c.split()[0] for c in commits if c.split(" ", 1)[1].startswith("verif:")]
    checks = []
    for i in ids:
        if i not in CLAIMED:
            continue
        c = CLAIMED[i]
        checks.append({
            "property_id": i,
            "quick_cmd": f"./check {i} quick",
            "thorough_cmd": f"./check {i} thorough",
            "evidence_file": f"/verif/evidence/{i}.json",
            "replay_cmd_template": "cat {path}",
            "engine": "vcheck",
            "level_claimed": {"category": "model_checking", "text": c["text"], "design_ref": c["ref"]},
            "level_note": c["note"],
            "technique": c["technique"],
        })
    m = {
        "version": 1,
        "setup_cmd": "cd /verif/harness && cp /repo/go.sum go.sum && GOFLAGS=-mod=mod GOPROXY=off GOSUMDB=off GOTOOLCHAIN=local go build -o bin/vcheck ./cmd/vcheck",
        "hooks": {
            "guard": "verif",
            "enable": "go build -tags verif (the ./check script tries the tagged build first and falls back to the untagged one)",
            "baseline_off_cmd": "cd /repo && go test -vet=off -count=1 ./...",
            "source_commits": hook_commits,
            "add_only": True,
        },
        "engines": [{"name": "vcheck", "path": "/verif/harness/cmd/vcheck", "serves_properties": sorted(CLAIMED),
                     "kind_free_text": "Go driver: runs TLC on /verif/spec (MC_* exhaustive models, Trace_* trace specifications), replays TLC's universes on the real code, reproduces and reports rejections"}],
        "checks": checks,
        "notes": "One TLA+ specification under /verif/spec; see DESIGN.md. Exit 2 = infrastructure failure (never a violation).",
        "not_applicable": [{"property_id": i, "reason": NOT_YET} for i in ids if i not in CLAIMED],
    }
    json.dump(m, open("/verif/MANIFEST.json", "w"), indent=1)
    print("claimed:", sorted(CLAIMED))

main()
