#!/usr/bin/env python3
"""Regenerates /verif/MANIFEST.json from the table below (one entry per claimed
property); every property of properties.jsonl that is not claimed is listed
under not_applicable with its reason."""
import json, subprocess

CLAIMED = {
 "C07": dict(
  technique="TLA+ spec (PathSem vs level-at-a-time oracle) model-checked by TLC over an exhaustive path x document universe; the same universe replayed on the real code and every observation judged by a TLC trace specification",
  text="TLC enumerates every accessor/filter chain (16-step alphabet, length<=2 quick / <=3 thorough) x every JSON tree (<=3 / <=4 nodes, plus arrays with an ill-shaped element at each position) x {lax, strict}; checks on the specification that the continuation-style rules agree with an independent non-stopping oracle (lax: never an error; strict: suppressible error iff the oracle met a mismatch); the Go runner replays the exported universe through Query/First/Exists/Match/ExistsOrMatch (ASTs built with the exported constructors, not the parser) with and without WithSilent, and Trace_Exec (TLC) accepts an observation only if it is an outcome the rules permit.",
  note="Trusted: TLC, the wire encoder/decoder of the harness, Go's map iteration for object member order (all permutations are accepted). Strict-mode array subscripts applied to non-arrays below .** are not decided (PostgreSQL skips, the port errs; the property is silent). One known finding (subscripts skip JSON null) is modelled as a named deviation.",
  ref="DESIGN.md section 7 C07"),
}

NOT_YET = "check not built yet (build in progress); planned technique in DESIGN.md section 7"

def main():
    ids = [json.loads(l)["id"] for l in open("/verif/properties.jsonl")]
    try:
        commits = subprocess.check_output(
            ["git", "-C", "/repo", "log", "--format=%h %s", "9dba781..HEAD"], text=True).strip().splitlines()
    except Exception:
        commits = []
    hook_commits = [c.split()[0] for c in commits if c.split(" ", 1)[1].startswith("verif:")]
    checks = []
    for i in ids:
        if i not in CLAIMED:
            continue
        c = CLAIMED[i]
        checks.append({
            "property_id": i,
            "quick_cmd": f"./check {i} quick",
            "thorough_cmd": f"./check {i} thorough",
            "evidence_file": f"/verif/evidence/{i}.json",
            "replay_cmd_template": "cat {path}",
            "engine": "vcheck",
            "level_claimed": {"category": "model_checking", "text": c["text"], "design_ref": c["ref"]},
            "level_note": c["note"],
            "technique": c["technique"],
        })
    m = {
        "version": 1,
        "setup_cmd": "cd /verif/harness && cp /repo/go.sum go.sum && GOFLAGS=-mod=mod GOPROXY=off GOSUMDB=off GOTOOLCHAIN=local go build -o bin/vcheck ./cmd/vcheck",
        "hooks": {
            "guard": "verif",
            "enable": "go build -tags verif (the ./check script tries the tagged build first and falls back to the untagged one)",
            "baseline_off_cmd": "cd /repo && go test -vet=off -count=1 ./...",
            "source_commits": hook_commits,
            "add_only": True,
        },
        "engines": [{"name": "vcheck", "path": "/verif/harness/cmd/vcheck", "serves_properties": sorted(CLAIMED),
                     "kind_free_text": "Go driver: runs TLC on /verif/spec (MC_* exhaustive models, Trace_* trace specifications), replays TLC's universes on the real code, reproduces and reports rejections"}],
        "checks": checks,
        "notes": "One TLA+ specification under /verif/spec; see DESIGN.md. Exit 2 = infrastructure failure (never a violation).",
        "not_applicable": [{"property_id": i, "reason": NOT_YET} for i in ids if i not in CLAIMED],
    }
    json.dump(m, open("/verif/MANIFEST.json", "w"), indent=1)
    print("claimed:", sorted(CLAIMED))

main()
