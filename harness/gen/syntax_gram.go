package gen

import (
	"math/rand"
	"strings"
)

// Random sentences of the grammar (as token lists joined with random
// spacing) and one-edit mutations of them: deeper parser coverage than the
// exhaustive three-character strings give.

type gg struct{ r *rand.Rand }

func (g *gg) pick(xs ...string) string { return xs[g.r.Intn(len(xs))] }

func (g *gg) number() string {
	return g.pick("0", "1", "2", "10", "1.5", ".5", "2.", "1e1", "0x1F", "0o7", "0b11", "1_0", "1.5e-1",
		"9223372036854775807", "0.1", "3")
}

func (g *gg) str() string {
	return g.pick(`"a"`, `"b c"`, `""`, `"A"`, `"x\ny"`, `"é"`, `"\""`, `"^a.*"`, `"i"`, `"HH24"`)
}

func (g *gg) key() string {
	return g.pick("a", "b", "_k", "a1", `"k k"`, `"a"`, "é", `ab`, "x\\ y", "to", "is", "last", "null",
		"true", "exists", "abs", "decimal", "date", "time", "lax", "strict", "with", "flag", "TYPE", "Size",
		"like_regex", "unknown", "starts", "datetime", "keyvalue")
}

func (g *gg) primary() []string {
	switch g.r.Intn(12) {
	case 0, 1, 2, 3:
		return []string{"$"}
	case 4, 5:
		return []string{"@"}
	case 6:
		return []string{"last"}
	case 7, 8:
		return []string{g.number()}
	case 9:
		return []string{g.str()}
	case 10:
		return []string{g.pick("$v", "$x1", `$"v v"`, "$_")}
	default:
		return []string{g.pick("null", "true", "false")}
	}
}

func (g *gg) level() string {
	if g.r.Intn(40) == 0 {
		return "0x2" // the real parser reads radix-prefixed levels as 0 (known defect)
	}
	return g.pick("0", "1", "2", "last", "3", "10")
}

func (g *gg) accessor(d int) []string {
	switch g.r.Intn(16) {
	case 0, 1, 2, 3:
		return []string{".", g.key()}
	case 4:
		return []string{".", "*"}
	case 5:
		switch g.r.Intn(3) {
		case 0:
			return []string{".", "**"}
		case 1:
			return []string{".", "**", "{", g.level(), "}"}
		default:
			return []string{".", "**", "{", g.level(), "to", g.level(), "}"}
		}
	case 6:
		return []string{"[", "*", "]"}
	case 7, 8:
		out := []string{"["}
		n := 1 + g.r.Intn(3)
		for i := 0; i < n; i++ {
			if i > 0 {
				out = append(out, ",")
			}
			out = append(out, g.expr(d-1)...)
			if g.r.Intn(3) == 0 {
				out = append(out, "to")
				out = append(out, g.expr(d-1)...)
			}
		}
		return append(out, "]")
	case 9, 10:
		out := []string{"?", "("}
		out = append(out, g.pred(d-1)...)
		return append(out, ")")
	case 11, 12:
		return []string{".", g.pick("abs", "size", "type", "floor", "double", "ceiling", "keyvalue", "bigint",
			"boolean", "integer", "number", "string", "date", "TYPE", "Abs"), "(", ")"}
	case 13:
		if g.r.Intn(25) == 0 {
			// rejected by both; the real parser crashes when an accessor follows (known defect)
			return []string{".", "decimal", "(", "1", ",", "2", ",", "3", ")"}
		}
		switch g.r.Intn(3) {
		case 0:
			return []string{".", "decimal", "(", ")"}
		case 1:
			return []string{".", "decimal", "(", g.pick("", "-", "+") + g.pick("1", "10", "0x5"), ")"}
		default:
			return []string{".", "decimal", "(", g.pick("1", "10"), ",", g.pick("", "-", "+"), g.pick("2", "0"), ")"}
		}
	case 14:
		if g.r.Intn(2) == 0 {
			return []string{".", "datetime", "(", ")"}
		}
		return []string{".", "datetime", "(", g.str(), ")"}
	default:
		m := g.pick("time", "time_tz", "timestamp", "timestamp_tz")
		if g.r.Intn(2) == 0 {
			return []string{".", m, "(", ")"}
		}
		return []string{".", m, "(", g.pick("0", "3", "6", "0x3"), ")"}
	}
}

func (g *gg) accessors(d int, out []string, min int) []string {
	n := min + g.r.Intn(3)
	for i := 0; i < n; i++ {
		out = append(out, g.accessor(d)...)
	}
	return out
}

func (g *gg) expr(d int) []string {
	if d <= 0 {
		return g.accessors(0, g.primary(), 0)
	}
	switch g.r.Intn(10) {
	case 0, 1, 2, 3:
		return g.accessors(d, g.primary(), 0)
	case 4:
		out := append([]string{"("}, g.expr(d-1)...)
		out = append(out, ")")
		return g.accessors(d, out, 0)
	case 5:
		out := append([]string{"("}, g.pred(d-1)...)
		out = append(out, ")")
		return g.accessors(d, out, 1)
	case 6:
		return append([]string{g.pick("-", "+")}, g.expr(d-1)...)
	default:
		out := g.expr(d - 1)
		out = append(out, g.pick("+", "-", "*", "/", "%"))
		return append(out, g.expr(d-1)...)
	}
}

func (g *gg) pred(d int) []string {
	if d <= 0 {
		out := g.expr(0)
		out = append(out, g.pick("==", "!=", "<>", "<", "<=", ">", ">="))
		return append(out, g.expr(0)...)
	}
	switch g.r.Intn(12) {
	case 0, 1, 2:
		out := g.expr(d - 1)
		out = append(out, g.pick("==", "!=", "<>", "<", "<=", ">", ">="))
		return append(out, g.expr(d-1)...)
	case 3, 4:
		out := g.pred(d - 1)
		out = append(out, g.pick("&&", "||"))
		return append(out, g.pred(d-1)...)
	case 5:
		out := append([]string{"!", "("}, g.pred(d-1)...)
		return append(out, ")")
	case 6:
		out := append([]string{"("}, g.pred(d-1)...)
		return append(out, ")")
	case 7:
		out := append([]string{"("}, g.pred(d-1)...)
		return append(out, ")", "is", "unknown")
	case 8:
		out := append([]string{g.pick("exists", "! exists", "EXISTS"), "("}, g.expr(d-1)...)
		return append(out, ")")
	case 9:
		out := g.expr(d - 1)
		return append(out, "starts", "with", g.pick(`"a"`, "$v", `$"v"`))
	default:
		out := g.expr(d - 1)
		out = append(out, "like_regex", g.pick(`"a"`, `"^a.*b$"`, `"a+"`, `"("`, `""`))
		if g.r.Intn(2) == 0 {
			out = append(out, "flag", g.pick(`"i"`, `"q"`, `"sm"`, `"x"`, `"xq"`, `"z"`, `""`))
		}
		return out
	}
}

var vocab = []string{"$", "@", ".", "*", "**", "[", "]", "(", ")", "?", ",", "to", "last", "1", "1.5", `"s"`, "$v",
	"==", "<", "&&", "||", "!", "+", "-", "/", "%", "is", "unknown", "exists", "starts", "with", "like_regex",
	"flag", "abs", "type", "decimal", "datetime", "time", "{", "}", "strict", "lax", "null", "true", "a", "=", "&"}

func (g *gg) join(toks []string) string {
	var b strings.Builder
	for i, t := range toks {
		if i > 0 {
			switch g.r.Intn(6) {
			case 0:
				// no space
			case 1:
				b.WriteString(g.pick("  ", "\t", "\n", "/**/", " /* c */ "))
			default:
				b.WriteByte(' ')
			}
		}
		b.WriteString(t)
	}
	return b.String()
}

// tight joins the tokens with no space unless both neighbours are words
func (g *gg) tight(toks []string) string {
	isWord := func(c byte) bool {
		return c == '_' || c == '$' || c == '"' || c == '\\' || c >= '0' && c <= '9' || c >= 'a' && c <= 'z' || c >= 'A' && c <= 'Z' || c >= 0x80
	}
	var b strings.Builder
	for i, t := range toks {
		if i > 0 && t != "" && toks[i-1] != "" && isWord(t[0]) && isWord(toks[i-1][len(toks[i-1])-1]) {
			b.WriteByte(' ')
		}
		b.WriteString(t)
	}
	return b.String()
}

func GrammarInputs(seed int64, n int) (sentences, mutants []string) {
	g := &gg{r: rand.New(rand.NewSource(seed))}
	for i := 0; i < n; i++ {
		var toks []string
		if g.r.Intn(2) == 0 {
			toks = g.expr(1 + g.r.Intn(3))
		} else {
			toks = g.pred(1 + g.r.Intn(3))
		}
		if g.r.Intn(4) == 0 {
			toks = append([]string{g.pick("strict", "lax", "STRICT", "Lax")}, toks...)
		}
		if g.r.Intn(2) == 0 {
			sentences = append(sentences, g.join(toks))
		} else {
			sentences = append(sentences, g.tight(toks))
		}
		for m := 0; m < 2; m++ {
			mt := append([]string{}, toks...)
			k := g.r.Intn(len(mt))
			switch g.r.Intn(4) {
			case 0:
				mt = append(mt[:k], mt[k+1:]...)
			case 1:
				mt = append(mt[:k+1], mt[k:]...)
			case 2:
				mt[k] = vocab[g.r.Intn(len(vocab))]
			default:
				mt = append(mt[:k], append([]string{vocab[g.r.Intn(len(vocab))]}, mt[k:]...)...)
			}
			if len(mt) > 0 {
				mutants = append(mutants, g.join(mt))
			}
		}
	}
	return sentences, mutants
}
