// Package gen produces seeded random instances: paths that the grammar of
// path/parser/grammar.y can derive (and only those), documents and variables.
package gen

import (
	"math/rand"

	"verif/harness/wire"
)

// G is a generator state.
type G struct {
	R *rand.Rand
	// feature switches
	Methods  bool
	Datetime bool
	Regex    bool
	Vars     bool
	KeyValue bool
}

func New(seed int64) *G {
	return &G{R: rand.New(rand.NewSource(seed)), Methods: true, Vars: true, KeyValue: true, Regex: true}
}

func (g *G) pick(n int) int        { return g.R.Intn(n) }
func (g *G) chance(p float64) bool { return g.R.Float64() < p }

var keys = []string{"a", "b", "c"}

func n(k string) wire.Node { return wire.Node{K: k} }

func key(s string) wire.Node { return wire.Node{K: "key", S: wire.Bytes(s)} }

func numNode(v wire.Value) wire.Node { return wire.Node{K: "num", V: &v} }

func (g *G) numLit() wire.Node {
	switch g.pick(8) {
	case 0:
		return numNode(wire.Int(0))
	case 1:
		return numNode(wire.Int(1))
	case 2:
		return numNode(wire.Int(2))
	case 3:
		return numNode(wire.Int(-1))
	case 4:
		return numNode(wire.Float(1.5))
	case 5:
		return numNode(wire.Float(0.5))
	case 6:
		return numNode(wire.Int(int64(g.pick(5))))
	default:
		return numNode(wire.Float(-2.5))
	}
}

func (g *G) strLit() wire.Node {
	ss := []string{"", "a", "ab", "x", "b", "1", "true", "2023-08-15"}
	return wire.Node{K: "str", S: wire.Bytes(ss[g.pick(len(ss))])}
}

// primary is a chain head that needs no parentheses.
func (g *G) primary(inFilter, inSub bool) wire.Node {
	for {
		switch g.pick(10) {
		case 0, 1, 2:
			if inFilter {
				return n("cur")
			}
			return n("root")
		case 3:
			return n("root")
		case 4:
			if inSub {
				return n("last")
			}
		case 5:
			return g.numLit()
		case 6:
			return g.strLit()
		case 7:
			return n([]string{"null", "true", "false"}[g.pick(3)])
		case 8:
			if g.Vars {
				return wire.Node{K: "var", S: wire.Bytes([]string{"x", "y", "missing"}[g.pick(3)])}
			}
		case 9:
			return g.numLit()
		}
	}
}

var plainMethods = []string{"abs", "size", "type", "floor", "ceiling", "double", "bigint", "boolean", "integer", "number", "string"}

// accessor is one accessor_op.
func (g *G) accessor(depth int, inFilter, inSub bool) wire.Node {
	for {
		switch g.pick(12) {
		case 0, 1, 2:
			return key(keys[g.pick(len(keys))])
		case 3:
			return n("anykey")
		case 4:
			return n("anyarr")
		case 5:
			lv := []int{-1, 0, 1, 2}
			f, l := lv[g.pick(4)], lv[g.pick(4)]
			switch g.pick(3) {
			case 0:
				return wire.Node{K: "any", First: 0, Last: -1}
			case 1:
				return wire.Node{K: "any", First: f, Last: f}
			default:
				if f == -1 && l != -1 { // {last to k}: not pinned by the properties
					f = 0
				}
				return wire.Node{K: "any", First: f, Last: l}
			}
		case 6, 7:
			ns := 1 + g.pick(2)
			subs := make([]wire.Sub, ns)
			for i := range subs {
				subs[i] = wire.Sub{From: g.Expr(depth-1, inFilter, true)}
				if g.chance(0.35) {
					subs[i].HasTo = true
					subs[i].To = g.Expr(depth-1, inFilter, true)
				}
			}
			return wire.Node{K: "idx", Subs: subs}
		case 8, 9:
			if depth > 0 {
				p := g.Pred(depth-1, true, inSub)
				return wire.Node{K: "filter", P: &p}
			}
		case 10:
			if g.Methods {
				if g.KeyValue && g.chance(0.1) {
					return wire.Node{K: "method", Name: "keyvalue"}
				}
				return wire.Node{K: "method", Name: plainMethods[g.pick(len(plainMethods))]}
			}
		case 11:
			if g.Methods && g.chance(0.5) {
				d := wire.Node{K: "decimal", Np: g.pick(3)}
				p := wire.Int(int64(1 + g.pick(4)))
				s := wire.Int(int64(g.pick(3)))
				if d.Np >= 1 {
					d.DP = &p
				}
				if d.Np >= 2 {
					d.DS = &s
				}
				return d
			}
			if g.Datetime {
				ops := []string{"datetime", "date", "time", "time_tz", "timestamp", "timestamp_tz"}
				return wire.Node{K: "dt", Op: ops[g.pick(len(ops))]}
			}
		}
	}
}

// Expr is a chain derivable from the nonterminal expr.
func (g *G) Expr(depth int, inFilter, inSub bool) []wire.Node {
	if depth <= 0 || g.chance(0.45) {
		// accessor_expr from a primary
		ch := []wire.Node{g.primary(inFilter, inSub)}
		na := 0
		if depth > 0 {
			na = g.pick(3)
		} else if g.chance(0.4) {
			na = 1
		}
		for i := 0; i < na; i++ {
			ch = append(ch, g.accessor(depth-1, inFilter, inSub))
		}
		return ch
	}
	switch g.pick(6) {
	case 0, 1: // binary arithmetic, optionally parenthesised with accessors
		ops := []string{"add", "sub", "mul", "div", "mod"}
		b := wire.Node{K: "bin", Op: ops[g.pick(5)], L: g.Expr(depth-1, inFilter, inSub), R: g.Expr(depth-1, inFilter, inSub)}
		ch := []wire.Node{b}
		if g.chance(0.25) {
			ch = append(ch, g.accessor(depth-1, inFilter, inSub))
		}
		return ch
	case 2: // unary +/-; a bare numeric literal operand would be folded by the parser
		x := g.Expr(depth-1, inFilter, inSub)
		op := []string{"plus", "minus"}[g.pick(2)]
		if len(x) == 1 && x[0].K == "num" {
			x = append(x, g.accessor(depth-1, inFilter, inSub))
		}
		ch := []wire.Node{{K: "un", Op: op, X: x}}
		if g.chance(0.2) {
			ch = append(ch, g.accessor(depth-1, inFilter, inSub))
		}
		return ch
	case 3: // '(' predicate ')' accessor_op ...
		p := g.Pred(depth-1, inFilter, inSub)
		return []wire.Node{p, g.accessor(depth-1, inFilter, inSub)}
	default:
		ch := []wire.Node{g.primary(inFilter, inSub)}
		for i := 0; i < 1+g.pick(3); i++ {
			ch = append(ch, g.accessor(depth-1, inFilter, inSub))
		}
		return ch
	}
}

// Pred is one predicate node.
func (g *G) Pred(depth int, inFilter, inSub bool) wire.Node {
	cmp := []string{"eq", "ne", "lt", "gt", "le", "ge"}
	if depth <= 0 || g.chance(0.5) {
		switch g.pick(8) {
		case 0:
			return wire.Node{K: "un", Op: "exists", X: g.Expr(depth-1, inFilter, inSub)}
		case 1:
			r := []wire.Node{g.strLit()}
			if g.Vars && g.chance(0.3) {
				r = []wire.Node{{K: "var", S: wire.Bytes("x")}}
			}
			return wire.Node{K: "bin", Op: "starts", L: g.Expr(depth-1, inFilter, inSub), R: r}
		case 2:
			if g.Regex {
				pats := []string{"a", "ab", "x", "A"}
				fl := wire.Flags{I: g.chance(0.3), Q: g.chance(0.3)}
				return wire.Node{K: "regex", X: g.Expr(depth-1, inFilter, inSub), Pat: wire.Bytes(pats[g.pick(len(pats))]), Flags: fl}
			}
			fallthrough
		default:
			return wire.Node{K: "bin", Op: cmp[g.pick(6)], L: g.Expr(depth-1, inFilter, inSub), R: g.Expr(depth-1, inFilter, inSub)}
		}
	}
	switch g.pick(5) {
	case 0:
		return wire.Node{K: "bin", Op: "and", L: []wire.Node{g.Pred(depth-1, inFilter, inSub)}, R: []wire.Node{g.Pred(depth-1, inFilter, inSub)}}
	case 1:
		return wire.Node{K: "bin", Op: "or", L: []wire.Node{g.Pred(depth-1, inFilter, inSub)}, R: []wire.Node{g.Pred(depth-1, inFilter, inSub)}}
	case 2:
		return wire.Node{K: "un", Op: "not", X: []wire.Node{g.Pred(depth-1, inFilter, inSub)}}
	case 3:
		return wire.Node{K: "un", Op: "isunknown", X: []wire.Node{g.Pred(depth-1, inFilter, inSub)}}
	default:
		return wire.Node{K: "bin", Op: cmp[g.pick(6)], L: g.Expr(depth-1, inFilter, inSub), R: g.Expr(depth-1, inFilter, inSub)}
	}
}

// Path is a whole path: an expression or a predicate check.
func (g *G) Path(depth int) wire.Path {
	p := wire.Path{Lax: g.chance(0.5)}
	if g.chance(0.25) {
		p.Pred = true
		p.Chain = []wire.Node{g.Pred(depth, false, false)}
	} else {
		p.Chain = g.Expr(depth, false, false)
	}
	return p
}

// Doc is a random document of bounded depth.
func (g *G) Doc(depth int) wire.Value {
	if depth <= 0 || g.chance(0.3) {
		switch g.pick(12) {
		case 0:
			return wire.Null()
		case 1:
			return wire.Bool(true)
		case 2:
			return wire.Bool(false)
		case 3:
			return wire.Float(0)
		case 4:
			return wire.Float(1)
		case 5:
			return wire.Float(2)
		case 6:
			return wire.Float(1.5)
		case 7:
			return wire.Float(-1)
		case 8:
			return wire.StrV("a")
		case 9:
			return wire.StrV("ab")
		case 10:
			return wire.StrV("1")
		default:
			return wire.StrV("x")
		}
	}
	if g.chance(0.5) {
		k := g.pick(4)
		a := make([]wire.Value, k)
		for i := range a {
			a[i] = g.Doc(depth - 1)
		}
		return wire.Value{T: "arr", A: a}
	}
	k := g.pick(3) // at most 2 members: member-order choices stay enumerable
	used := map[string]bool{}
	kv := []any{}
	for i := 0; i < k; i++ {
		name := keys[g.pick(len(keys))]
		if used[name] {
			continue
		}
		used[name] = true
		kv = append(kv, name, g.Doc(depth-1))
	}
	return wire.Obj(kv...)
}

// VarSet is a random variable binding set (x, y bound; missing never).
func (g *G) VarSet() []wire.Var {
	if !g.Vars || g.chance(0.3) {
		return []wire.Var{}
	}
	return []wire.Var{
		{K: wire.Bytes("x"), V: g.Doc(1)},
		{K: wire.Bytes("y"), V: g.Doc(0)},
	}
}
