package gen

import (
	"go/ast"
	"go/parser"
	"go/token"
	"io/fs"
	"math/rand"
	"path/filepath"
	"strconv"
	"strings"
)

// SyntaxAlphabet drives the scanner's look-ahead in the exhaustive part.
const SyntaxAlphabet = "$@.*[]()?\"\\aexu01_-+ /{}<=>!&,|"

// RepoLiterals returns every string literal of the repository's test files.
func RepoLiterals(root string, maxLen int) []string {
	var out []string
	_ = filepath.WalkDir(root, func(p string, d fs.DirEntry, err error) error {
		if err != nil || d.IsDir() || !strings.HasSuffix(p, "_test.go") {
			return nil
		}
		f, err := parser.ParseFile(token.NewFileSet(), p, nil, 0)
		if err != nil {
			return nil
		}
		ast.Inspect(f, func(n ast.Node) bool {
			if l, ok := n.(*ast.BasicLit); ok && l.Kind == token.STRING {
				if s, err := strconv.Unquote(l.Value); err == nil && len(s) <= maxLen {
					out = append(out, s)
				}
			}
			return true
		})
		return nil
	})
	return out
}

// ShortStrings returns every string of length 0..n over the alphabet.
func ShortStrings(n int) []string {
	out := []string{""}
	prev := []string{""}
	for i := 0; i < n; i++ {
		var next []string
		for _, p := range prev {
			for _, c := range SyntaxAlphabet {
				next = append(next, p+string(c))
			}
		}
		out = append(out, next...)
		prev = next
	}
	return out
}

// ByteMutants returns seeded byte-level mutations of valid spellings and raw
// random byte strings (contract checks: the specification may decline them).
func ByteMutants(seed int64, base []string, n int) []string {
	r := rand.New(rand.NewSource(seed))
	var out []string
	pool := []byte(SyntaxAlphabet + "\x00\xff\xc3\x80\n\t9zZ'`~#%^;:")
	for i := 0; i < n && len(base) > 0; i++ {
		b := []byte(base[r.Intn(len(base))])
		switch r.Intn(5) {
		case 0:
			if len(b) > 0 {
				k := r.Intn(len(b))
				b = append(b[:k], b[k+1:]...)
			}
		case 1:
			k := r.Intn(len(b) + 1)
			b = append(b[:k], append([]byte{pool[r.Intn(len(pool))]}, b[k:]...)...)
		case 2:
			if len(b) > 0 {
				b[r.Intn(len(b))] = pool[r.Intn(len(pool))]
			}
		case 3:
			if len(b) > 1 {
				k := r.Intn(len(b) - 1)
				b[k], b[k+1] = b[k+1], b[k]
			}
		default:
			b = make([]byte, r.Intn(8))
			for j := range b {
				b[j] = byte(r.Intn(256))
			}
		}
		out = append(out, string(b))
	}
	return out
}

// NumberForms builds numeric literals systematically: every integer part x
// fraction x exponent combination (including digits 8 and 9 in every
// position, which the octal-looking "0" prefix must not reject or trip over),
// radix forms with every digit class, and each literal in three contexts.
func NumberForms() []string {
	ints := []string{"", "0", "1", "7", "8", "9", "10", "08", "00", "0_1", "1_0", "1__0", "_1", "1_"}
	fracs := []string{"", ".", ".0", ".5", ".25", ".89", ".8_9", "._5"}
	exps := []string{"", "e0", "e7", "e8", "e9", "E+8", "e-18", "e+09", "E-9", "e", "e+", "e1_0", "e_1"}
	var lits []string
	for _, i := range ints {
		for _, f := range fracs {
			for _, e := range exps {
				if i == "" && (f == "" || f == ".") {
					continue
				}
				lits = append(lits, i+f+e)
			}
		}
	}
	for _, p := range []string{"0x", "0X", "0o", "0O", "0b", "0B"} {
		for _, d := range []string{"", "0", "1", "7", "8", "9", "a", "F", "g", "1_0", "_1", "1_", "12", "18", "1f", "1.5", "1e1", "1e9"} {
			lits = append(lits, p+d)
		}
	}
	var out []string
	for _, l := range lits {
		out = append(out, l, "-"+l, "$ ? (@ < "+l+")", "$["+l+"]", l+".a", l+" .a", "("+l+").type()")
	}
	return out
}

// RegexForms returns like_regex predicates over every pattern of length 0..3
// and a seeded sample of longer ones over the regular-expression alphabet,
// with and without flags: the parser must refuse exactly the patterns Go's
// regexp refuses (property C04), so that execution never meets one.
func RegexForms(seed int64, nLong int) []string {
	alpha := []string{"a", "b", ".", "*", "+", "?", "|", "(", ")", "[", "]", "^", "$", `\\`, "-", "d", "{", "}", "1", ","}
	quote := func(p string) string { return `"` + p + `"` }
	var out []string
	pats := []string{""}
	level := []string{""}
	for n := 1; n <= 3; n++ {
		var next []string
		for _, p := range level {
			for _, c := range alpha {
				next = append(next, p+c)
			}
		}
		pats = append(pats, next...)
		level = next
	}
	for i, p := range pats {
		out = append(out, "$ like_regex "+quote(p))
		if i%7 == 0 {
			out = append(out, "$ like_regex "+quote(p)+` flag "i"`, "$ like_regex "+quote(p)+` flag "q"`, "$ like_regex "+quote(p)+` flag "sm"`)
		}
	}
	r := rand.New(rand.NewSource(seed))
	for i := 0; i < nLong; i++ {
		n := 4 + r.Intn(5)
		p := ""
		for j := 0; j < n; j++ {
			p += alpha[r.Intn(len(alpha))]
		}
		out = append(out, "$ like_regex "+quote(p))
	}
	return out
}
