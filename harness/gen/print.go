package gen

import (
	"math"

	"verif/harness/wire"
)

// PrintUniverse enumerates paths for the round-trip property (C02): every
// operator as operand of every other operator on each side, with and without
// a trailing accessor chain; string / key / variable contents from a class
// alphabet; numeric literal values; every .** bound shape; every regex flag
// set; every accessor and method form.
func PrintUniverse() []wire.Path {
	var out []wire.Path
	root := wire.Node{K: "root"}
	ka := key("a")
	atomsE := [][]wire.Node{{root}, {root, ka}, {numNode(wire.Int(1))}, {{K: "var", S: wire.Bytes("x")}}}
	arith := []string{"add", "sub", "mul", "div", "mod"}
	unary := []string{"plus", "minus"}
	cmp := []string{"eq", "ne", "lt", "gt", "le", "ge"}
	acc := wire.Node{K: "method", Name: "abs"}
	typ := wire.Node{K: "method", Name: "type"}

	binE := func(op string, l, r []wire.Node) wire.Node { return wire.Node{K: "bin", Op: op, L: l, R: r} }
	unE := func(op string, x []wire.Node) wire.Node { return wire.Node{K: "un", Op: op, X: x} }
	expr := func(ch ...wire.Node) { out = append(out, wire.Path{Lax: true, Chain: ch}) }
	pred := func(n wire.Node) { out = append(out, wire.Path{Lax: true, Pred: true, Chain: []wire.Node{n}}) }

	// inner expression nodes
	var inner []wire.Node
	for _, op := range arith {
		inner = append(inner, binE(op, atomsE[1], atomsE[2]))
	}
	for _, op := range unary {
		inner = append(inner, unE(op, atomsE[1]), unE(op, []wire.Node{binE("add", atomsE[0], atomsE[2])}))
	}
	for _, in := range inner {
		for _, withAcc := range []bool{false, true} {
			operand := []wire.Node{in}
			if withAcc {
				operand = []wire.Node{in, acc}
			}
			for _, op := range arith {
				expr(binE(op, operand, atomsE[2]))
				expr(binE(op, atomsE[2], operand))
				expr(binE(op, operand, operand))
				expr(binE(op, operand, atomsE[2]), acc) // accessor on the outer node
			}
			for _, op := range unary {
				expr(unE(op, operand))
				expr(unE(op, operand), acc)
			}
			for _, op := range cmp[:3] {
				pred(binE(op, operand, atomsE[2]))
				pred(binE(op, atomsE[1], operand))
			}
			pred(wire.Node{K: "un", Op: "exists", X: operand})
			pred(binE("starts", operand, []wire.Node{{K: "str", S: wire.Bytes("a")}}))
			pred(wire.Node{K: "regex", X: operand, Pat: wire.Bytes("a")})
			// as subscript bound and inside a filter
			expr(root, wire.Node{K: "idx", Subs: []wire.Sub{{From: operand}, {From: atomsE[2], HasTo: true, To: operand}}})
		}
	}
	// predicates as operands of connectives, each on each side
	cmpN := binE("eq", atomsE[1], atomsE[2])
	preds := []wire.Node{cmpN, binE("and", []wire.Node{cmpN}, []wire.Node{cmpN}), binE("or", []wire.Node{cmpN}, []wire.Node{cmpN}),
		unE("not", []wire.Node{cmpN}), unE("isunknown", []wire.Node{cmpN}), unE("exists", atomsE[1]),
		binE("starts", atomsE[1], []wire.Node{{K: "str", S: wire.Bytes("a")}}), {K: "regex", X: atomsE[1], Pat: wire.Bytes("a")},
		binE("starts", atomsE[1], []wire.Node{{K: "var", S: wire.Bytes("x")}})}
	for _, p := range preds {
		pred(p)
		for _, q := range preds {
			pred(binE("and", []wire.Node{p}, []wire.Node{q}))
			pred(binE("or", []wire.Node{p}, []wire.Node{q}))
		}
		pred(unE("not", []wire.Node{p}))
		pred(unE("isunknown", []wire.Node{p}))
		// a predicate carrying accessors is an expression
		expr(p, typ)
		expr(binE("add", []wire.Node{p, typ}, atomsE[2]))
		pred(binE("eq", []wire.Node{p, typ}, []wire.Node{{K: "str", S: wire.Bytes("boolean")}}))
		pp := p
		expr(root, wire.Node{K: "filter", P: &pp})
		expr(root, wire.Node{K: "filter", P: &pp}, ka, wire.Node{K: "filter", P: &pp})
	}
	// contents of strings, keys and variables
	contents := []string{"", "a", "a b", "\"", "\\", "/", "'", "\x01", "\x07", "\x08", "\x09", "\x0a", "\x0b", "\x0c", "\x0d", "\x1b", "\x1f", "\x7f",
		"é", "\u0080", "​", " ", "�", "\U0001F600", "\U000E0001", "a\"b\\c\nd", "$", "@", "last", "true", "1", "a.b", "中"}
	// a literal backslash before every letter an escape could start with
	for _, c := range "abfnrtvxuU\\\"/0'{" {
		contents = append(contents, "C:\\"+string(c)+"pps", "\\"+string(c))
	}
	contents = append(contents, "\\u0041", "\\x41", "\\u{41}", "\x07\\a\x07", "\\\\a")
	// text that a formatting verb, a template or a shell would interpret
	contents = append(contents, "%", "%%", "%s", "%d%%", "100%", "%!s(MISSING)", "{{.}}", "${x}", "`a`", "a%20b")
	for _, c := range contents {
		b := wire.Bytes(c)
		expr(wire.Node{K: "str", S: b})
		expr(root, wire.Node{K: "key", S: b})
		expr(wire.Node{K: "var", S: b})
		expr(wire.Node{K: "var", S: b}, wire.Node{K: "key", S: b})
		pred(wire.Node{K: "regex", X: atomsE[0], Pat: b, Flags: wire.Flags{Q: true}})
		pred(binE("starts", atomsE[0], []wire.Node{{K: "str", S: b}}))
		expr(root, wire.Node{K: "dt", Op: "datetime", Arg: &wire.Node{K: "str", S: b}})
	}
	// numeric literals
	for _, f := range []float64{0, 4, 0.5, 1e21, 1e-7, 1.5, -4, -0.5, 1e300, 5e-324, 9007199254740993, 123456789.125, math.MaxFloat64} {
		expr(numNode(wire.Float(f)))
		expr(numNode(wire.Float(f)), ka)
		expr(binE("add", []wire.Node{numNode(wire.Float(f))}, atomsE[0]))
		expr(root, wire.Node{K: "idx", Subs: []wire.Sub{{From: []wire.Node{numNode(wire.Float(f))}}}})
	}
	for _, i := range []int64{0, 1, -1, 42, math.MaxInt64, math.MinInt64 + 1, 9007199254740993, -2147483648} {
		expr(numNode(wire.Int(i)))
		expr(numNode(wire.Int(i)), ka)
		expr(binE("mul", []wire.Node{numNode(wire.Int(i))}, atomsE[1]))
		expr(unE("minus", []wire.Node{numNode(wire.Int(i)), ka}))
	}
	// .** bounds
	lv := []int{-1, 0, 1, 2, 7}
	for _, f := range lv {
		for _, l := range lv {
			expr(root, wire.Node{K: "any", First: f, Last: l})
			expr(root, wire.Node{K: "any", First: f, Last: l}, ka)
		}
	}
	// regex flags
	for m := 0; m < 16; m++ {
		fl := wire.Flags{I: m&1 != 0, S: m&2 != 0, M: m&4 != 0, Q: m&8 != 0}
		pred(wire.Node{K: "regex", X: atomsE[1], Pat: wire.Bytes("^a.b$"), Flags: fl})
		if fl.Q {
			fl.X = true
			pred(wire.Node{K: "regex", X: atomsE[1], Pat: wire.Bytes("a b"), Flags: fl})
		}
	}
	// accessors and methods
	for _, m := range []string{"abs", "size", "type", "floor", "ceiling", "double", "keyvalue", "bigint", "boolean", "integer", "number", "string"} {
		expr(root, wire.Node{K: "method", Name: m})
		expr(root, wire.Node{K: "method", Name: m}, ka)
	}
	p3, s1, sm := wire.Int(3), wire.Int(1), wire.Int(-2)
	expr(root, wire.Node{K: "decimal"})
	expr(root, wire.Node{K: "decimal", Np: 1, DP: &p3})
	expr(root, wire.Node{K: "decimal", Np: 2, DP: &p3, DS: &s1})
	expr(root, wire.Node{K: "decimal", Np: 2, DP: &p3, DS: &sm}, ka)
	for _, op := range []string{"datetime", "date", "time", "time_tz", "timestamp", "timestamp_tz"} {
		expr(root, wire.Node{K: "dt", Op: op})
		if op != "datetime" && op != "date" {
			six := wire.Int(6)
			expr(root, wire.Node{K: "dt", Op: op, Arg: &wire.Node{K: "num", V: &six}}, ka)
		}
	}
	last := []wire.Node{{K: "last"}}
	expr(root, wire.Node{K: "anyarr"}, wire.Node{K: "anykey"}, wire.Node{K: "idx", Subs: []wire.Sub{{From: last}, {From: atomsE[2], HasTo: true, To: last},
		{From: []wire.Node{binE("sub", last, atomsE[2])}}}})
	// strict variants of a sample
	n := len(out)
	for i := 0; i < n; i += 7 {
		p := out[i]
		p.Lax = false
		out = append(out, p)
	}
	return out
}
