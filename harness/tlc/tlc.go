// Package tlc runs TLC on the specification in scratch directories and
// parses what it printed.
package tlc

import (
	"bufio"
	"bytes"
	"context"
	"fmt"
	"io"
	"os"
	"os/exec"
	"path/filepath"
	"regexp"
	"strconv"
	"strings"
	"time"
)

const (
	jar  = "/opt/veriftools/tla/tla2tools.jar"
	deps = "/opt/veriftools/tla/CommunityModules-deps.jar"
)

// SpecDir is where the TLA+ modules live.
var SpecDir = "/verif/spec"

// Scratch creates a scratch directory holding a copy of the specification.
func Scratch(prefix string) (string, error) {
	dir, err := os.MkdirTemp("", "verif-"+prefix+"-")
	if err != nil {
		return "", err
	}
	files, _ := filepath.Glob(filepath.Join(SpecDir, "*.tla"))
	for _, f := range files {
		if err := copyFile(f, filepath.Join(dir, filepath.Base(f))); err != nil {
			return "", err
		}
	}
	return dir, nil
}

func copyFile(src, dst string) error {
	in, err := os.Open(src)
	if err != nil {
		return err
	}
	defer in.Close()
	out, err := os.Create(dst)
	if err != nil {
		return err
	}
	defer out.Close()
	_, err = io.Copy(out, in)
	return err
}

// LinkSpec makes the modules of dir available in sub (a shard directory).
func LinkSpec(dir, sub string) error {
	files, _ := filepath.Glob(filepath.Join(dir, "*.tla"))
	for _, f := range files {
		if err := os.Symlink(f, filepath.Join(sub, filepath.Base(f))); err != nil {
			return err
		}
	}
	return nil
}

// Verdict is one non-empty verdict TLC printed for a record.
type Verdict struct {
	ID      int
	Clauses []string
}

// Result is what one TLC run reported.
type Result struct {
	Generated int
	Distinct  int
	Verdicts  []Verdict
	Prints    []string // other PrintT lines (tuples starting with a tag)
	Failed    bool     // TLC reported an error (evaluation error, invariant, ...)
	ErrText   string
	Output    string
	Wall      time.Duration
}

var (
	reStates  = regexp.MustCompile(`(\d+) states generated, (\d+) distinct states found`)
	reVerdict = regexp.MustCompile(`^<<"V", (\d+), "(.*)">>$`)
)

// Run executes TLC on module in dir with the given configuration text.
func Run(dir, module, cfg string, workers, heapMB int, timeout time.Duration, extra ...string) (*Result, error) {
	if err := os.WriteFile(filepath.Join(dir, module+".cfg"), []byte(cfg), 0o644); err != nil {
		return nil, err
	}
	meta := filepath.Join(dir, "md-"+module)
	gc := []string{"-XX:+UseParallelGC"}
	if workers <= 2 {
		// many small judge processes run side by side: keep each one narrow
		gc = []string{"-XX:+UseSerialGC", "-XX:CICompilerCount=2", "-XX:TieredStopAtLevel=1"}
	}
	args := append([]string{"-Xss512m", fmt.Sprintf("-Xmx%dm", heapMB)}, gc...)
	args = append(args, "-Djava.io.tmpdir="+dir,
		"-cp", jar+":"+deps, "tlc2.TLC", "-workers", strconv.Itoa(workers),
		"-metadir", meta, "-noGenerateSpecTE")
	args = append(args, extra...)
	args = append(args, module+".tla")
	ctx, cancel := context.WithTimeout(context.Background(), timeout)
	defer cancel()
	cmd := exec.CommandContext(ctx, "java", args...)
	cmd.Dir = dir
	var buf bytes.Buffer
	cmd.Stdout = &buf
	cmd.Stderr = &buf
	start := time.Now()
	err := cmd.Run()
	res := &Result{Output: buf.String(), Wall: time.Since(start)}
	_ = os.WriteFile(filepath.Join(dir, module+".out"), buf.Bytes(), 0o644)
	if ctx.Err() != nil {
		return res, fmt.Errorf("tlc %s: timeout after %v", module, timeout)
	}
	sc := bufio.NewScanner(strings.NewReader(res.Output))
	sc.Buffer(make([]byte, 1<<20), 1<<28)
	for sc.Scan() {
		line := sc.Text()
		if m := reStates.FindStringSubmatch(line); m != nil {
			res.Generated, _ = strconv.Atoi(m[1])
			res.Distinct, _ = strconv.Atoi(m[2])
		} else if m := reVerdict.FindStringSubmatch(line); m != nil {
			id, _ := strconv.Atoi(m[1])
			res.Verdicts = append(res.Verdicts, Verdict{ID: id, Clauses: []string{m[2]}})
		} else if strings.HasPrefix(line, "<<\"") {
			res.Prints = append(res.Prints, line)
		} else if strings.HasPrefix(line, "<< \"V\"") {
			// TLC wrapped a verdict line: the output cannot be trusted
			res.Failed = true
			res.ErrText = "verdict line wrapped by TLC: " + line
		} else if strings.HasPrefix(line, "Error:") || strings.Contains(line, "***Parse Error***") {
			res.Failed = true
			if res.ErrText == "" {
				res.ErrText = line
			}
		}
	}
	if err != nil && !res.Failed {
		// TLC exits non-zero for violations and errors; anything else is infrastructure
		res.Failed = true
		if res.ErrText == "" {
			res.ErrText = err.Error()
		}
	}
	return res, nil
}

// Tail returns the last n lines of the output (for diagnostics).
func (r *Result) Tail(n int) string {
	lines := strings.Split(strings.TrimRight(r.Output, "\n"), "\n")
	if len(lines) > n {
		lines = lines[len(lines)-n:]
	}
	return strings.Join(lines, "\n")
}
