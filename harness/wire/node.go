package wire

import (
	"encoding/json"
	"fmt"
	"reflect"
	"strconv"

	"github.com/theory/sqljson/path/ast"
)

// Node is one path node in the shape of spec/PathSem.tla.
type Node struct {
	K     string // kind
	S     []int  // str, var, key: text
	V     *Value // num: literal value
	Op    string // bin, un, dt
	L, R  []Node // bin operands (chains)
	X     []Node // un, regex operand (chain)
	Pat   []int  // regex
	Flags Flags  // regex
	First int    // any (-1 = last)
	Last  int    // any
	Subs  []Sub  // idx
	P     *Node  // filter predicate
	Name  string // method
	Np    int    // decimal: number of arguments
	DP    *Value // decimal precision
	DS    *Value // decimal scale
	Arg   *Node  // dt argument (str template or num precision)
}

type Flags struct {
	I bool `json:"i"`
	S bool `json:"s"`
	M bool `json:"m"`
	Q bool `json:"q"`
	X bool `json:"x"`
}

type Sub struct {
	From  []Node `json:"from"`
	HasTo bool   `json:"hasTo"`
	To    []Node `json:"to"`
}

type Path struct {
	Lax   bool   `json:"lax"`
	Pred  bool   `json:"pred"`
	Chain []Node `json:"chain"`
}

func nzn(x []Node) []Node {
	if x == nil {
		return []Node{}
	}
	return x
}

var zeroNum = Int(0)

func (n Node) MarshalJSON() ([]byte, error) {
	m := map[string]any{"k": n.K}
	switch n.K {
	case "str", "var", "key":
		m["s"] = nz(n.S)
	case "num":
		m["v"] = n.V
	case "bin":
		m["op"], m["l"], m["r"] = n.Op, nzn(n.L), nzn(n.R)
	case "un":
		m["op"], m["x"] = n.Op, nzn(n.X)
	case "regex":
		m["x"], m["pat"], m["flags"] = nzn(n.X), nz(n.Pat), n.Flags
	case "any":
		m["first"], m["last"] = n.First, n.Last
	case "idx":
		subs := make([]Sub, len(n.Subs))
		for i, s := range n.Subs {
			subs[i] = Sub{From: nzn(s.From), HasTo: s.HasTo, To: nzn(s.To)}
		}
		m["subs"] = subs
	case "filter":
		m["p"] = n.P
	case "method":
		m["name"] = n.Name
	case "decimal":
		m["np"] = n.Np
		p, s := n.DP, n.DS
		if p == nil {
			p = &zeroNum
		}
		if s == nil {
			s = &zeroNum
		}
		m["p"], m["s"] = p, s
	case "dt":
		m["op"] = n.Op
		m["hasArg"] = n.Arg != nil
		if n.Arg != nil {
			m["arg"] = n.Arg
		} else {
			m["arg"] = Node{K: "null"}
		}
	}
	return json.Marshal(m)
}

func (n *Node) UnmarshalJSON(data []byte) error {
	var raw struct {
		K      string          `json:"k"`
		S      json.RawMessage `json:"s"`
		V      *Value          `json:"v"`
		Op     string          `json:"op"`
		L      []Node          `json:"l"`
		R      []Node          `json:"r"`
		X      []Node          `json:"x"`
		Pat    []int           `json:"pat"`
		Flags  Flags           `json:"flags"`
		First  int             `json:"first"`
		Last   int             `json:"last"`
		Subs   []Sub           `json:"subs"`
		P      json.RawMessage `json:"p"`
		Name   string          `json:"name"`
		Np     int             `json:"np"`
		HasArg bool            `json:"hasArg"`
		Arg    *Node           `json:"arg"`
	}
	if err := json.Unmarshal(data, &raw); err != nil {
		return err
	}
	*n = Node{K: raw.K, V: raw.V, Op: raw.Op, L: raw.L, R: raw.R, X: raw.X, Pat: raw.Pat, Flags: raw.Flags,
		First: raw.First, Last: raw.Last, Subs: raw.Subs, Name: raw.Name, Np: raw.Np}
	switch raw.K {
	case "str", "var", "key":
		if len(raw.S) > 0 {
			if err := json.Unmarshal(raw.S, &n.S); err != nil {
				return err
			}
		}
	case "filter":
		n.P = new(Node)
		if err := json.Unmarshal(raw.P, n.P); err != nil {
			return err
		}
	case "decimal":
		n.DP, n.DS = new(Value), new(Value)
		if len(raw.P) > 0 {
			if err := json.Unmarshal(raw.P, n.DP); err != nil {
				return err
			}
		}
		if len(raw.S) > 0 {
			if err := json.Unmarshal(raw.S, n.DS); err != nil {
				return err
			}
		}
		if raw.Np < 2 {
			n.DS = nil
		}
		if raw.Np < 1 {
			n.DP = nil
		}
	case "dt":
		if raw.HasArg {
			n.Arg = raw.Arg
		}
	}
	return nil
}

// ---------------------------------------------------------------------------
// wire -> real AST (exported constructors only; the parser is not involved)

var binOps = map[string]ast.BinaryOperator{
	"and": ast.BinaryAnd, "or": ast.BinaryOr, "eq": ast.BinaryEqual, "ne": ast.BinaryNotEqual,
	"lt": ast.BinaryLess, "gt": ast.BinaryGreater, "le": ast.BinaryLessOrEqual, "ge": ast.BinaryGreaterOrEqual,
	"starts": ast.BinaryStartsWith, "add": ast.BinaryAdd, "sub": ast.BinarySub, "mul": ast.BinaryMul,
	"div": ast.BinaryDiv, "mod": ast.BinaryMod,
}
var unOps = map[string]ast.UnaryOperator{
	"exists": ast.UnaryExists, "not": ast.UnaryNot, "isunknown": ast.UnaryIsUnknown,
	"plus": ast.UnaryPlus, "minus": ast.UnaryMinus,
}
var dtOps = map[string]ast.UnaryOperator{
	"datetime": ast.UnaryDateTime, "date": ast.UnaryDate, "time": ast.UnaryTime, "time_tz": ast.UnaryTimeTZ,
	"timestamp": ast.UnaryTimestamp, "timestamp_tz": ast.UnaryTimestampTZ,
}
var methods = map[string]ast.MethodName{
	"abs": ast.MethodAbs, "size": ast.MethodSize, "type": ast.MethodType, "floor": ast.MethodFloor,
	"ceiling": ast.MethodCeiling, "double": ast.MethodDouble, "keyvalue": ast.MethodKeyValue,
	"bigint": ast.MethodBigInt, "boolean": ast.MethodBoolean, "integer": ast.MethodInteger,
	"number": ast.MethodNumber, "string": ast.MethodString,
}

func inv[K comparable, V comparable](m map[K]V) map[V]K {
	r := make(map[V]K, len(m))
	for k, v := range m {
		r[v] = k
	}
	return r
}

var (
	binNames    = inv(binOps)
	unNames     = inv(unOps)
	dtNames     = inv(dtOps)
	methodNames = inv(methods)
)

func (f Flags) String() string {
	s := ""
	if f.I {
		s += "i"
	}
	if f.S {
		s += "s"
	}
	if f.M {
		s += "m"
	}
	if f.X {
		s += "x"
	}
	if f.Q {
		s += "q"
	}
	return s
}

func numLiteral(v Value) (ast.Node, error) {
	switch v.Rep {
	case "i":
		i, ok := v.N.Int64()
		if !ok {
			return nil, fmt.Errorf("wire: integer literal out of range")
		}
		return ast.NewInteger(strconv.FormatInt(i, 10)), nil
	case "f":
		return ast.NewNumeric(strconv.FormatFloat(v.N.Float64(), 'g', -1, 64)), nil
	}
	return nil, fmt.Errorf("wire: literal rep %q", v.Rep)
}

// ChainAST links a chain into the real AST.
func ChainAST(ch []Node) (ast.Node, error) {
	if len(ch) == 0 {
		return nil, fmt.Errorf("wire: empty chain")
	}
	nodes := make([]ast.Node, len(ch))
	for i, n := range ch {
		a, err := n.AST()
		if err != nil {
			return nil, err
		}
		nodes[i] = a
	}
	return ast.LinkNodes(nodes), nil
}

// AST builds the single real node (operands are chains).
func (n Node) AST() (ast.Node, error) {
	switch n.K {
	case "root":
		return ast.NewConst(ast.ConstRoot), nil
	case "cur":
		return ast.NewConst(ast.ConstCurrent), nil
	case "last":
		return ast.NewConst(ast.ConstLast), nil
	case "null":
		return ast.NewConst(ast.ConstNull), nil
	case "true":
		return ast.NewConst(ast.ConstTrue), nil
	case "false":
		return ast.NewConst(ast.ConstFalse), nil
	case "anykey":
		return ast.NewConst(ast.ConstAnyKey), nil
	case "anyarr":
		return ast.NewConst(ast.ConstAnyArray), nil
	case "str":
		return ast.NewString(Str(n.S)), nil
	case "var":
		return ast.NewVariable(Str(n.S)), nil
	case "key":
		return ast.NewKey(Str(n.S)), nil
	case "num":
		return numLiteral(*n.V)
	case "bin":
		l, err := ChainAST(n.L)
		if err != nil {
			return nil, err
		}
		r, err := ChainAST(n.R)
		if err != nil {
			return nil, err
		}
		op, ok := binOps[n.Op]
		if !ok {
			return nil, fmt.Errorf("wire: binary op %q", n.Op)
		}
		return ast.NewBinary(op, l, r), nil
	case "un":
		x, err := ChainAST(n.X)
		if err != nil {
			return nil, err
		}
		op, ok := unOps[n.Op]
		if !ok {
			return nil, fmt.Errorf("wire: unary op %q", n.Op)
		}
		return ast.NewUnary(op, x), nil
	case "regex":
		x, err := ChainAST(n.X)
		if err != nil {
			return nil, err
		}
		return ast.NewRegex(x, Str(n.Pat), n.Flags.String())
	case "any":
		return ast.NewAny(n.First, n.Last), nil
	case "idx":
		subs := make([]ast.Node, len(n.Subs))
		for i, s := range n.Subs {
			f, err := ChainAST(s.From)
			if err != nil {
				return nil, err
			}
			var t ast.Node
			if s.HasTo {
				if t, err = ChainAST(s.To); err != nil {
					return nil, err
				}
			}
			if t == nil {
				subs[i] = ast.NewBinary(ast.BinarySubscript, f, nil)
			} else {
				subs[i] = ast.NewBinary(ast.BinarySubscript, f, t)
			}
		}
		return ast.NewArrayIndex(subs), nil
	case "filter":
		p, err := n.P.AST()
		if err != nil {
			return nil, err
		}
		return ast.NewUnary(ast.UnaryFilter, p), nil
	case "method":
		m, ok := methods[n.Name]
		if !ok {
			return nil, fmt.Errorf("wire: method %q", n.Name)
		}
		return ast.NewMethod(m), nil
	case "decimal":
		var p, s ast.Node
		var err error
		if n.Np >= 1 {
			if p, err = numLiteral(*n.DP); err != nil {
				return nil, err
			}
		}
		if n.Np >= 2 {
			if s, err = numLiteral(*n.DS); err != nil {
				return nil, err
			}
		}
		// a nil interface, not a typed nil pointer, for absent arguments
		switch {
		case p == nil:
			return ast.NewBinary(ast.BinaryDecimal, nil, nil), nil
		case s == nil:
			return ast.NewBinary(ast.BinaryDecimal, p, nil), nil
		}
		return ast.NewBinary(ast.BinaryDecimal, p, s), nil
	case "dt":
		op, ok := dtOps[n.Op]
		if !ok {
			return nil, fmt.Errorf("wire: datetime op %q", n.Op)
		}
		if n.Arg == nil {
			return ast.NewUnary(op, nil), nil
		}
		a, err := n.Arg.AST()
		if err != nil {
			return nil, err
		}
		return ast.NewUnary(op, a), nil
	}
	return nil, fmt.Errorf("wire: node kind %q", n.K)
}

// AST builds the real *ast.AST.
func (p Path) AST() (*ast.AST, error) {
	root, err := ChainAST(p.Chain)
	if err != nil {
		return nil, err
	}
	return ast.New(p.Lax, p.Pred, root)
}

// ---------------------------------------------------------------------------
// real AST -> wire (exported accessors only)

// FromChain converts a linked real node list.
func FromChain(n ast.Node) ([]Node, error) {
	out := []Node{}
	for ; n != nil; n = n.Next() {
		w, err := fromNode(n)
		if err != nil {
			return nil, err
		}
		out = append(out, w)
	}
	return out, nil
}

func fromNode(n ast.Node) (Node, error) {
	switch n := n.(type) {
	case *ast.ConstNode:
		k := map[ast.Constant]string{ast.ConstRoot: "root", ast.ConstCurrent: "cur", ast.ConstLast: "last",
			ast.ConstAnyArray: "anyarr", ast.ConstAnyKey: "anykey", ast.ConstTrue: "true",
			ast.ConstFalse: "false", ast.ConstNull: "null"}[n.Const()]
		return Node{K: k}, nil
	case *ast.StringNode:
		return Node{K: "str", S: Bytes(n.Text())}, nil
	case *ast.VariableNode:
		return Node{K: "var", S: Bytes(n.Text())}, nil
	case *ast.KeyNode:
		return Node{K: "key", S: Bytes(n.Text())}, nil
	case *ast.IntegerNode:
		v := Int(n.Int())
		return Node{K: "num", V: &v}, nil
	case *ast.NumericNode:
		v := Float(n.Float())
		return Node{K: "num", V: &v}, nil
	case *ast.MethodNode:
		return Node{K: "method", Name: methodNames[n.Name()]}, nil
	case *ast.AnyNode:
		f, l := int(n.First()), int(n.Last())
		if n.First() == 1<<32-1 {
			f = -1
		}
		if n.Last() == 1<<32-1 {
			l = -1
		}
		return Node{K: "any", First: f, Last: l}, nil
	case *ast.ArrayIndexNode:
		w := Node{K: "idx"}
		for _, s := range n.Subscripts() {
			b, ok := s.(*ast.BinaryNode)
			if !ok || b.Operator() != ast.BinarySubscript {
				return Node{}, fmt.Errorf("wire: subscript is %T", s)
			}
			f, err := FromChain(b.Left())
			if err != nil {
				return Node{}, err
			}
			sub := Sub{From: f}
			if r := b.Right(); r != nil {
				t, err := FromChain(r)
				if err != nil {
					return Node{}, err
				}
				sub.HasTo, sub.To = true, t
			}
			w.Subs = append(w.Subs, sub)
		}
		return w, nil
	case *ast.RegexNode:
		x, err := FromChain(n.Operand())
		if err != nil {
			return Node{}, err
		}
		pat, fl := regexParts(n)
		return Node{K: "regex", X: x, Pat: Bytes(pat), Flags: fl}, nil
	case *ast.UnaryNode:
		op := n.Operator()
		if op == ast.UnaryFilter {
			p, err := fromNode(n.Operand())
			if err != nil {
				return Node{}, err
			}
			return Node{K: "filter", P: &p}, nil
		}
		if name, ok := dtNames[op]; ok {
			w := Node{K: "dt", Op: name}
			if a := n.Operand(); a != nil {
				an, err := fromNode(a)
				if err != nil {
					return Node{}, err
				}
				w.Arg = &an
			}
			return w, nil
		}
		x, err := FromChain(n.Operand())
		if err != nil {
			return Node{}, err
		}
		return Node{K: "un", Op: unNames[op], X: x}, nil
	case *ast.BinaryNode:
		op := n.Operator()
		if op == ast.BinaryDecimal {
			w := Node{K: "decimal"}
			for i, a := range []ast.Node{n.Left(), n.Right()} {
				if a == nil || isNilNode(a) {
					break
				}
				an, err := fromNode(a)
				if err != nil {
					return Node{}, err
				}
				if an.K != "num" {
					return Node{}, fmt.Errorf("wire: decimal argument %s", an.K)
				}
				w.Np = i + 1
				if i == 0 {
					w.DP = an.V
				} else {
					w.DS = an.V
				}
			}
			return w, nil
		}
		name, ok := binNames[op]
		if !ok {
			return Node{}, fmt.Errorf("wire: binary operator %v", op)
		}
		l, err := FromChain(n.Left())
		if err != nil {
			return Node{}, err
		}
		r, err := FromChain(n.Right())
		if err != nil {
			return Node{}, err
		}
		return Node{K: "bin", Op: name, L: l, R: r}, nil
	}
	return Node{}, fmt.Errorf("wire: node type %T", n)
}

func isNilNode(n ast.Node) bool {
	defer func() { _ = recover() }()
	return fmt.Sprintf("%p", n) == "0x0" || fmt.Sprintf("%v", any(n) == nil) == "true"
}

// regexParts reads pattern and flags of a RegexNode. The node exports no
// accessor for them (and its String() also prints the chain that follows),
// so the unexported fields are read by reflection.
func regexParts(n *ast.RegexNode) (string, Flags) {
	v := reflect.ValueOf(n).Elem()
	pat := v.FieldByName("pattern").String()
	bits := v.FieldByName("flags").Uint()
	return pat, Flags{I: bits&1 != 0, S: bits&2 != 0, M: bits&4 != 0, X: bits&8 != 0, Q: bits&16 != 0}
}

// FromAST converts a parsed path.
func FromAST(a *ast.AST) (Path, error) {
	ch, err := FromChain(a.Root())
	if err != nil {
		return Path{}, err
	}
	return Path{Lax: a.IsLax(), Pred: a.IsPredicate(), Chain: ch}, nil
}
