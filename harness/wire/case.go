package wire

// Var is one jsonpath variable binding.
type Var struct {
	K []int `json:"k"`
	V Value `json:"v"`
}

// Case is one (path, document, options) instance. Silent is not part of
// the case: every case is observed both with and without WithSilent.
type Case struct {
	Path  Path   `json:"path"`
	Doc   Value  `json:"doc"`
	Vars  []Var  `json:"vars"`
	UseTZ bool   `json:"useTZ"`
	Zone  string `json:"zone"` // IANA name or "UTC" or "+HH:MM"
	JNum  bool   `json:"jnum"` // document numbers are json.Number
}

// Err is the classification of a returned error.
type Err struct {
	Cls string // none verbose hard ctx NULL invalid panic timeout other
	V   bool   // errors.Is(err, exec.ErrVerbose)
	X   bool   // errors.Is(err, exec.ErrExecution)
	Can bool   // errors.Is(err, context.Canceled)
	Dl  bool   // errors.Is(err, context.DeadlineExceeded)
}

// Code is the compact wire form "cls:flags" (flags among v x c d).
func (e Err) Code() string {
	s := e.Cls + ":"
	if e.V {
		s += "v"
	}
	if e.X {
		s += "x"
	}
	if e.Can {
		s += "c"
	}
	if e.Dl {
		s += "d"
	}
	return s
}

func (e Err) MarshalJSON() ([]byte, error) { return []byte(`"` + e.Code() + `"`), nil }

func (e *Err) UnmarshalJSON(b []byte) error {
	s := string(b)
	if len(s) >= 2 && s[0] == '"' {
		s = s[1 : len(s)-1]
	}
	*e = Err{}
	for i := 0; i < len(s); i++ {
		if s[i] == ':' {
			e.Cls = s[:i]
			for _, c := range s[i+1:] {
				switch c {
				case 'v':
					e.V = true
				case 'x':
					e.X = true
				case 'c':
					e.Can = true
				case 'd':
					e.Dl = true
				}
			}
			return nil
		}
	}
	e.Cls = s
	return nil
}

// EntryObs is what one entry point returned.
type EntryObs struct {
	Items []Value `json:"i"` // Query: all; First: zero or one
	Val   bool    `json:"b"` // Exists, Match, ExistsOrMatch
	Err   Err     `json:"e"`
	Bad   string  `json:"bad"` // "" or: nonfinite, foreign, unencodable
}

// RunObs is the five entry points under one option set.
type RunObs struct {
	Query  EntryObs `json:"q"`
	First  EntryObs `json:"f"`
	Exists EntryObs `json:"x"`
	Match  EntryObs `json:"m"`
	EOM    EntryObs `json:"o"`
	Polls  int      `json:"p"`   // ctx.Done() calls during Query
	Mut    bool     `json:"mut"` // document or variables changed
}

// ExecRec is one record of the exec family: a case observed verbosely and
// silently.
type ExecRec struct {
	ID   int    `json:"id"`
	Case Case   `json:"c"`
	V    RunObs `json:"v"`
	S    RunObs `json:"s"`
}
