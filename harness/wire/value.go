// Package wire is the JSON wire format shared by the TLA+ specification
// (/verif/spec) and the Go runner. The format obeys the limits of TLC's Json
// module: no JSON null, no floats, every integer below 2^31, JSON strings
// only for ASCII tags; all user text travels as byte arrays and all numbers
// as BigNum limb records (see spec/BigNum.tla, spec/JsonValue.tla).
package wire

import (
	"encoding/json"
	"fmt"
	"math"
	"math/big"
	"sort"
	"strconv"

	"github.com/theory/sqljson/path/types"
)

// BN is the BigNum normal form: (-1)^neg * M * 2^e, M odd (or zero with
// e = 0, neg = false); limbs little endian in base 2^15.
type BN struct {
	Neg bool  `json:"neg"`
	M   []int `json:"m"`
	E   int   `json:"e"`
}

const limbBits = 15

// BNFromBig normalises mant * 2^exp.
func BNFromBig(mant *big.Int, exp int) BN {
	m := new(big.Int).Set(mant)
	neg := m.Sign() < 0
	m.Abs(m)
	if m.Sign() == 0 {
		return BN{M: []int{}}
	}
	tz := int(m.TrailingZeroBits())
	m.Rsh(m, uint(tz))
	exp += tz
	limbs := []int{}
	mask := big.NewInt(1<<limbBits - 1)
	t := new(big.Int)
	for m.Sign() > 0 {
		t.And(m, mask)
		limbs = append(limbs, int(t.Int64()))
		m.Rsh(m, limbBits)
	}
	return BN{Neg: neg, M: limbs, E: exp}
}

func BNFromInt64(i int64) BN { return BNFromBig(big.NewInt(i), 0) }

// BNFromFloat decomposes a finite float64 exactly.
func BNFromFloat(f float64) BN {
	if f == 0 {
		return BN{M: []int{}}
	}
	fr, e := math.Frexp(f) // f = fr * 2^e, 0.5 <= |fr| < 1
	mant := int64(fr * (1 << 53))
	return BNFromBig(big.NewInt(mant), e-53)
}

// Big returns mantissa and exponent.
func (b BN) Big() (*big.Int, int) {
	m := new(big.Int)
	for i := len(b.M) - 1; i >= 0; i-- {
		m.Lsh(m, limbBits)
		m.Add(m, big.NewInt(int64(b.M[i])))
	}
	if b.Neg {
		m.Neg(m)
	}
	return m, b.E
}

// Float64 converts back (exact for values that came from a float64).
func (b BN) Float64() float64 {
	m, e := b.Big()
	f := new(big.Float).SetInt(m)
	f.SetMantExp(f, e)
	r, _ := f.Float64()
	return r
}

// Int64 returns the integer value; ok is false if it is not an int64.
func (b BN) Int64() (int64, bool) {
	m, e := b.Big()
	if e < 0 {
		return 0, false
	}
	m.Lsh(m, uint(e))
	if !m.IsInt64() {
		return 0, false
	}
	return m.Int64(), true
}

// Member is one object member.
type Member struct {
	K []int `json:"k"`
	V Value `json:"v"`
}

// Value is one SQL/JSON item.
type Value struct {
	T   string   // null bool num str arr obj dt
	B   bool     // bool
	Rep string   // num: i f j
	N   BN       // num
	Tx  []int    // num rep j: text
	Ok  bool     // num rep j
	Ji  bool     // num rep j
	S   []int    // str
	A   []Value  // arr
	O   []Member // obj
	DT  *DTValue // dt
}

// DTValue is a datetime item: ty date|time|timetz|ts|tstz, fields as
// time.Time reports them, and the text String() printed.
type DTValue struct {
	Ty  string `json:"ty"`
	Y   int    `json:"y"`
	Mo  int    `json:"mo"`
	D   int    `json:"d"`
	H   int    `json:"h"`
	Mi  int    `json:"mi"`
	Sec int    `json:"sec"`
	Ns  int    `json:"ns"` // nanoseconds < 10^9 < 2^31
	Off int    `json:"off"`
	Txt []int  `json:"txt"`
}

func ints(b []byte) []int {
	r := make([]int, len(b))
	for i, c := range b {
		r[i] = int(c)
	}
	return r
}

func Bytes(s string) []int { return ints([]byte(s)) }

func Str(b []int) string {
	r := make([]byte, len(b))
	for i, c := range b {
		r[i] = byte(c)
	}
	return string(r)
}

func nz(x []int) []int {
	if x == nil {
		return []int{}
	}
	return x
}

func (b BN) MarshalJSON() ([]byte, error) {
	return json.Marshal(struct {
		Neg bool  `json:"neg"`
		M   []int `json:"m"`
		E   int   `json:"e"`
	}{b.Neg, nz(b.M), b.E})
}

func (v Value) MarshalJSON() ([]byte, error) {
	switch v.T {
	case "null", "anyid":
		return json.Marshal(map[string]any{"t": v.T})
	case "bool":
		return json.Marshal(map[string]any{"t": "bool", "b": v.B})
	case "num":
		if v.Rep == "j" {
			return json.Marshal(map[string]any{"t": "num", "rep": "j", "n": v.N, "tx": nz(v.Tx), "ok": v.Ok, "ji": v.Ji})
		}
		return json.Marshal(map[string]any{"t": "num", "rep": v.Rep, "n": v.N})
	case "str":
		return json.Marshal(map[string]any{"t": "str", "s": nz(v.S)})
	case "arr":
		a := v.A
		if a == nil {
			a = []Value{}
		}
		return json.Marshal(map[string]any{"t": "arr", "a": a})
	case "obj":
		o := v.O
		if o == nil {
			o = []Member{}
		}
		return json.Marshal(map[string]any{"t": "obj", "o": o})
	case "dt":
		d := *v.DT
		return json.Marshal(map[string]any{"t": "dt", "ty": d.Ty, "y": d.Y, "mo": d.Mo, "d": d.D,
			"h": d.H, "mi": d.Mi, "sec": d.Sec, "ns": d.Ns, "off": d.Off, "txt": nz(d.Txt)})
	}
	return nil, fmt.Errorf("wire: bad value tag %q", v.T)
}

func (v *Value) UnmarshalJSON(data []byte) error {
	var raw struct {
		T   string   `json:"t"`
		B   bool     `json:"b"`
		Rep string   `json:"rep"`
		N   BN       `json:"n"`
		Tx  []int    `json:"tx"`
		Ok  bool     `json:"ok"`
		Ji  bool     `json:"ji"`
		S   []int    `json:"s"`
		A   []Value  `json:"a"`
		O   []Member `json:"o"`
		DTValue
	}
	if err := json.Unmarshal(data, &raw); err != nil {
		return err
	}
	*v = Value{T: raw.T, B: raw.B, Rep: raw.Rep, N: raw.N, Tx: raw.Tx, Ok: raw.Ok, Ji: raw.Ji, S: raw.S, A: raw.A, O: raw.O}
	if raw.T == "dt" {
		d := raw.DTValue
		v.DT = &d
	}
	return nil
}

// Constructors.
func Null() Value          { return Value{T: "null"} }
func Bool(b bool) Value    { return Value{T: "bool", B: b} }
func StrV(s string) Value  { return Value{T: "str", S: Bytes(s)} }
func Arr(a ...Value) Value { return Value{T: "arr", A: a} }
func Float(f float64) Value {
	return Value{T: "num", Rep: "f", N: BNFromFloat(f)}
}
func Int(i int64) Value { return Value{T: "num", Rep: "i", N: BNFromInt64(i)} }

// JNum builds the json.Number item for a JSON number text; the converted
// value is what strconv assigns it (trusted base).
func JNum(text string) Value {
	v := Value{T: "num", Rep: "j", Tx: Bytes(text)}
	jn := json.Number(text)
	if i, err := jn.Int64(); err == nil {
		v.Ok, v.Ji, v.N = true, true, BNFromInt64(i)
	} else if f, err := jn.Float64(); err == nil && !math.IsInf(f, 0) && !math.IsNaN(f) {
		v.Ok, v.N = true, BNFromFloat(f)
	} else {
		v.N = BN{M: []int{}}
	}
	return v
}

func Obj(kv ...any) Value {
	o := []Member{}
	for i := 0; i+1 < len(kv); i += 2 {
		o = append(o, Member{K: Bytes(kv[i].(string)), V: kv[i+1].(Value)})
	}
	sortMembers(o)
	return Value{T: "obj", O: o}
}

func sortMembers(o []Member) {
	sort.Slice(o, func(i, j int) bool { return Str(o[i].K) < Str(o[j].K) })
}

// ToGo builds the Go value the library is queried with. With jnum set,
// float64 numbers are spelled as json.Number instead.
func (v Value) ToGo(jnum bool) any {
	switch v.T {
	case "null":
		return nil
	case "bool":
		return v.B
	case "num":
		switch v.Rep {
		case "j":
			return json.Number(Str(v.Tx))
		case "i":
			i, _ := v.N.Int64()
			if jnum {
				return json.Number(strconv.FormatInt(i, 10))
			}
			return i
		default:
			f := v.N.Float64()
			if jnum {
				return json.Number(strconv.FormatFloat(f, 'g', -1, 64))
			}
			return f
		}
	case "str":
		return Str(v.S)
	case "arr":
		a := make([]any, len(v.A))
		for i, x := range v.A {
			a[i] = x.ToGo(jnum)
		}
		return a
	case "obj":
		m := make(map[string]any, len(v.O))
		for _, kv := range v.O {
			m[Str(kv.K)] = kv.V.ToGo(jnum)
		}
		return m
	}
	panic("wire: ToGo of " + v.T)
}

// AsJNum rewrites every float64 number of a document as the json.Number the
// decoder would have produced.
func (v Value) AsJNum() Value {
	switch v.T {
	case "num":
		if v.Rep == "f" {
			return JNum(strconv.FormatFloat(v.N.Float64(), 'g', -1, 64))
		}
	case "arr":
		a := make([]Value, len(v.A))
		for i, x := range v.A {
			a[i] = x.AsJNum()
		}
		return Value{T: "arr", A: a}
	case "obj":
		o := make([]Member, len(v.O))
		for i, kv := range v.O {
			o[i] = Member{K: kv.K, V: kv.V.AsJNum()}
		}
		return Value{T: "obj", O: o}
	}
	return v
}

// FromGo encodes a value the library returned.
func FromGo(x any) (Value, error) {
	switch x := x.(type) {
	case nil:
		return Null(), nil
	case bool:
		return Bool(x), nil
	case float64:
		if math.IsInf(x, 0) || math.IsNaN(x) {
			return Value{}, fmt.Errorf("nonfinite")
		}
		return Float(x), nil
	case int64:
		return Int(x), nil
	case json.Number:
		return JNum(string(x)), nil
	case string:
		return StrV(x), nil
	case []any:
		a := make([]Value, len(x))
		for i, e := range x {
			v, err := FromGo(e)
			if err != nil {
				return Value{}, err
			}
			a[i] = v
		}
		return Value{T: "arr", A: a}, nil
	case map[string]any:
		o := make([]Member, 0, len(x))
		for k, e := range x {
			v, err := FromGo(e)
			if err != nil {
				return Value{}, err
			}
			o = append(o, Member{K: Bytes(k), V: v})
		}
		sortMembers(o)
		return Value{T: "obj", O: o}, nil
	case types.DateTime:
		return FromDateTime(x), nil
	}
	return Value{}, fmt.Errorf("wire: unsupported Go type %T", x)
}

// FromDateTime encodes one of the five datetime types.
func FromDateTime(x types.DateTime) Value {
	t := x.GoTime()
	_, off := t.Zone()
	ty := ""
	switch x.(type) {
	case *types.Date:
		ty = "date"
	case *types.Time:
		ty = "time"
	case *types.TimeTZ:
		ty = "timetz"
	case *types.Timestamp:
		ty = "ts"
	case *types.TimestampTZ:
		ty = "tstz"
	}
	return Value{T: "dt", DT: &DTValue{Ty: ty, Y: t.Year(), Mo: int(t.Month()), D: t.Day(),
		H: t.Hour(), Mi: t.Minute(), Sec: t.Second(), Ns: t.Nanosecond(), Off: off, Txt: Bytes(x.String())}}
}

// Show renders a value as JSON-ish text for humans (samples, replay files).
func (v Value) Show() string {
	switch v.T {
	case "null":
		return "null"
	case "anyid":
		return "<id>"
	case "bool":
		return strconv.FormatBool(v.B)
	case "num":
		switch v.Rep {
		case "j":
			return "j" + Str(v.Tx)
		case "i":
			m, e := v.N.Big()
			return m.Lsh(m, uint(e)).String()
		default:
			return strconv.FormatFloat(v.N.Float64(), 'g', -1, 64) + "f"
		}
	case "str":
		return strconv.Quote(Str(v.S))
	case "arr":
		s := "["
		for i, x := range v.A {
			if i > 0 {
				s += ","
			}
			s += x.Show()
		}
		return s + "]"
	case "obj":
		s := "{"
		for i, kv := range v.O {
			if i > 0 {
				s += ","
			}
			s += strconv.Quote(Str(kv.K)) + ":" + kv.V.Show()
		}
		return s + "}"
	case "dt":
		return v.DT.Ty + "(" + Str(v.DT.Txt) + ")"
	}
	return "?" + v.T
}
