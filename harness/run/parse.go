package run

import (
	"context"
	"errors"
	"reflect"
	"regexp"
	"strings"

	"github.com/theory/sqljson/path"
	"github.com/theory/sqljson/path/ast"
	"github.com/theory/sqljson/path/parser"

	"verif/harness/wire"
)

// ParseObs is what the real parser entry points did with one input.
type ParseObs struct {
	ID     int       `json:"id"`
	B      []int     `json:"b"`
	St     string    `json:"st"`     // ok err panic timeout
	NoPath bool      `json:"nopath"` // accepted, but the tree cannot travel (a .** level >= 2^31)
	Path   wire.Path `json:"path"`
	EPath  bool      `json:"epath"`  // errors.Is(err, path.ErrPath)
	EParse bool      `json:"eparse"` // errors.Is(err, parser.ErrParse)
	Must   string    `json:"must"`   // MustParse: ok panic
	Scan   string    `json:"scan"`   // (*Path).Scan(string): ok err-scan err-other panic
	ScanB  string    `json:"scanb"`  // Scan([]byte)
	Text   string    `json:"text"`   // UnmarshalText
	Bin    string    `json:"bin"`    // UnmarshalBinary
	Pred   bool      `json:"pred"`   // IsPredicate
	PgOp   string    `json:"pgop"`   // PgIndexOperator
	Rx     string    `json:"rx"`     // every RegexNode.Regexp(): ok panic none
	HasW   bool      `json:"hasw"`   // a wanted tree is attached (spelling of a known path)
	Want   wire.Path `json:"want"`
	Kind   string    `json:"kind"` // "input" or "print" (the text was printed by String())
	// print records: the round trips of the property, observed on the real code
	Fix   string `json:"fix"`   // Parse(text).String() == text: yes no n/a
	MText string `json:"mtext"` // UnmarshalText(MarshalText(p)) prints the same text: yes no n/a
	MBin  string `json:"mbin"`  // ... MarshalBinary / UnmarshalBinary
	MVal  string `json:"mval"`  // ... Value / Scan
	Probe string `json:"probe"` // the re-parsed path returns the same results on the probe documents: yes no n/a
}

func unmarshalOutcome(f func() error) (out string) {
	defer func() {
		if r := recover(); r != nil {
			out = "panic"
		}
	}()
	err := f()
	switch {
	case err == nil:
		return "ok"
	case errors.Is(err, path.ErrScan) && errors.Is(err, parser.ErrParse):
		return "err-scan"
	}
	return "err-other"
}

func compileRegexes(n ast.Node) (out string) {
	out = "none"
	defer func() {
		if r := recover(); r != nil {
			out = "panic"
		}
	}()
	var walk func(n ast.Node)
	walk = func(n ast.Node) {
		for ; n != nil; n = n.Next() {
			switch x := n.(type) {
			case *ast.RegexNode:
				var re *regexp.Regexp = x.Regexp()
				_ = re
				out = "ok"
				walk(x.Operand())
			case *ast.BinaryNode:
				if l := x.Left(); l != nil {
					walk(l)
				}
				if r := x.Right(); r != nil {
					walk(r)
				}
			case *ast.UnaryNode:
				if o := x.Operand(); o != nil {
					walk(o)
				}
			case *ast.ArrayIndexNode:
				for _, s := range x.Subscripts() {
					walk(s)
				}
			}
		}
	}
	walk(n)
	return out
}

func tooBig(n []wire.Node) bool {
	for _, x := range n {
		if x.K == "any" && (x.First >= 1<<31 || x.Last >= 1<<31) {
			return true
		}
		if tooBig(x.L) || tooBig(x.R) || tooBig(x.X) {
			return true
		}
		for _, s := range x.Subs {
			if tooBig(s.From) || tooBig(s.To) {
				return true
			}
		}
		if x.P != nil && tooBig([]wire.Node{*x.P}) {
			return true
		}
	}
	return false
}

var emptyPath = wire.Path{Chain: []wire.Node{}}

// ObserveParse runs every parser entry point on one input.
func ObserveParse(id int, text string) ParseObs {
	o := ParseObs{ID: id, B: wire.Bytes(text), Path: emptyPath, Want: emptyPath, Rx: "none", Kind: "input",
		Fix: "n/a", MText: "n/a", MBin: "n/a", MVal: "n/a", Probe: "n/a"}
	var p *path.Path
	cls := guarded(func() {
		var err error
		p, err = path.Parse(text)
		switch {
		case err != nil && p != nil:
			o.St = "both"
		case err == nil && p == nil:
			o.St = "neither"
		case err != nil:
			o.St = "err"
			o.EPath, o.EParse = errors.Is(err, path.ErrPath), errors.Is(err, parser.ErrParse)
		default:
			o.St = "ok"
		}
	})
	if cls != "" {
		o.St = cls
	}
	if o.St == "ok" {
		func() {
			defer func() {
				if r := recover(); r != nil {
					o.NoPath = true
				}
			}()
			w, err := wire.FromAST(p.AST)
			if err != nil || tooBig(w.Chain) {
				o.NoPath = true
				return
			}
			o.Path = w
			o.Pred, o.PgOp = p.IsPredicate(), p.PgIndexOperator()
			o.Rx = compileRegexes(p.Root())
		}()
	}
	o.Must = "ok"
	if guarded(func() { path.MustParse(text) }) != "" {
		o.Must = "panic"
	}
	o.Scan = unmarshalOutcome(func() error { return new(path.Path).Scan(text) })
	o.ScanB = unmarshalOutcome(func() error { return new(path.Path).Scan([]byte(text)) })
	o.Text = unmarshalOutcome(func() error { return new(path.Path).UnmarshalText([]byte(text)) })
	o.Bin = unmarshalOutcome(func() error { return new(path.Path).UnmarshalBinary([]byte(text)) })
	return o
}

func yn(b bool) string {
	if b {
		return "yes"
	}
	return "no"
}

var probeDocs = []any{
	nil, true, float64(1), float64(2.5), "a", "ab", []any{}, map[string]any{},
	[]any{float64(1), float64(2), "a", nil, []any{float64(3)}},
	map[string]any{"a": []any{float64(1), float64(2), map[string]any{"a": "x"}}},
	[]any{map[string]any{"a": float64(1)}, map[string]any{"a": "ab"}, map[string]any{"b": float64(2)}},
}

func sameResults(p, q *path.Path) bool {
	ctx := context.Background()
	// .keyvalue() generates three-member objects whose member order and
	// address-derived ids may legitimately differ between two executions
	loose := strings.Contains(p.String(), ".keyvalue()")
	for _, d := range probeDocs {
		if !mapFree(d) {
			continue // member order could make two correct runs differ
		}
		a, ea := p.Query(ctx, d)
		b, eb := q.Query(ctx, d)
		if (ea == nil) != (eb == nil) {
			return false
		}
		if ea == nil && len(a) != len(b) {
			return false
		}
		if ea == nil && len(a) > 0 && !loose && !reflect.DeepEqual(a, b) {
			return false
		}
	}
	return true
}

// mapFree: documents without multi-member objects give deterministic orders.
func mapFree(d any) bool {
	switch x := d.(type) {
	case []any:
		for _, e := range x {
			if !mapFree(e) {
				return false
			}
		}
	case map[string]any:
		if len(x) > 1 {
			return false
		}
		for _, e := range x {
			if !mapFree(e) {
				return false
			}
		}
	}
	return true
}

// ObservePrint prints a path built from the constructors and observes every
// round trip of its text.
func ObservePrint(id int, want wire.Path) (o ParseObs, err error) {
	a, err := want.AST()
	if err != nil {
		return o, err
	}
	p := path.New(a)
	text := ""
	if cls := guarded(func() { text = p.String() }); cls != "" {
		o = ObserveParse(id, "")
		o.St, o.Kind, o.HasW, o.Want = "panic", "print", true, want
		return o, nil
	}
	o = ObserveParse(id, text)
	o.Kind, o.HasW, o.Want = "print", true, want
	if o.St != "ok" {
		return o, nil
	}
	guarded(func() {
		q, perr := path.Parse(text)
		if perr != nil {
			return
		}
		o.Fix = yn(q.String() == text)
		o.Probe = yn(sameResults(p, q))
		var t path.Path
		if b, e := p.MarshalText(); e == nil && t.UnmarshalText(b) == nil {
			o.MText = yn(t.String() == text)
		} else {
			o.MText = "no"
		}
		var u path.Path
		if b, e := p.MarshalBinary(); e == nil && u.UnmarshalBinary(b) == nil {
			o.MBin = yn(u.String() == text)
		} else {
			o.MBin = "no"
		}
		var w path.Path
		if v, e := p.Value(); e == nil && w.Scan(v) == nil && w.AST != nil {
			o.MVal = yn(w.String() == text)
		} else {
			o.MVal = "no"
		}
	})
	return o, nil
}
