// Package run executes the real entry points of theory/sqljson and records
// what they did. It decides nothing: every verdict is TLC's.
package run

import (
	"context"
	"errors"
	"fmt"
	"reflect"
	"time"

	"github.com/theory/sqljson/path"
	"github.com/theory/sqljson/path/exec"
	"github.com/theory/sqljson/path/types"

	"verif/harness/wire"
)

// CountingCtx counts polls of Done() and reports the context done from the
// FlipAt-th poll on (0 = never).
type CountingCtx struct {
	context.Context
	Polls  int
	FlipAt int
	Cause  error
	open   chan struct{}
	cancel func() // cancels the real parent with a custom cause (NewCountingCtxWithCause)
}

var closedCh = func() chan struct{} { c := make(chan struct{}); close(c); return c }()

func NewCountingCtx(parent context.Context, flipAt int, cause error) *CountingCtx {
	return &CountingCtx{Context: parent, FlipAt: flipAt, Cause: cause, open: make(chan struct{})}
}

// NewCountingCtxWithCause is like NewCountingCtx, but the context is a child of
// a real context.WithCancelCause parent that is cancelled with a custom cause
// at the flip: ctx.Err() is context.Canceled, context.Cause(ctx) is the custom
// cause. The library must report the context's error (Err), not the cause.
func NewCountingCtxWithCause(parent context.Context, flipAt int) *CountingCtx {
	p, cancel := context.WithCancelCause(parent)
	c := &CountingCtx{Context: p, FlipAt: flipAt, Cause: context.Canceled, open: make(chan struct{})}
	c.cancel = func() { cancel(errCustomCause) }
	return c
}

var errCustomCause = errors.New("the caller's own reason for cancelling")

func (c *CountingCtx) Done() <-chan struct{} {
	c.Polls++
	if c.FlipAt > 0 && c.Polls >= c.FlipAt {
		if c.cancel != nil {
			c.cancel()
		}
		return closedCh
	}
	return c.open
}

func (c *CountingCtx) Err() error {
	if c.FlipAt > 0 && c.Polls >= c.FlipAt {
		return c.Cause
	}
	return nil
}

// Classify maps an error to its class and errors.Is flags.
func Classify(err error) wire.Err {
	if err == nil {
		return wire.Err{Cls: "none"}
	}
	e := wire.Err{
		V:   errors.Is(err, exec.ErrVerbose),
		X:   errors.Is(err, exec.ErrExecution),
		Can: errors.Is(err, context.Canceled),
		Dl:  errors.Is(err, context.DeadlineExceeded),
	}
	switch {
	case err == exec.NULL: //nolint:errorlint
		e.Cls = "NULL"
	case errors.Is(err, exec.ErrInvalid):
		e.Cls = "invalid"
	case e.Can || e.Dl:
		e.Cls = "ctx"
	case e.V:
		e.Cls = "verbose"
	case e.X:
		e.Cls = "hard"
	default:
		e.Cls = "other"
	}
	return e
}

// Zone resolves a zone name of the wire format.
func Zone(name string) (*time.Location, error) {
	if name == "" || name == "UTC" {
		return time.UTC, nil
	}
	if name[0] == '+' || name[0] == '-' {
		var h, m int
		if _, err := fmt.Sscanf(name[1:], "%d:%d", &h, &m); err != nil {
			return nil, err
		}
		off := h*3600 + m*60
		if name[0] == '-' {
			off = -off
		}
		return time.FixedZone("", off), nil
	}
	return time.LoadLocation(name)
}

// baseContext carries loc as the time zone, set on top of a parent context
// that already carries ANOTHER zone: the innermost ContextWithTZ must win
// (as with every context value), whichever zone the ancestors carry.
func baseContext(loc *time.Location) context.Context {
	decoy := time.FixedZone("", 9*3600)
	if loc == time.UTC {
		decoy, _ = time.LoadLocation("America/New_York")
		if decoy == nil {
			decoy = time.FixedZone("", -4*3600)
		}
	}
	return types.ContextWithTZ(types.ContextWithTZ(context.Background(), decoy), loc)
}

// BaseContext exposes baseContext to the drivers.
func BaseContext(loc *time.Location) context.Context { return baseContext(loc) }

// Prepared is a case compiled for execution.
type Prepared struct {
	Path *path.Path
	Doc  any
	Vars exec.Vars
	Opts []exec.Option
	Base context.Context

	useTZ bool
}

// Prepare builds the real path (through the exported ast constructors), the
// Go document and the variables. The same document and variables serve the
// verbose and the silent run, so that address-derived keyvalue ids agree.
func Prepare(c wire.Case) (*Prepared, error) {
	a, err := c.Path.AST()
	if err != nil {
		return nil, err
	}
	p := &Prepared{Path: path.New(a), Doc: c.Doc.ToGo(c.JNum)}
	if len(c.Vars) > 0 {
		p.Vars = exec.Vars{}
		for _, v := range c.Vars {
			p.Vars[wire.Str(v.K)] = v.V.ToGo(c.JNum)
		}
	}
	p.useTZ = c.UseTZ
	loc, err := Zone(c.Zone)
	if err != nil {
		return nil, err
	}
	p.Base = baseContext(loc)
	p.SetSilent(false)
	return p, nil
}

// SetSilent selects the option set of the following calls.
func (p *Prepared) SetSilent(silent bool) {
	p.Opts = nil
	if p.Vars != nil {
		p.Opts = append(p.Opts, exec.WithVars(p.Vars))
	}
	if silent {
		p.Opts = append(p.Opts, exec.WithSilent())
	}
	if p.useTZ {
		p.Opts = append(p.Opts, exec.WithTZ())
	}
}

// containers collects the identities of all arrays and objects in x.
func containers(x any, set map[uintptr]bool) {
	switch x := x.(type) {
	case []any:
		set[reflect.ValueOf(x).Pointer()] = true
		for _, e := range x {
			containers(e, set)
		}
	case map[string]any:
		set[reflect.ValueOf(x).Pointer()] = true
		for _, e := range x {
			containers(e, set)
		}
	case exec.Vars:
		for _, e := range x {
			containers(e, set)
		}
	}
}

func isKVTriple(m map[string]any) bool {
	if len(m) != 3 {
		return false
	}
	_, a := m["key"]
	_, b := m["value"]
	_, c := m["id"]
	return a && b && c
}

func deepCopy(x any) any {
	switch x := x.(type) {
	case nil:
		return nil
	case []any:
		r := make([]any, len(x))
		for i, e := range x {
			r[i] = deepCopy(e)
		}
		return r
	case map[string]any:
		r := make(map[string]any, len(x))
		for k, e := range x {
			r[k] = deepCopy(e)
		}
		return r
	case exec.Vars:
		if x == nil {
			return x
		}
		r := make(exec.Vars, len(x))
		for k, e := range x {
			r[k] = deepCopy(e)
		}
		return r
	}
	return x
}

// encodeItems encodes returned items and checks finiteness and provenance.
func encodeItems(items []any, known map[uintptr]bool) ([]wire.Value, string) {
	out := make([]wire.Value, 0, len(items))
	bad := ""
	for _, it := range items {
		v, err := wire.FromGo(it)
		if err != nil {
			if err.Error() == "nonfinite" {
				bad = "nonfinite"
			} else {
				bad = "unencodable"
			}
			continue
		}
		switch c := it.(type) {
		case []any:
			if len(c) > 0 && !known[reflect.ValueOf(c).Pointer()] {
				bad = "foreign"
			}
		case map[string]any:
			if len(c) > 0 && !known[reflect.ValueOf(c).Pointer()] && !isKVTriple(c) {
				bad = "foreign"
			}
		}
		out = append(out, v)
	}
	return out, bad
}

const callDeadline = 5 * time.Second

// guarded runs f with panic capture and a wall-clock deadline.
func guarded(f func()) (cls string) {
	done := make(chan string, 1)
	go func() {
		defer func() {
			if r := recover(); r != nil {
				done <- "panic"
				return
			}
			done <- ""
		}()
		f()
	}()
	select {
	case c := <-done:
		return c
	case <-time.After(callDeadline):
		return "timeout"
	}
}

// Call names one entry point.
type Call int

const (
	Query Call = iota
	First
	Exists
	Match
	EOM
)

// One executes one entry point under ctx and records the outcome.
func (p *Prepared) One(ctx context.Context, call Call, known map[uintptr]bool) wire.EntryObs {
	var o wire.EntryObs
	o.Items = []wire.Value{}
	cls := guarded(func() {
		switch call {
		case Query:
			items, err := p.Path.Query(ctx, p.Doc, p.Opts...)
			o.Err = Classify(err)
			o.Items, o.Bad = encodeItems(items, known)
			if err != nil && items != nil {
				o.Bad = "items-with-error"
			}
		case First:
			item, err := p.Path.First(ctx, p.Doc, p.Opts...)
			o.Err = Classify(err)
			// First returns nil both for "no item" and for a JSON null item;
			// Val tells them apart only through Query, so record the item when
			// there is no error and let the law compare with Query.
			if err == nil {
				o.Items, o.Bad = encodeItems([]any{item}, known)
			}
		case Exists:
			v, err := p.Path.Exists(ctx, p.Doc, p.Opts...)
			o.Val, o.Err = v, Classify(err)
		case Match:
			v, err := p.Path.Match(ctx, p.Doc, p.Opts...)
			o.Val, o.Err = v, Classify(err)
		case EOM:
			v, err := p.Path.ExistsOrMatch(ctx, p.Doc, p.Opts...)
			o.Val, o.Err = v, Classify(err)
		}
	})
	if cls != "" {
		o = wire.EntryObs{Items: []wire.Value{}, Err: wire.Err{Cls: cls}}
	}
	return o
}

// Observe runs the five entry points under the current option set.
func (p *Prepared) Observe() wire.RunObs {
	known := map[uintptr]bool{}
	containers(p.Doc, known)
	containers(p.Vars, known)
	docCopy, varsCopy := deepCopy(p.Doc), deepCopy(p.Vars)

	var r wire.RunObs
	cc := NewCountingCtx(p.Base, 0, nil)
	r.Query = p.One(cc, Query, known)
	r.Polls = cc.Polls
	r.First = p.One(p.Base, First, known)
	r.Exists = p.One(p.Base, Exists, known)
	r.Match = p.One(p.Base, Match, known)
	r.EOM = p.One(p.Base, EOM, known)
	r.Mut = !reflect.DeepEqual(docCopy, p.Doc) || !reflect.DeepEqual(varsCopy, p.Vars)
	return r
}

// ObserveCase produces the exec-family record of a case.
func ObserveCase(id int, c wire.Case) (wire.ExecRec, error) {
	p, err := Prepare(c)
	if err != nil {
		return wire.ExecRec{}, err
	}
	v := p.Observe()
	p.SetSilent(true)
	s := p.Observe()
	return wire.ExecRec{ID: id, Case: c, V: v, S: s}, nil
}

// Assemble builds a Prepared from parts that may be shared between calls (the
// C19 driver shares Path objects, documents and variable maps on purpose).
func Assemble(p *path.Path, doc any, vars exec.Vars, useTZ bool, zone string, silent bool) (*Prepared, error) {
	loc, err := Zone(zone)
	if err != nil {
		return nil, err
	}
	pr := &Prepared{Path: p, Doc: doc, Vars: vars, useTZ: useTZ, Base: baseContext(loc)}
	pr.SetSilent(silent)
	return pr, nil
}

// Containers exposes the identity set of the containers in x.
func Containers(x any, set map[uintptr]bool) { containers(x, set) }

// DeepCopy exposes the deep copy used for purity checks.
func DeepCopy(x any) any { return deepCopy(x) }
