// objdrv is the C19 driver: it runs calls on SHARED Path objects, documents
// and variable maps from many goroutines (build it with -race) and records
// the history for spec/Trace_Object.tla.  It decides nothing.
//
//	objdrv <pool.json> <outdir>
package main

import (
	"encoding/json"
	"fmt"
	"math/rand"
	"os"
	"path/filepath"
	"reflect"
	"runtime"
	"sort"
	"sync"
	"sync/atomic"

	"github.com/theory/sqljson/path"
	"github.com/theory/sqljson/path/exec"

	"verif/harness/run"
	"verif/harness/wire"
)

type PathRow struct {
	Pred  bool        `json:"pred"`
	Chain []wire.Node `json:"chain"`
}
type CaseRef struct {
	PI, DI, VI int
	Lax        bool
	UseTZ      bool
	Zone       string
}
type Pool struct {
	Paths      []PathRow    `json:"paths"`
	Docs       []wire.Value `json:"docs"`
	Vars       [][]wire.Var `json:"vars"`
	Cases      []CaseRef    `json:"cases"`
	Seed       int64        `json:"seed"`
	Goroutines int          `json:"goroutines"`
	PerG       int          `json:"perG"`
	History    int          `json:"history"`
	Parsers    int          `json:"parsers"`
}

type CallRow struct {
	PI     int    `json:"pi"`
	DI     int    `json:"di"`
	VI     int    `json:"vi"`
	Lax    bool   `json:"lax"`
	Silent bool   `json:"silent"`
	UseTZ  bool   `json:"useTZ"`
	Zone   string `json:"zone"`
	Entry  string `json:"entry"`
	Solo   int    `json:"solo"`
}
type OutRow struct {
	ID   int           `json:"id"`
	Call int           `json:"call"`
	O    wire.EntryObs `json:"o"`
	Txt  []int         `json:"txt"`
}
type Event struct {
	Seq  int64  `json:"-"`
	G    int    `json:"g"`
	Ev   string `json:"ev"`
	Call int    `json:"call"`
	Out  int    `json:"out"`
}

var entryNames = []string{"query", "first", "exists", "match", "eom", "string", "parse", "query2v", "realias"}

// realiasTexts are parsed into a second handle on a shared Path's AST.
var realiasTexts = []string{`strict $."zz"[*]?(@ > 2)`, `$."zz"`, `(1 == 2)`}

type driver struct {
	pool   Pool
	docs   []any
	vars   []exec.Vars
	known  map[uintptr]bool
	shared map[[2]int]*path.Path // (PI, lax) -> the shared object
	calls  []CallRow
	caseOf []int // call -> case index

	mu    sync.Mutex
	outs  []OutRow
	index map[string]int
	seq   atomic.Int64
}

func die(format string, a ...any) {
	fmt.Fprintf(os.Stderr, "objdrv: "+format+"\n", a...)
	os.Exit(2)
}

func (d *driver) newPath(c CaseRef) *path.Path {
	row := d.pool.Paths[c.PI-1]
	a, err := wire.Path{Lax: c.Lax, Pred: row.Pred, Chain: row.Chain}.AST()
	if err != nil {
		die("path %d: %v", c.PI, err)
	}
	return path.New(a)
}

// do executes call k on path object p and returns the interned outcome id.
func (d *driver) do(k int, p *path.Path) int {
	c := d.pool.Cases[d.caseOf[k]]
	call := d.calls[k]
	var o wire.EntryObs
	txt := []int{}
	switch call.Entry {
	case "string":
		o = wire.EntryObs{Items: []wire.Value{}, Err: wire.Err{Cls: "none"}}
		func() {
			defer func() {
				if recover() != nil {
					o.Err = wire.Err{Cls: "panic"}
				}
			}()
			txt = wire.Bytes(p.String())
		}()
	case "parse":
		o = wire.EntryObs{Items: []wire.Value{}, Err: wire.Err{Cls: "none"}}
		func() {
			defer func() {
				if recover() != nil {
					o.Err = wire.Err{Cls: "panic"}
				}
			}()
			q, err := path.Parse(p.String())
			if err != nil {
				o.Err = wire.Err{Cls: "invalid"}
				return
			}
			txt = wire.Bytes(q.String())
			// parsing the printed text must give a path that prints the same text,
			// whatever was parsed before (recorded, judged by the trace specification)
			if q.String() != p.String() {
				o.Bad = "reparse-prints-another-text"
			}
		}()
	case "realias":
		// A second handle on the same parsed AST is made to hold another path
		// (UnmarshalText / Scan / UnmarshalBinary); the shared Path must not
		// notice. The outcome is the text the second handle prints afterwards.
		o = wire.EntryObs{Items: []wire.Value{}, Err: wire.Err{Cls: "none"}}
		func() {
			defer func() {
				if recover() != nil {
					o.Err = wire.Err{Cls: "panic"}
				}
			}()
			alias := path.New(p.AST)
			text := realiasTexts[k%len(realiasTexts)]
			var err error
			switch k % 3 {
			case 0:
				err = alias.UnmarshalText([]byte(text))
			case 1:
				err = alias.Scan(text)
			default:
				err = alias.UnmarshalBinary([]byte(text))
			}
			if err != nil {
				o.Err = wire.Err{Cls: "invalid"}
				return
			}
			txt = wire.Bytes(alias.String())
		}()
	default:
		var vars exec.Vars
		if c.VI > 0 {
			vars = d.vars[c.VI-1]
		}
		pr, err := run.Assemble(p, d.docs[c.DI-1], vars, c.UseTZ, c.Zone, call.Silent)
		if err != nil {
			die("%v", err)
		}
		e := 0
		for i, n := range entryNames {
			if n == call.Entry {
				e = i
			}
		}
		if call.Entry == "query2v" {
			// Query with two WithVars options: the last one wins; it is a copy of
			// the shared map with one more variable, so the call means the same,
			// and the shared map (the first option) must stay as it is
			e = 0
			extra := exec.Vars{"zz": float64(1)}
			for name, v := range vars {
				extra[name] = v
			}
			pr.Opts = append(pr.Opts, exec.WithVars(extra))
		}
		o = pr.One(pr.Base, run.Call(e), d.known)
	}
	row := OutRow{Call: k + 1, O: o, Txt: txt}
	key, _ := json.Marshal(row)
	d.mu.Lock()
	defer d.mu.Unlock()
	if id, ok := d.index[string(key)]; ok {
		return id
	}
	row.ID = len(d.outs) + 1
	d.outs = append(d.outs, row)
	d.index[string(key)] = row.ID
	return row.ID
}

// sentinel fills the spare capacity of every array of the shared documents:
// encoding/json leaves such capacity, and code that appends to a slice it took
// from the document would write there.
type sentinel struct{}

const spare = 3

func withSpare(x any) any {
	switch x := x.(type) {
	case []any:
		out := make([]any, len(x), len(x)+spare)
		for i, e := range x {
			out[i] = withSpare(e)
		}
		full := out[:cap(out)]
		for i := len(x); i < len(full); i++ {
			full[i] = sentinel{}
		}
		return out
	case map[string]any:
		out := make(map[string]any, len(x))
		for k, e := range x {
			out[k] = withSpare(e)
		}
		return out
	}
	return x
}

// spareIntact reports whether no array's spare capacity was written.
func spareIntact(x any) bool {
	switch x := x.(type) {
	case []any:
		if cap(x) != len(x)+spare {
			return false
		}
		full := x[:cap(x)]
		for i := len(x); i < len(full); i++ {
			if _, ok := full[i].(sentinel); !ok {
				return false
			}
		}
		for _, e := range x {
			if !spareIntact(e) {
				return false
			}
		}
	case map[string]any:
		for _, e := range x {
			if !spareIntact(e) {
				return false
			}
		}
	}
	return true
}

func writeNDJSON[T any](file string, rows []T) {
	f, err := os.Create(file)
	if err != nil {
		die("%v", err)
	}
	defer f.Close()
	enc := json.NewEncoder(f)
	for _, r := range rows {
		if err := enc.Encode(r); err != nil {
			die("%v", err)
		}
	}
}

func main() {
	if len(os.Args) != 3 {
		die("usage: objdrv <pool.json> <outdir>")
	}
	raw, err := os.ReadFile(os.Args[1])
	if err != nil {
		die("%v", err)
	}
	d := &driver{known: map[uintptr]bool{}, shared: map[[2]int]*path.Path{}, index: map[string]int{}}
	if err := json.Unmarshal(raw, &d.pool); err != nil {
		die("%v", err)
	}
	for _, v := range d.pool.Docs {
		d.docs = append(d.docs, withSpare(v.ToGo(false)))
	}
	for _, vs := range d.pool.Vars {
		m := exec.Vars{}
		for _, v := range vs {
			m[wire.Str(v.K)] = v.V.ToGo(false)
		}
		d.vars = append(d.vars, m)
	}
	var pristineDocs []any
	for _, x := range d.docs {
		run.Containers(x, d.known)
		pristineDocs = append(pristineDocs, run.DeepCopy(x))
	}
	var pristineVars []any
	for _, m := range d.vars {
		run.Containers(map[string]any(m), d.known)
		pristineVars = append(pristineVars, run.DeepCopy(map[string]any(m)))
	}
	for ci, c := range d.pool.Cases {
		lx := 0
		if c.Lax {
			lx = 1
		}
		if _, ok := d.shared[[2]int{c.PI, lx}]; !ok {
			d.shared[[2]int{c.PI, lx}] = d.newPath(c)
		}
		for _, silent := range []bool{false, true} {
			for _, e := range entryNames {
				if silent && (e == "string" || e == "parse" || e == "realias") {
					continue
				}
				if e == "query2v" && c.VI == 0 {
					continue
				}
				d.calls = append(d.calls, CallRow{PI: c.PI, DI: c.DI, VI: c.VI, Lax: c.Lax, Silent: silent, UseTZ: c.UseTZ, Zone: c.Zone, Entry: e})
				d.caseOf = append(d.caseOf, ci)
			}
		}
	}
	sharedOf := func(k int) *path.Path {
		c := d.pool.Cases[d.caseOf[k]]
		lx := 0
		if c.Lax {
			lx = 1
		}
		return d.shared[[2]int{c.PI, lx}]
	}
	// phase 1: every call alone, on a fresh Path object
	for k := range d.calls {
		d.calls[k].Solo = d.do(k, d.newPath(d.pool.Cases[d.caseOf[k]]))
	}
	logs := make([][]Event, d.pool.Goroutines+2)
	var wg sync.WaitGroup
	// phase 2a: first-use bursts. For every (path, mode) a Path object nobody
	// has touched yet is shared; all goroutines make the same call on it at
	// the same moment, entry point after entry point (lazily initialised state
	// in the object is written at first use).
	firstOf := map[[3]int]int{} // (PI, lax, entry index) -> a call
	for k, c := range d.calls {
		lx := 0
		if c.Lax {
			lx = 1
		}
		for ei, n := range entryNames {
			if n == c.Entry {
				key := [3]int{c.PI, lx, ei}
				if _, ok := firstOf[key]; !ok && !c.Silent {
					firstOf[key] = k
				}
			}
		}
	}
	// ... and Query on every document of every (path, mode): index 100 + DI
	for k, c := range d.calls {
		if c.Entry == "query" && !c.Silent {
			lx := 0
			if c.Lax {
				lx = 1
			}
			firstOf[[3]int{c.PI, lx, 100 + c.DI}] = k
		}
	}
	var keys [][3]int
	for key := range firstOf {
		keys = append(keys, key)
	}
	sort.Slice(keys, func(i, j int) bool {
		a, b := keys[i], keys[j]
		// "string" first: printing is the most likely lazily cached operation
		ea, eb := (a[2]+2)%len(entryNames), (b[2]+2)%len(entryNames)
		if a[0] != b[0] {
			return a[0] < b[0]
		}
		if a[1] != b[1] {
			return a[1] < b[1]
		}
		return ea < eb
	})
	burstObj := map[[2]int]*path.Path{}
	for _, key := range keys {
		k := firstOf[key]
		ok2 := [2]int{key[0], key[1]}
		if _, ok := burstObj[ok2]; !ok {
			burstObj[ok2] = d.newPath(d.pool.Cases[d.caseOf[k]])
		}
		obj := burstObj[ok2]
		gate := make(chan struct{})
		for g := 1; g <= d.pool.Goroutines; g++ {
			wg.Add(1)
			go func(g int) {
				defer wg.Done()
				<-gate
				// Parse keeps no state in the Path: only many simultaneous parses
				// expose state shared inside the parser, so that burst is repeated
				reps := 1
				if d.calls[k].Entry == "parse" {
					reps = 12
				}
				for r := 0; r < reps; r++ {
					logs[g] = append(logs[g], Event{Seq: d.seq.Add(1), G: g, Ev: "inv", Call: k + 1})
					out := d.do(k, obj)
					logs[g] = append(logs[g], Event{Seq: d.seq.Add(1), G: g, Ev: "ret", Call: k + 1, Out: out})
				}
			}(g)
		}
		close(gate)
		wg.Wait()
	}
	// phase 2b: concurrent random calls on the shared objects
	start := make(chan struct{})
	for g := 1; g <= d.pool.Goroutines; g++ {
		wg.Add(1)
		go func(g int) {
			defer wg.Done()
			rng := rand.New(rand.NewSource(d.pool.Seed*1000 + int64(g)))
			// goroutines work on overlapping windows of the call list so that the
			// same Path is very likely in use by several of them at once
			base := rng.Intn(len(d.calls))
			<-start
			for i := 0; i < d.pool.PerG; i++ {
				k := (base + rng.Intn(40)) % len(d.calls)
				if i%16 == 0 {
					base = rng.Intn(len(d.calls))
				}
				logs[g] = append(logs[g], Event{Seq: d.seq.Add(1), G: g, Ev: "inv", Call: k + 1})
				out := d.do(k, sharedOf(k))
				logs[g] = append(logs[g], Event{Seq: d.seq.Add(1), G: g, Ev: "ret", Call: k + 1, Out: out})
				if rng.Intn(4) == 0 {
					runtime.Gosched()
				}
			}
		}(g)
	}
	close(start)
	wg.Wait()
	// phase 3: a sequential history on the same (by now much used) objects:
	// random calls, each repeated immediately
	h := d.pool.Goroutines + 1
	rng := rand.New(rand.NewSource(d.pool.Seed*1000 + 999))
	for i := 0; i < d.pool.History; i++ {
		k := rng.Intn(len(d.calls))
		for rep := 0; rep < 2; rep++ {
			logs[h] = append(logs[h], Event{Seq: d.seq.Add(1), G: h, Ev: "inv", Call: k + 1})
			out := d.do(k, sharedOf(k))
			logs[h] = append(logs[h], Event{Seq: d.seq.Add(1), G: h, Ev: "ret", Call: k + 1, Out: out})
		}
	}
	var events []Event
	for _, l := range logs {
		events = append(events, l...)
	}
	sort.Slice(events, func(i, j int) bool { return events[i].Seq < events[j].Seq })
	for i, x := range d.docs {
		if !reflect.DeepEqual(x, pristineDocs[i]) || !spareIntact(x) {
			events = append(events, Event{G: 0, Ev: "mut", Call: i + 1})
		}
	}
	for i, m := range d.vars {
		if !reflect.DeepEqual(any(map[string]any(m)), pristineVars[i]) {
			events = append(events, Event{G: 0, Ev: "mut", Call: i + 1})
		}
	}
	out := os.Args[2]
	writeNDJSON(filepath.Join(out, "calls.ndjson"), d.calls)
	writeNDJSON(filepath.Join(out, "outs.ndjson"), d.outs)
	writeNDJSON(filepath.Join(out, "events.ndjson"), events)
	fmt.Printf("calls=%d outs=%d events=%d\n", len(d.calls), len(d.outs), len(events))
}
