package main

import (
	"path/filepath"
	"time"

	"verif/harness/wire"
)

type c10Row struct {
	C  wire.Node `json:"c"`
	CR wire.Node `json:"cr"`
}
type chainRow struct {
	Chain []wire.Node `json:"chain"`
}

var rootVar = wire.Bytes("root")

// c10Group executes P ? (C), P, and the rewritten condition on every item.
func c10Group(P []wire.Node, c c10Row, doc wire.Value, base []wire.Var, lax bool) (Group, error) {
	filt := wire.Node{K: "filter", P: &c.C}
	mainPath := wire.Path{Lax: lax, Chain: append(append([]wire.Node{}, P...), filt)}
	g := Group{Kind: "C10", Lax: lax}
	m, err := execG(mainPath, doc, base, false)
	if err != nil {
		return g, err
	}
	pre, err := execG(wire.Path{Lax: lax, Chain: P}, doc, base, false)
	if err != nil {
		return g, err
	}
	g.Runs = []GRun{m, pre}
	if pre.Q.Err.Cls == "none" {
		items := pre.Q.Items
		if lax {
			items = flattenLax(items)
		}
		vars := append(append([]wire.Var{}, base...), wire.Var{K: rootVar, V: doc})
		for _, x := range items {
			r, err := execG(wire.Path{Lax: lax, Pred: true, Chain: []wire.Node{c.CR}}, x, vars, false)
			if err != nil {
				return g, err
			}
			g.Runs = append(g.Runs, r)
		}
	}
	return g, nil
}

func c10Conj(P []wire.Node, c1, c2 wire.Node, doc wire.Value, base []wire.Var) (Group, error) {
	f1, f2 := wire.Node{K: "filter", P: &c1}, wire.Node{K: "filter", P: &c2}
	and := wire.Node{K: "bin", Op: "and", L: []wire.Node{c1}, R: []wire.Node{c2}}
	fa := wire.Node{K: "filter", P: &and}
	g := Group{Kind: "C10conj", Lax: false}
	a, err := execG(wire.Path{Chain: append(append([]wire.Node{}, P...), f1, f2)}, doc, base, false)
	if err != nil {
		return g, err
	}
	b, err := execG(wire.Path{Chain: append(append([]wire.Node{}, P...), fa)}, doc, base, false)
	if err != nil {
		return g, err
	}
	g.Runs = []GRun{a, b}
	return g, nil
}

func init() {
	checks["C10"] = func(rc *RunCtx) {
		consts := map[string]string{"MaxNodes": "2", "Wide": "FALSE"}
		if rc.Tier == "thorough" {
			consts = map[string]string{"MaxNodes": "3", "Wide": "TRUE"}
		}
		rc.Ev.Assumptions = stdAssumptions
		if rc.runMC("MC_C10", []string{"Inv"}, consts, 60*time.Minute) == nil {
			return
		}
		conds, err := readNDJSON[c10Row](filepath.Join(rc.Dir, "c10.ndjson"))
		if err != nil {
			rc.infra("%v", err)
			return
		}
		prefs, err := readNDJSON[chainRow](filepath.Join(rc.Dir, "prefixes.ndjson"))
		if err != nil {
			rc.infra("%v", err)
			return
		}
		docs, err := readNDJSON[DocRow](filepath.Join(rc.Dir, "docs.ndjson"))
		if err != nil {
			rc.infra("%v", err)
			return
		}
		varRows, err := readNDJSON[VarsRow](filepath.Join(rc.Dir, "vars.ndjson"))
		if err != nil || len(varRows) == 0 {
			rc.infra("vars: %v", err)
			return
		}
		base := varRows[0].Vars
		type job struct {
			p, c, d int
			lax     bool
		}
		var jobs []job
		for p := range prefs {
			for c := range conds {
				for d := range docs {
					jobs = append(jobs, job{p, c, d, true}, job{p, c, d, false})
				}
			}
		}
		groups, err := buildGroups(len(jobs), func(i int) ([]Group, error) {
			j := jobs[i]
			g, err := c10Group(prefs[j.p].Chain, conds[j.c], docs[j.d].Doc, base, j.lax)
			if err != nil {
				return nil, err
			}
			out := []Group{g}
			if !j.lax {
				c2 := conds[((j.c+1)*7)%len(conds)] // the same pairing MC_C10 checks on the specification
				cg, err := c10Conj(prefs[j.p].Chain, conds[j.c].C, c2.C, docs[j.d].Doc, base)
				if err != nil {
					return nil, err
				}
				out = append(out, cg)
			}
			return out, nil
		})
		if err != nil {
			rc.infra("runner: %v", err)
			return
		}
		rc.cov("exhaustive", true)
		rc.cov("rule", "prefix paths x filter conditions (comparisons of @, @.a, @[*], @.size() with literals of every type; exists; starts with; like_regex; && || !; is unknown; a nested filter; conditions failing suppressibly and non-suppressibly; conditions that look at $) x all JSON trees up to MaxNodes nodes plus nested-array documents x {lax, strict}; each group = the filter query, the prefix query and one predicate-check query per item; strict mode adds the consecutive-filters group")
		rc.cov("universe", map[string]any{"prefixes": len(prefs), "conditions": len(conds), "docs": len(docs), "groups": len(groups), "constants": consts})
		rc.groupFamily(groups, rerunGroup, "C10")

		// The filter queries themselves against the rules: "true" in the
		// property means true by the documented rules (PathSem), so a filter
		// query that differs from them is a C10 violation too.
		u := &ExecUniverse{Docs: docs, Vars: []VarsRow{{Vars: base}}}
		for p := range prefs {
			for c := range conds {
				cc := conds[c].C
				chain := append(append([]wire.Node{}, prefs[p].Chain...), wire.Node{K: "filter", P: &cc})
				u.Paths = append(u.Paths, PathRow{Chain: chain})
			}
		}
		u.cross([]bool{true, false})
		rc.cov("filter_queries_judged_against_the_rules", len(u.Cases))
		rc.execFamily(u, "C10", "C01")
	}
}
