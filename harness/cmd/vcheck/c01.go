package main

import (
	"verif/harness/gen"
	"verif/harness/wire"
)

// randomUniverse draws n seeded random cases (each with its own table rows).
func randomUniverse(seed int64, n, depth int, tune func(*gen.G)) *ExecUniverse {
	g := gen.New(seed)
	if tune != nil {
		tune(g)
	}
	u := &ExecUniverse{}
	for i := 0; i < n; i++ {
		p := g.Path(depth)
		u.Paths = append(u.Paths, PathRow{Pred: p.Pred, Chain: p.Chain})
		u.Docs = append(u.Docs, DocRow{Doc: g.Doc(3)})
		u.Vars = append(u.Vars, VarsRow{Vars: g.VarSet()})
		u.Cases = append(u.Cases, CaseRef{PI: i + 1, DI: i + 1, VI: i + 1, Lax: p.Lax, Zone: "UTC"})
	}
	return u
}

var _ = wire.Null

func init() {
	checks["C01"] = func(rc *RunCtx) {
		rc.Ev.Assumptions = stdAssumptions
		n := 20000
		if rc.Tier == "thorough" {
			n = 300000
		}
		u := randomUniverse(rc.Seed, n, 3, nil)
		rc.cov("rule", "seeded random grammar-derivable paths (depth<=3, every node kind) x random documents (depth<=3) x random variable sets")
		rc.execFamily(u, "C01")
	}
}
