package main

import (
	"time"

	"verif/harness/gen"
)

// randomUniverse draws n seeded random cases (each with its own table rows).
func randomUniverse(seed int64, n, depth int, tune func(*gen.G)) *ExecUniverse {
	g := gen.New(seed)
	if tune != nil {
		tune(g)
	}
	u := &ExecUniverse{}
	for i := 0; i < n; i++ {
		p := g.Path(depth)
		u.Paths = append(u.Paths, PathRow{Pred: p.Pred, Chain: p.Chain})
		u.Docs = append(u.Docs, DocRow{Doc: g.Doc(3)})
		u.Vars = append(u.Vars, VarsRow{Vars: g.VarSet()})
		u.Cases = append(u.Cases, CaseRef{PI: i + 1, DI: i + 1, VI: i + 1, Lax: p.Lax, Zone: "UTC"})
	}
	return u
}

// mixCheck: the mixed exhaustive universe (MC_Mix: the specification's own
// outcomes satisfy the laws) replayed on the real code, then seeded random
// cases; prefixes select the clauses this property owns.
func mixCheck(rc *RunCtx, quick, thorough map[string]string, nRandQuick, nRandThorough int, prefixes ...string) {
	consts, n := quick, nRandQuick
	if rc.Tier == "thorough" {
		consts, n = thorough, nRandThorough
	}
	rc.Ev.Assumptions = stdAssumptions
	if rc.runMC("MC_Mix", []string{"Inv"}, consts, 60*time.Minute) == nil {
		return
	}
	u, err := rc.loadMCUniverse()
	if err != nil {
		rc.infra("universe: %v", err)
		return
	}
	u.cross([]bool{true, false})
	rc.cov("exhaustive", true)
	rc.cov("rule", "exhaustive part: every kind of head (root, bound/unbound variable, literal, arithmetic, predicate) followed by up to MaxSteps steps from a 22-step alphabet (accessors, subscripts, .**, filters with suppressible and non-suppressible conditions, item methods, keyvalue) plus 12 predicate check expressions x all JSON trees up to MaxNodes nodes plus documents that fail midway x {lax, strict}, each observed with and without WithSilent through all five entry points; random part: seeded grammar-derivable paths of depth <= 3 x random documents and variable sets. Every (path, document, mode) triple is distinct; non-trivial = path has at least one step or operator")
	rc.cov("universe", map[string]any{"paths": len(u.Paths), "docs": len(u.Docs), "cases": len(u.Cases), "constants": consts, "random_cases": n})
	rc.execFamily(u, prefixes...)
	r := randomUniverse(rc.Seed, n, 3, nil)
	rc.execFamily(r, prefixes...)
}

func init() {
	small := map[string]string{"MaxSteps": "2", "MaxNodes": "2"}
	mid := map[string]string{"MaxSteps": "2", "MaxNodes": "3"}
	checks["C01"] = func(rc *RunCtx) { mixCheck(rc, mid, mid, 20000, 400000, "C01") }
	checks["C05"] = func(rc *RunCtx) { mixCheck(rc, small, mid, 20000, 300000, "C05") }
	checks["C06"] = func(rc *RunCtx) { mixCheck(rc, small, mid, 20000, 300000, "C06") }
	checks["C08"] = func(rc *RunCtx) { mixCheck(rc, small, mid, 20000, 300000, "C08") }
}
