package main

import (
	"path/filepath"
	"time"

	"verif/harness/gen"
	"verif/harness/wire"
)

// randomUniverse draws n seeded random cases (each with its own table rows).
func randomUniverse(seed int64, n, depth int, tune func(*gen.G)) *ExecUniverse {
	g := gen.New(seed)
	if tune != nil {
		tune(g)
	}
	u := &ExecUniverse{}
	for i := 0; i < n; i++ {
		p := g.Path(depth)
		u.Paths = append(u.Paths, PathRow{Pred: p.Pred, Chain: p.Chain})
		u.Docs = append(u.Docs, DocRow{Doc: g.Doc(3)})
		u.Vars = append(u.Vars, VarsRow{Vars: g.VarSet()})
		u.Cases = append(u.Cases, CaseRef{PI: i + 1, DI: i + 1, VI: i + 1, Lax: p.Lax, Zone: "UTC"})
	}
	return u
}

// mixCheck: the mixed exhaustive universe (MC_Mix: the specification's own
// outcomes satisfy the laws) replayed on the real code, then seeded random
// cases; prefixes select the clauses this property owns.
func mixCheck(rc *RunCtx, quick, thorough map[string]string, nRandQuick, nRandThorough int, prefixes ...string) {
	consts, n := quick, nRandQuick
	if rc.Tier == "thorough" {
		consts, n = thorough, nRandThorough
	}
	rc.Ev.Assumptions = stdAssumptions
	if rc.runMC("MC_Mix", []string{"Inv"}, consts, 60*time.Minute) == nil {
		return
	}
	u, err := rc.loadMCUniverse()
	if err != nil {
		rc.infra("universe: %v", err)
		return
	}
	u.cross([]bool{true, false})
	rc.cov("exhaustive", true)
	rc.cov("rule", "exhaustive part: every kind of head (root, bound/unbound variable, literal, arithmetic, predicate) followed by up to MaxSteps steps from a 22-step alphabet (accessors, subscripts, .**, filters with suppressible and non-suppressible conditions, item methods, keyvalue) plus 12 predicate check expressions x all JSON trees up to MaxNodes nodes plus documents that fail midway x {lax, strict}, each observed with and without WithSilent through all five entry points; random part: seeded grammar-derivable paths of depth <= 3 x random documents and variable sets. Every (path, document, mode) triple is distinct; non-trivial = path has at least one step or operator")
	rc.cov("universe", map[string]any{"paths": len(u.Paths), "docs": len(u.Docs), "cases": len(u.Cases), "constants": consts, "random_cases": n})
	rc.execFamily(u, prefixes...)
	r := randomUniverse(rc.Seed, n, 3, nil)
	rc.execFamily(r, prefixes...)
}

// typesUniverse: MC_Types replayed with float64 and json.Number documents,
// plus json.Number texts outside the float64 / int64 ranges in every slot.
func typesUniverse(rc *RunCtx) *ExecUniverse {
	if rc.runMC("MC_Types", []string{"Inv"}, nil, 30*time.Minute) == nil {
		return nil
	}
	u, err := rc.loadMCUniverse()
	if err != nil {
		rc.infra("universe: %v", err)
		return nil
	}
	nd := len(u.Docs)
	u.addJNumDocs()
	for _, t := range []string{"1e400", "-1e400", "1e-400", "92233720368547758070", "-92233720368547758070", "9223372036854775808", "1E+309"} {
		j := wire.JNum(t)
		u.Docs = append(u.Docs, DocRow{Doc: j}, DocRow{Doc: wire.Arr(j)}, DocRow{Doc: wire.Arr(wire.Float(1), wire.Float(2.5), j)},
			DocRow{Doc: wire.Obj("a", j)})
	}
	_ = nd
	// the variable x takes each special value too
	base := u.Vars[0]
	for _, t := range []string{"1e400", "92233720368547758070"} {
		u.Vars = append(u.Vars, VarsRow{Vars: []wire.Var{{K: base.Vars[0].K, V: wire.JNum(t)}}})
	}
	for pi := range u.Paths {
		for di := range u.Docs {
			for _, lax := range []bool{true, false} {
				u.Cases = append(u.Cases, CaseRef{PI: pi + 1, DI: di + 1, VI: 1, Lax: lax, Zone: "UTC"})
			}
		}
		for vi := 2; vi <= len(u.Vars); vi++ {
			u.Cases = append(u.Cases, CaseRef{PI: pi + 1, DI: 1, VI: vi, Lax: true, Zone: "UTC"})
		}
	}
	rc.cov("types_universe", map[string]any{"paths": len(u.Paths), "docs": len(u.Docs), "cases": len(u.Cases)})
	return u
}

func init() {
	small := map[string]string{"MaxSteps": "2", "MaxNodes": "2"}
	mid := map[string]string{"MaxSteps": "2", "MaxNodes": "3"}
	checks["C01"] = func(rc *RunCtx) {
		mixCheck(rc, mid, mid, 20000, 400000, "C01")
		// the context templates of C09 (constructs that rebind @ / last / leniency,
		// left through each exit): the master conformance check covers them too
		if rc.runMC("MC_C09", []string{"Inv"}, map[string]string{"MaxSteps": "1", "MaxNodes": "2"}, 30*time.Minute) == nil {
			return
		}
		u := &ExecUniverse{Vars: []VarsRow{{Vars: []wire.Var{}}}}
		var err error
		if u.Paths, err = readNDJSON[PathRow](filepath.Join(rc.Dir, "paths.ndjson")); err != nil {
			rc.infra("%v", err)
			return
		}
		if u.Docs, err = readNDJSON[DocRow](filepath.Join(rc.Dir, "ctxdocs.ndjson")); err != nil {
			rc.infra("%v", err)
			return
		}
		if vs, err := readNDJSON[VarsRow](filepath.Join(rc.Dir, "ctxvars.ndjson")); err == nil && len(vs) > 0 {
			u.Vars = vs // the variables the templates that start at $v read
		}
		u.cross([]bool{true, false})
		rc.cov("context_templates", map[string]any{"paths": len(u.Paths), "docs": len(u.Docs), "cases": len(u.Cases)})
		rc.execFamily(u, "C01")
		if t := typesUniverse(rc); t != nil {
			rc.execFamily(t, "C01")
		}
		// comparisons across the three Go representations of numbers, strings and
		// the other types: the corpus of C12, every ordered pair
		if rc.runMC("MC_C12", []string{"Inv"}, nil, 30*time.Minute) == nil {
			return
		}
		rows, err := readNDJSON[corpusRow](filepath.Join(rc.Dir, "corpus.ndjson"))
		if err != nil {
			rc.infra("%v", err)
			return
		}
		var slots []slot
		for _, r := range rows {
			slots = append(slots, instantiate(r.V)...)
		}
		rc.execFamily(cmpUniverse(slots), "C01")
		dtPairsCheck(rc, "C01")
	}
	checks["C05"] = func(rc *RunCtx) {
		mixCheck(rc, small, mid, 20000, 300000, "C05")
		if u := typesUniverse(rc); u != nil {
			rc.execFamily(u, "C05")
		}
		// "every input": the numeric boundary universes of C13 and C16 (overflow in
		// both directions, irregular number spellings, invalid .decimal arguments)
		// and like_regex patterns, judged for totality, purity and classification
		if rc.runMC("MC_C13", []string{"Inv"}, nil, 30*time.Minute) == nil {
			return
		}
		if slots := rc.loadCorpus(); slots != nil {
			rc.execFamily(c13Universe(slots), "C05")
		}
		if rc.runMC("MC_C16", []string{"Inv"}, map[string]string{"Heavy": "FALSE"}, 30*time.Minute) == nil {
			return
		}
		if slots := rc.loadCorpus(); slots != nil {
			u, _ := c16Universe(slots, false)
			rc.execFamily(u, "C05")
		}
		rc.execFamily(regexUniverse(), "C05")
	}
	checks["C06"] = func(rc *RunCtx) {
		mixCheck(rc, small, mid, 20000, 300000, "C06")
		if u := typesUniverse(rc); u != nil {
			rc.execFamily(u, "C06")
		}
	}
	checks["C08"] = func(rc *RunCtx) {
		mixCheck(rc, small, mid, 20000, 300000, "C08")
		// failing step / leaking suppression templates, the failing item at every position
		if rc.runMC("MC_C08", []string{"Inv"}, nil, 30*time.Minute) == nil {
			return
		}
		u, err := rc.loadMCUniverse()
		if err != nil {
			rc.infra("universe: %v", err)
			return
		}
		u.cross([]bool{true, false})
		rc.cov("leak_templates", map[string]any{"paths": len(u.Paths), "docs": len(u.Docs), "cases": len(u.Cases)})
		rc.execFamily(u, "C08")
		if t := typesUniverse(rc); t != nil {
			rc.execFamily(t, "C08")
		}
	}
}
