package main

import (
	"fmt"
	"time"

	"verif/harness/gen"
	"verif/harness/run"
	"verif/harness/wire"
)

var convMethods = []string{"double", "number", "integer", "bigint", "boolean", "string", "abs", "floor", "ceiling", "type", "size"}

func methodNode(m string) wire.Node { return wire.Node{K: "method", Name: m} }

func decimalNode(np int, p, s int64) wire.Node {
	d := wire.Node{K: "decimal", Np: np}
	pv, sv := wire.Int(p), wire.Int(s)
	if np >= 1 {
		d.DP = &pv
	}
	if np >= 2 {
		d.DS = &sv
	}
	return d
}

// kvGroup runs the same keyvalue query twice on ONE document instance.
func kvGroup(p wire.Path, doc wire.Value) (Group, error) {
	g := Group{Kind: "C16kv", Lax: p.Lax}
	pr, err := run.Prepare(wire.Case{Path: p, Doc: doc, Zone: "UTC"})
	if err != nil {
		return g, err
	}
	for i := 0; i < 2; i++ {
		r := GRun{Path: p, Doc: doc, Vars: []wire.Var{}}
		r.Q = pr.One(pr.Base, run.Query, nil)
		r.Q.Bad = ""
		r.M = wire.EntryObs{Items: []wire.Value{}, Err: wire.Err{Cls: "none"}}
		g.Runs = append(g.Runs, r)
	}
	return g, nil
}

// c16Universe: the conversion and numeric methods on the boundary grid, on
// regular and irregular string spellings, on non-numbers and containers, and
// .decimal(p, s) over valid and invalid arguments (shared with C05).
func c16Universe(slots []slot, thorough bool) (*ExecUniverse, []slot) {
	// string spellings: the decimal text of every number, and irregular ones
	texts := []string{"NaN", "nan", "inf", "-inf", "Infinity", " 1", "1 ", "1e2", "1E2", "1.5e1", ".5", "5.", "-.5", "+1", "--1", "", "abc", "1.5", "-1.5",
		"2147483647", "2147483648", "-2147483648", "-2147483649", "9223372036854775807", "9223372036854775808", "-9223372036854775808", "-9223372036854775809",
		"1e400", "-1e400", "1e-400", "0", "-0", "00", "010", "0017", "08", "-0019", "0x10", "0b1", "0o7", "1_000", "+010", "1", "t", "T", "true", "TRUE", "True", "f", "false", "FALSE", "y", "yes", "YES", "n", "no", "on", "ON", "off", "OFF", "o", "x", "2", "10"}
	seen := map[string]bool{}
	for _, t := range texts {
		seen[t] = true
	}
	for _, s := range slots {
		if s.V.Rep == "j" {
			t := wire.Str(s.V.Tx)
			if !seen[t] {
				seen[t] = true
				texts = append(texts, t)
			}
		}
	}
	inputs := append([]slot{}, slots...)
	for _, t := range texts {
		inputs = append(inputs, slot{V: wire.StrV(t)})
	}
	for _, v := range []wire.Value{wire.Null(), wire.Bool(true), wire.Bool(false), wire.Arr(), wire.Obj(), wire.Arr(wire.Float(1.5), wire.StrV("2")),
		wire.Obj("a", wire.Float(1)), wire.JNum("1e400"), wire.JNum("92233720368547758070"),
		// nested arrays: lax unwraps one level only
		wire.Arr(wire.Arr(wire.Float(1.5))), wire.Arr(wire.Float(1.5), wire.Arr(wire.Float(2.5))), wire.Arr(wire.Arr(wire.StrV("1"), wire.Bool(true)))} {
		inputs = append(inputs, slot{V: v})
	}
	u := &ExecUniverse{}
	for _, in := range inputs {
		head, vars := operand(in, "a")
		for _, m := range convMethods {
			for _, lax := range []bool{true, false} {
				u.addCase(wire.Path{Lax: lax, Chain: append(append([]wire.Node{}, head...), methodNode(m))}, wire.Null(), vars)
			}
		}
		u.addCase(wire.Path{Lax: true, Chain: append(append([]wire.Node{}, head...), decimalNode(0, 0, 0))}, wire.Null(), vars)
	}
	// every method applied to a datetime item (only .type(), .size() in lax mode and .string() accept one)
	for _, dt := range []struct{ text, op string }{{"2015-08-02", "date"}, {"12:34:56", "time"}, {"12:34:56+05:30", "time_tz"},
		{"2015-08-02T12:34:56", "timestamp"}, {"2015-08-02T12:34:56Z", "timestamp_tz"}, {"2015-08-02T12:34:56.5", "datetime"}} {
		head, vars := operand(slot{V: wire.StrV(dt.text)}, "a")
		chain := append(append([]wire.Node{}, head...), wire.Node{K: "dt", Op: dt.op})
		for _, m := range append(append([]string{}, convMethods...), "type", "size", "keyvalue") {
			for _, lax := range []bool{true, false} {
				u.addCase(wire.Path{Lax: lax, Chain: append(append([]wire.Node{}, chain...), methodNode(m))}, wire.Null(), vars)
			}
		}
		u.addCase(wire.Path{Lax: true, Chain: append(append([]wire.Node{}, chain...), decimalNode(2, 5, 1))}, wire.Null(), vars)
		// and over an array of such strings (one size / type per element)
		arr := wire.Arr(wire.StrV(dt.text), wire.StrV(dt.text))
		for _, m := range []string{"size", "type", "string"} {
			u.addCase(wire.Path{Lax: true, Chain: []wire.Node{{K: "root"}, {K: "anyarr"}, {K: "dt", Op: dt.op}, methodNode(m)}}, arr, nil)
		}
	}
	// .decimal(p, s): every precision / scale pair on a subset of the grid
	precs := []int64{1, 2, 3, 15, 1000, 1001, 0, -1, 2147483648}
	scales := []int64{-1001, -2, -1, 0, 1, 2, 3, 1001, 20, -20}
	if thorough {
		scales = append(scales, 1000, -1000)
	}
	decIn := []slot{}
	for _, in := range inputs {
		if in.V.T == "num" && in.V.Rep != "i" || in.V.T == "str" && len(in.V.S) < 6 || in.V.T == "arr" {
			decIn = append(decIn, in)
		}
	}
	for _, in := range decIn {
		head, vars := operand(in, "a")
		for _, p := range precs {
			u.addCase(wire.Path{Lax: true, Chain: append(append([]wire.Node{}, head...), decimalNode(1, p, 0))}, wire.Null(), vars)
			for _, s := range scales {
				u.addCase(wire.Path{Lax: true, Chain: append(append([]wire.Node{}, head...), decimalNode(2, p, s))}, wire.Null(), vars)
			}
		}
	}
	return u, inputs
}

func init() {
	checks["C16"] = func(rc *RunCtx) {
		rc.Ev.Assumptions = stdAssumptions
		consts := map[string]string{"Heavy": "FALSE"}
		if rc.Tier == "thorough" {
			consts = map[string]string{"Heavy": "TRUE"}
		}
		if rc.runMC("MC_C16", []string{"Inv"}, consts, 60*time.Minute) == nil {
			return
		}
		slots := rc.loadCorpus()
		if slots == nil {
			return
		}
		u, inputs := c16Universe(slots, rc.Tier == "thorough")
		rc.cov("exhaustive", true)
		rc.cov("rule", "boundary grid of 32 numbers (int32/int64 limits +-1, halves around them, 2^53, 2^63, 1e308, 5e-324, small integers, halves, quarters) each as int64 literal, float64 and json.Number, their decimal spellings as strings, 55 irregular strings (NaN/inf spellings, padded, exponent, boolean spellings), null/booleans/containers, out-of-range json.Number -> x 11 methods x {lax, strict}; .decimal(p, s) for 9 precisions x 10-12 scales (valid, boundary, invalid, out of int32) on every non-literal number and short string; string round-trip groups; keyvalue groups on random objects executed twice on the same document instance")
		rc.cov("inputs", len(inputs))
		rc.execFamily(u, "C16", "C01")

		// group laws: string round trip and keyvalue ids
		var groups []Group
		for _, in := range inputs {
			var ms []string
			switch {
			case in.V.T == "bool":
				ms = []string{"boolean"}
			case in.V.T == "str":
				ms = []string{"string"}
			case in.V.T == "num" && in.V.Rep != "j" || in.V.T == "num" && in.V.Ok:
				ms = []string{"double", "number"}
				if _, ok := in.V.N.Int64(); ok && (in.V.Rep == "i" || in.V.Rep == "j" && in.V.Ji) {
					ms = append(ms, "bigint", "integer")
				}
			}
			head, vars := operand(in, "a")
			for _, m := range ms {
				a, err := execG(wire.Path{Lax: true, Chain: append(append([]wire.Node{}, head...), methodNode(m))}, wire.Null(), vars, false)
				if err != nil {
					rc.infra("%v", err)
					return
				}
				b, err := execG(wire.Path{Lax: true, Chain: append(append([]wire.Node{}, head...), methodNode("string"), methodNode(m))}, wire.Null(), vars, false)
				if err != nil {
					rc.infra("%v", err)
					return
				}
				groups = append(groups, Group{Kind: "C16str", Lax: true, Runs: []GRun{a, b}})
			}
		}
		g := gen.New(rc.Seed)
		nkv := 300
		if rc.Tier == "thorough" {
			nkv = 20000
		}
		kvPath := func(acc ...wire.Node) wire.Path {
			return wire.Path{Lax: true, Chain: append(append([]wire.Node{{K: "root"}}, acc...), methodNode("keyvalue"))}
		}
		for i := 0; i < nkv; i++ {
			// an object, or an array of objects, with random members
			mk := func() wire.Value {
				kv := []any{}
				for _, k := range []string{"a", "b", "c", "key", "id"} {
					if g.R.Intn(2) == 0 {
						kv = append(kv, k, g.Doc(2))
					}
				}
				return wire.Obj(kv...)
			}
			var doc wire.Value
			var p wire.Path
			if i%2 == 0 {
				doc, p = mk(), kvPath()
			} else {
				arr := []wire.Value{}
				for j := 0; j < 1+g.R.Intn(3); j++ {
					arr = append(arr, mk())
				}
				doc, p = wire.Value{T: "arr", A: arr}, kvPath(wire.Node{K: "anyarr"})
			}
			kg, err := kvGroup(p, doc)
			if err != nil {
				rc.infra("%v", err)
				return
			}
			groups = append(groups, kg)
		}
		// .keyvalue() after a filter whose own .keyvalue() continuation fails
		// (suppressed) on an earlier element: ids must stay stable
		kvm := methodNode("keyvalue")
		val := wire.Node{K: "key", S: wire.Bytes("value")}
		zero := wire.Int(0)
		failing := func(m string) wire.Node {
			p := wire.Node{K: "bin", Op: "gt", L: []wire.Node{{K: "cur"}, kvm, val, methodNode(m)}, R: []wire.Node{{K: "num", V: &zero}}}
			return wire.Node{K: "filter", P: &p}
		}
		exq := func() wire.Node {
			p := wire.Node{K: "un", Op: "exists", X: []wire.Node{{K: "cur"}, kvm, val, methodNode("integer")}}
			return wire.Node{K: "filter", P: &p}
		}
		kvDocs := []wire.Value{
			wire.Arr(wire.Obj("a", wire.StrV("x")), wire.Obj("b", wire.Float(1), "c", wire.Float(2))),
			wire.Arr(wire.Obj("b", wire.Float(1)), wire.Obj("a", wire.StrV("x")), wire.Obj("c", wire.Float(3))),
			wire.Arr(wire.Obj("a", wire.Arr()), wire.Obj("a", wire.Float(2), "b", wire.StrV("y")), wire.Obj("k", wire.Float(5))),
		}
		for _, d := range kvDocs {
			for _, f := range []wire.Node{failing("integer"), failing("double"), exq()} {
				for _, lax := range []bool{true, false} {
					p := wire.Path{Lax: lax, Chain: []wire.Node{{K: "root"}, {K: "anyarr"}, f, kvm}}
					kg, err := kvGroup(p, d)
					if err != nil {
						rc.infra("%v", err)
						return
					}
					kg.Kind = "C16kvstable"
					groups = append(groups, kg)
				}
			}
		}
		for i := range groups {
			groups[i].ID = i + 1
			groups[i].Names = []string{}
		}
		rc.cov("groups", map[string]any{"string_roundtrip_and_keyvalue": len(groups)})
		rc.groupFamily(groups, func(g Group) (Group, error) {
			if g.Kind == "C16kv" || g.Kind == "C16kvstable" {
				return kvGroup(g.Runs[0].Path, g.Runs[0].Doc)
			}
			return rerunGroup(g)
		}, "C16")
		_ = fmt.Sprint
	}
}
