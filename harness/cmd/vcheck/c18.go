package main

import (
	"context"
	"encoding/json"
	"fmt"
	"path/filepath"
	"sort"
	"strconv"
	"strings"
	"time"

	"github.com/theory/sqljson/path"
	"github.com/theory/sqljson/path/exec"
	"github.com/theory/sqljson/path/types"

	"verif/harness/run"
	"verif/harness/wire"
)

// DTOut is the outcome of an operation that yields a datetime value.
type DTOut struct {
	St string     `json:"st"` // ok no err panic
	V  wire.Value `json:"v"`
}

// DTRec is one record for Trace_DT.
type DTRec struct {
	ID     int        `json:"id"`
	Kind   string     `json:"kind"`
	Ty     string     `json:"ty"`
	Zone   string     `json:"zone"`
	In     wire.Value `json:"in"`  // the grid value the constructor was given
	Chk    bool       `json:"chk"` // compare val with in
	Val    wire.Value `json:"val"`
	Parsed DTOut      `json:"parsed"`
	JSON   []int      `json:"json"`
	Unm    DTOut      `json:"unm"`
	PStr   []int      `json:"pstr"`
	PStz   []int      `json:"pstz"` // .string() under WithTZ in another context zone
	Data   []int      `json:"data"`
	Up     DTOut      `json:"up"`
	Down   DTOut      `json:"down"`
}

var noDT = wire.Value{T: "dt", DT: &wire.DTValue{Ty: "date", Txt: []int{}}}

func protect(f func()) (panicked bool) {
	defer func() {
		if r := recover(); r != nil {
			panicked = true
		}
	}()
	f()
	return false
}

func newOfType(ty string) types.DateTime {
	switch ty {
	case "date":
		return new(types.Date)
	case "time":
		return new(types.Time)
	case "timetz":
		return new(types.TimeTZ)
	case "ts":
		return new(types.Timestamp)
	}
	return new(types.TimestampTZ)
}

func unmarshalInto(ty string, data []byte) DTOut {
	out := DTOut{St: "err", V: noDT}
	v := newOfType(ty)
	var err error
	if protect(func() { err = v.(json.Unmarshaler).UnmarshalJSON(data) }) {
		return DTOut{St: "panic", V: noDT}
	}
	if err == nil {
		out = DTOut{St: "ok", V: wire.FromDateTime(v)}
	}
	return out
}

var dtMethodOf = map[string]string{"date": "date", "time": "time", "timetz": "time_tz", "ts": "timestamp", "tstz": "timestamp_tz"}

func valueRec(id int, ty string, t time.Time, zone string) DTRec {
	loc, _ := run.Zone(zone)
	ctx := run.BaseContext(loc)
	var v types.DateTime
	switch ty {
	case "date":
		v = types.NewDate(t)
	case "time":
		v = types.NewTime(t)
	case "timetz":
		v = types.NewTimeTZ(t)
	case "ts":
		v = types.NewTimestamp(t)
	default:
		v = types.NewTimestampTZ(ctx, t)
	}
	r := DTRec{ID: id, Kind: "value", Ty: ty, Zone: zone, In: noDT, Val: wire.FromDateTime(v), Parsed: DTOut{St: "no", V: noDT}, Unm: DTOut{St: "err", V: noDT},
		JSON: []int{}, PStr: []int{}, PStz: []int{}, Data: []int{}, Up: DTOut{St: "no", V: noDT}, Down: DTOut{St: "no", V: noDT}}
	text := v.String()
	if protect(func() {
		if p, ok := types.ParseTime(ctx, text, -1); ok {
			r.Parsed = DTOut{St: "ok", V: wire.FromDateTime(p)}
		}
	}) {
		r.Parsed.St = "panic"
	}
	var js []byte
	if !protect(func() { js, _ = json.Marshal(v) }) {
		r.JSON = wire.Bytes(string(js))
		r.Unm = DTOut{St: "err", V: noDT}
		back := newOfType(ty)
		var err error
		if protect(func() { err = json.Unmarshal(js, back) }) {
			r.Unm.St = "panic"
		} else if err == nil {
			r.Unm = DTOut{St: "ok", V: wire.FromDateTime(back)}
		}
	}
	pstr := func(c context.Context, opts ...exec.Option) []int {
		out := []int{}
		protect(func() {
			p := path.MustParse("$." + dtMethodOf[ty] + "().string()")
			res, err := p.Query(c, text, opts...)
			if err == nil && len(res) == 1 {
				if s, ok := res[0].(string); ok {
					out = wire.Bytes(s)
				}
			}
		})
		return out
	}
	r.PStr = pstr(ctx)
	other, _ := run.Zone([]string{"+10:00", "America/New_York", "-04:00"}[id%3])
	r.PStz = pstr(run.BaseContext(other), exec.WithTZ())
	return r
}

func commuteRec(id int, ty string, t time.Time, zone string) DTRec {
	loc, _ := run.Zone(zone)
	ctx := run.BaseContext(loc)
	r := DTRec{ID: id, Kind: "commute", Ty: ty, Zone: zone, In: noDT, Val: noDT, Parsed: DTOut{St: "no", V: noDT}, Unm: DTOut{St: "err", V: noDT},
		JSON: []int{}, PStr: []int{}, PStz: []int{}, Data: []int{}, Up: DTOut{St: "no", V: noDT}, Down: DTOut{St: "no", V: noDT}}
	protect(func() {
		if ty == "date" {
			d := types.NewDate(t)
			r.Val = wire.FromDateTime(d)
			up := d.ToTimestampTZ(ctx)
			r.Up = DTOut{St: "ok", V: wire.FromDateTime(up)}
			r.Down = DTOut{St: "ok", V: wire.FromDateTime(up.ToDate(ctx))}
		} else {
			s := types.NewTimestamp(t)
			r.Val = wire.FromDateTime(s)
			up := s.ToTimestampTZ(ctx)
			r.Up = DTOut{St: "ok", V: wire.FromDateTime(up)}
			r.Down = DTOut{St: "ok", V: wire.FromDateTime(up.ToTimestamp(ctx))}
		}
	})
	return r
}

func hostileInputs(maxLen int) [][]byte {
	var out [][]byte
	for _, s := range []string{"", "null", "true", "false", "0", "12", "1.5", "{}", "[]", `{"a":1}`, `["2015-08-02"]`, `"`, `""`, `"a"`, `"ab"`, `"abc"`, `"abcd"`, `"abcde"`, `"abcdef"`,
		`"2015-08-02"`, `"2015-08-02T12:34:56"`, `"12:34:56"`, `"12:34:56+05:30"`, `"12:34:56+05"`, `"12:34:56Z"`, `"2015-08-02T12:34:56+05:30"`, `"2015-08-02T12:34:56Z"`,
		`"2015-08-02T12:34:56+05:30:15"`, `"12:34:56+05:30:15"`, `"2015-08-02T12:34:56.123456789-04:00"`, `2015-08-02`, `'2015-08-02'`, `"2015-08-02`, `2015-08-02"`, " \"2015-08-02\"", "\"2015-13-45\"", "\"\\u0032015-08-02\""} {
		out = append(out, []byte(s))
	}
	// every string of length 0..maxLen over a small alphabet, quoted and bare
	alpha := "01:-+TZ."
	prev := []string{""}
	for n := 0; n <= maxLen; n++ {
		var next []string
		for _, p := range prev {
			out = append(out, []byte(`"`+p+`"`))
			if n <= 2 {
				out = append(out, []byte(p))
			}
			if n < maxLen {
				for _, c := range alpha {
					next = append(next, p+string(c))
				}
			}
		}
		prev = next
	}
	// truncations of valid texts
	for _, s := range []string{`"2015-08-02T12:34:56.123+05:30"`, `"12:34:56.5-04:00"`, `"2015-08-02"`} {
		for i := 0; i <= len(s); i++ {
			out = append(out, []byte(s[:i]), []byte(s[i:]))
		}
	}
	return out
}

func (rc *RunCtx) judgeDT(recs []DTRec) map[int][]string {
	n := shardCount(len(recs), 6000)
	vs := rc.judgeShards("Trace_DT", n, func(s int, dir string) (int, error) {
		part := []DTRec{}
		for i := s; i < len(recs); i += n {
			part = append(part, recs[i])
		}
		return len(part), writeNDJSON(filepath.Join(dir, "dt.ndjson"), part)
	}, 30*time.Minute)
	out := map[int][]string{}
	for _, v := range vs {
		out[v.ID] = append(out[v.ID], v.Clauses...)
	}
	return out
}

func init() {
	checks["C18"] = func(rc *RunCtx) {
		rc.Ev.Assumptions = []string{"the runner builds values with the New* constructors and records String(), ParseTime, MarshalJSON / UnmarshalJSON and .string() faithfully", "TLC evaluates spec/DateTime.tla correctly"}
		deep := "FALSE"
		if rc.Tier == "thorough" {
			deep = "TRUE"
		}
		if rc.runMC("MC_C18", []string{"Inv"}, map[string]string{"Deep": deep}, 60*time.Minute) == nil {
			return
		}
		grid, err := readNDJSON[wire.DTValue](filepath.Join(rc.Dir, "values.ndjson"))
		if err != nil || len(grid) == 0 {
			rc.infra("values.ndjson: %v (%d rows)", err, len(grid))
			return
		}
		build := func() []DTRec {
			var recs []DTRec
			id := 0
			for _, g := range grid {
				y, mo, d := g.Y, g.Mo, g.D
				if g.Ty == "time" || g.Ty == "timetz" {
					y, mo, d = 2015, 8, 2 // the constructors keep the time of day only
				}
				t := time.Date(y, time.Month(mo), d, g.H, g.Mi, g.Sec, g.Ns, time.FixedZone("", g.Off))
				id++
				vr := valueRec(id, g.Ty, t, "UTC")
				gc := g
				vr.In, vr.Chk = wire.Value{T: "dt", DT: &gc}, true
				recs = append(recs, vr)
				if g.Ty == "date" || g.Ty == "ts" {
					for _, z := range []string{"UTC", "+05:30", "-04:00", "America/New_York"} {
						id++
						recs = append(recs, commuteRec(id, g.Ty, t, z))
					}
				}
				if u := t.UTC(); g.Ty == "tstz" && g.Ns == 0 && u.Year() >= 1 && u.Year() <= 9999 {
					// the same instant handed to the constructor in another zone representation
					id++
					recs = append(recs, valueRec(id, g.Ty, t.UTC(), "UTC"))
					id++
					recs = append(recs, valueRec(id, g.Ty, t, "America/New_York"))
				}
			}
			maxLen := 4
			if rc.Tier == "thorough" {
				maxLen = 5 // 6 is 1.5M records: the judge then needs more than 30 minutes (measured)
			}
			for _, data := range hostileInputs(maxLen) {
				for _, ty := range []string{"date", "time", "timetz", "ts", "tstz"} {
					id++
					recs = append(recs, DTRec{ID: id, Kind: "hostile", Ty: ty, Zone: "UTC", In: noDT, Val: noDT, Parsed: DTOut{St: "no", V: noDT},
						JSON: []int{}, PStr: []int{}, PStz: []int{}, Data: wire.Bytes(string(data)), Unm: unmarshalInto(ty, data), Up: DTOut{St: "no", V: noDT}, Down: DTOut{St: "no", V: noDT}})
				}
			}
			return recs
		}
		recs := build()
		rc.addInt("evaluations", len(recs))
		rc.cov("exhaustive", true)
		rc.cov("rule", "value grid exported by MC_C18 (dates: years 1, 999, 1970, 2015, 2016 leap day, 9999, US transition days; boundary clock times; nanoseconds with 0..9 significant digits; whole-minute offsets -12:00 .. +14:00 incl. half hours, -00:30, +00:45; thorough: more of each) for each of the five types, built with the New* constructors; timestamptz values also handed over in UTC and built under another context zone; zone round trips date / timestamp -> timestamptz -> back in {UTC, +05:30, -04:00, America/New_York}; .string() without and with WithTZ in another zone; hostile UnmarshalJSON input for each type: every JSON token kind, every string of length 0..4 (thorough 5) over {0 1 : - + T Z .} quoted and short ones bare, every prefix and suffix of valid texts")
		v1 := rc.judgeDT(recs)
		fmt.Printf("  %d datetime records judged, %d with remarks\n", len(recs), len(v1))
		if len(v1) == 0 {
			return
		}
		recs2 := build()
		v2 := rc.judgeDT(recs2)
		ids := []int{}
		for id := range v1 {
			ids = append(ids, id)
		}
		sort.Ints(ids)
		skipped := 0
		for _, id := range ids {
			for _, cl := range v1[id] {
				if strings.HasPrefix(cl, "skip.") {
					skipped++
					continue
				}
				ok := false
				for _, c := range v2[id] {
					if c == cl {
						ok = true
					}
				}
				r := recs[id-1]
				human := fmt.Sprintf("kind=%s type=%s zone=%s value=%s data=%s unmarshal=%s", r.Kind, r.Ty, r.Zone, r.Val.Show(), strconv.Quote(wire.Str(r.Data)), r.Unm.St)
				if !ok {
					rc.infra("datetime record %d rejected with %s but a second run was not: %s", id, cl, human)
					continue
				}
				rc.Viol = append(rc.Viol, Violation{Clause: cl, Sig: cl + " | " + human, Human: human, Replay: r})
			}
		}
		rc.addInt("records_not_decided_opaque", skipped)
		for i := 0; i < 3; i++ {
			r := recs[i*(len(recs)/3)]
			rc.sample(map[string]any{"kind": r.Kind, "type": r.Ty, "value": r.Val.Show(), "data": wire.Str(r.Data), "unmarshal": r.Unm.St})
		}
	}
}
