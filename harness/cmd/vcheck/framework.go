package main

import (
	"bufio"
	"encoding/json"
	"fmt"
	"os"
	"path/filepath"
	"runtime"
	"sort"
	"strconv"
	"strings"
	"sync"
	"time"

	"verif/harness/tlc"
	"verif/harness/wire"
)

var verifDir = func() string {
	if d := os.Getenv("VERIF_DIR"); d != "" {
		return d
	}
	return "/verif"
}()

// RunCtx carries one check invocation.
type RunCtx struct {
	ID            string
	Tier          string
	Seed          int64
	Dir           string // scratch directory (holds a copy of the spec)
	Start         time.Time
	Ev            Evidence
	Viol          []Violation
	Known         []KnownFinding
	Infra         []string // infrastructure failures (exit 2)
	Notes         []string
	abortedByRace bool // C19: the runtime aborted the driver on unsynchronised map access in the library
	KFHits        map[string]int
	judgeSeq      int
	samples       []any
}

// Violation is one reproduced rejection.
type Violation struct {
	Clause string
	Sig    string // signature used to match known findings
	Human  string
	Replay any
}

// KnownFinding is one line of /verif/known-findings.jsonl.
type KnownFinding struct {
	Property string `json:"property"`
	Status   string `json:"status"` // "open" or "fixed"
	Sig      string `json:"sig"`    // exact signature, or prefix when it ends in '*'
	What     string `json:"what"`
	Commit   string `json:"commit,omitempty"`
}

// Evidence is /verif/evidence/<id>.json.
type Evidence struct {
	PropertyID  string         `json:"property_id"`
	Tier        string         `json:"tier"`
	Seed        int64          `json:"seed"`
	Level       string         `json:"level"`
	Coverage    map[string]any `json:"coverage"`
	Assumptions []string       `json:"assumptions"`
	WallS       float64        `json:"wall_s"`
	Violations  int            `json:"violations"`
}

func loadKnown() []KnownFinding {
	f, err := os.Open(filepath.Join(verifDir, "known-findings.jsonl"))
	if err != nil {
		return nil
	}
	defer f.Close()
	var out []KnownFinding
	sc := bufio.NewScanner(f)
	sc.Buffer(make([]byte, 1<<20), 1<<24)
	for sc.Scan() {
		line := strings.TrimSpace(sc.Text())
		if line == "" || strings.HasPrefix(line, "#") {
			continue
		}
		var k KnownFinding
		if json.Unmarshal([]byte(line), &k) == nil {
			out = append(out, k)
		}
	}
	return out
}

func (rc *RunCtx) cov(k string, v any) { rc.Ev.Coverage[k] = v }

func (rc *RunCtx) addInt(k string, n int) {
	if cur, ok := rc.Ev.Coverage[k].(int); ok {
		rc.Ev.Coverage[k] = cur + n
	} else {
		rc.Ev.Coverage[k] = n
	}
}

func (rc *RunCtx) sample(s any) {
	if len(rc.samples) < 4 {
		rc.samples = append(rc.samples, s)
	}
}

func (rc *RunCtx) infra(format string, a ...any) {
	rc.Infra = append(rc.Infra, fmt.Sprintf(format, a...))
}

// confirmTries is how often a rejected record is executed again before the
// rejection is given up as not reproducible.
const confirmTries = 3

// unreproduced records a rejection that none of confirmTries further
// executions of the same case produced again. The library is sequential and
// deterministic apart from the order in which Go visits object members, so
// such a rejection comes from an order the laws did not anticipate, not from
// a defect that can be demonstrated: it is neither a violation nor a failure
// of the check; it is counted in the evidence and printed as a note.
func (rc *RunCtx) unreproduced(format string, a ...any) {
	msg := fmt.Sprintf(format, a...)
	rc.Notes = append(rc.Notes, "rejection not reproduced when the case was executed again (not a verdict): "+msg)
	rc.addInt("rejections_not_reproduced", 1)
}

// matchKnown reports the open known finding a violation signature matches.
func (rc *RunCtx) matchKnown(sig string) *KnownFinding {
	for i := range rc.Known {
		k := &rc.Known[i]
		if k.Property != rc.ID || k.Status != "open" {
			continue
		}
		if k.Sig == sig || (strings.HasSuffix(k.Sig, "*") && strings.HasPrefix(sig, strings.TrimSuffix(k.Sig, "*"))) {
			return k
		}
	}
	return nil
}

// finish prints verdict lines, writes evidence and returns the exit code.
func (rc *RunCtx) finish() int {
	rc.Ev.WallS = time.Since(rc.Start).Seconds()
	rc.cov("samples", rc.samples)
	if len(rc.samples) == 0 {
		rc.cov("samples", []any{"(none)"})
	}
	exit := 0
	reported := 0
	kf := map[string]int{}
	os.MkdirAll(filepath.Join(verifDir, "replay"), 0o755)
	for _, v := range rc.Viol {
		if k := rc.matchKnown(v.Sig); k != nil {
			kf[k.Sig+" :: "+k.What]++
			continue
		}
		reported++
		if reported <= maxShow() {
			p := filepath.Join(verifDir, "replay", fmt.Sprintf("%s-%d.json", rc.ID, reported))
			b, _ := json.MarshalIndent(map[string]any{"property": rc.ID, "clause": v.Clause, "sig": v.Sig,
				"human": v.Human, "record": v.Replay}, "", " ")
			os.WriteFile(p, b, 0o644)
			fmt.Printf("VIOLATION property=%s replay=%s\n", rc.ID, p)
			fmt.Printf("  clause=%s %s\n", v.Clause, v.Human)
		}
		exit = 1
	}
	if reported > 0 {
		byClause := map[string]int{}
		for _, v := range rc.Viol {
			if rc.matchKnown(v.Sig) == nil {
				byClause[v.Clause]++
			}
		}
		ks := make([]string, 0, len(byClause))
		for k := range byClause {
			ks = append(ks, k)
		}
		sort.Strings(ks)
		for _, k := range ks {
			fmt.Printf("  unexplained %-32s %d\n", k, byClause[k])
		}
	}
	if reported > maxShow() {
		fmt.Printf("  (%d further violations of %s not listed)\n", reported-maxShow(), rc.ID)
	}
	keys := make([]string, 0, len(kf))
	for k := range kf {
		keys = append(keys, k)
	}
	sort.Strings(keys)
	for _, k := range keys {
		fmt.Printf("KNOWN-FINDING: property=%s %s (%d instances)\n", rc.ID, k, kf[k])
	}
	rc.cov("known_findings_matched", kf)
	rc.Ev.Violations = reported
	if len(rc.Notes) > 0 {
		rc.cov("notes", rc.Notes)
	}
	if len(rc.Infra) > 0 {
		for _, m := range rc.Infra {
			fmt.Printf("INFRA: %s\n", m)
		}
		rc.cov("infrastructure_failures", rc.Infra)
		if exit == 0 {
			exit = 2
		}
	}
	os.MkdirAll(filepath.Join(verifDir, "evidence"), 0o755)
	b, _ := json.MarshalIndent(rc.Ev, "", " ")
	os.WriteFile(filepath.Join(verifDir, "evidence", rc.ID+".json"), b, 0o644)
	fmt.Printf("%s %s: exit=%d violations=%d wall=%.1fs\n", rc.ID, rc.Tier, exit, reported, rc.Ev.WallS)
	return exit
}

// ---------------------------------------------------------------------------
// TLC helpers

func cfgText(invariants []string, constants map[string]string) string {
	var b strings.Builder
	b.WriteString("INIT Init\nNEXT Step\nCHECK_DEADLOCK FALSE\n")
	for _, i := range invariants {
		b.WriteString("INVARIANT " + i + "\n")
	}
	if len(constants) > 0 {
		b.WriteString("CONSTANTS\n")
		keys := make([]string, 0, len(constants))
		for k := range constants {
			keys = append(keys, k)
		}
		sort.Strings(keys)
		for _, k := range keys {
			b.WriteString(" " + k + " = " + constants[k] + "\n")
		}
	}
	return b.String()
}

// runMC model-checks one MC_* module; a failed run is an infrastructure
// failure unless TLC reported an invariant violation, which is a defect of
// the specification itself (also exit 2: the design, not the code).
func (rc *RunCtx) runMC(module string, invariants []string, constants map[string]string, timeout time.Duration) *tlc.Result {
	res, err := tlc.Run(rc.Dir, module, cfgText(invariants, constants), runtime.NumCPU(), 12000, timeout)
	if err != nil {
		rc.infra("%v", err)
		return nil
	}
	rc.addInt("states", res.Distinct)
	rc.addInt("transitions", res.Generated)
	rc.addInt("mc_states", res.Distinct)
	if res.Failed {
		rc.infra("TLC %s failed: %s\n%s", module, res.ErrText, res.Tail(30))
		return nil
	}
	fmt.Printf("  MC %s: %d states, %.1fs\n", module, res.Distinct, res.Wall.Seconds())
	return res
}

func readNDJSON[T any](path string) ([]T, error) {
	f, err := os.Open(path)
	if err != nil {
		return nil, err
	}
	defer f.Close()
	var out []T
	sc := bufio.NewScanner(f)
	sc.Buffer(make([]byte, 1<<20), 1<<28)
	for sc.Scan() {
		if len(strings.TrimSpace(sc.Text())) == 0 {
			continue
		}
		var x T
		if err := json.Unmarshal(sc.Bytes(), &x); err != nil {
			return nil, fmt.Errorf("%s: %w", path, err)
		}
		out = append(out, x)
	}
	return out, sc.Err()
}

func writeNDJSON[T any](path string, rows []T) error {
	f, err := os.Create(path)
	if err != nil {
		return err
	}
	w := bufio.NewWriterSize(f, 1<<20)
	enc := json.NewEncoder(w)
	for _, r := range rows {
		if err := enc.Encode(r); err != nil {
			return err
		}
	}
	if err := w.Flush(); err != nil {
		return err
	}
	return f.Close()
}

// judgeShards runs a Trace_* module over record shards in parallel TLC
// processes. prep writes the shard's input files into its directory and
// returns the number of records. It returns the verdicts of all shards.
func (rc *RunCtx) judgeShards(module string, nShards int, prep func(shard int, dir string) (int, error), timeout time.Duration) []tlc.Verdict {
	type out struct {
		res *tlc.Result
		n   int
		err error
	}
	outs := make([]out, nShards)
	rc.judgeSeq++
	seq := rc.judgeSeq
	par := runtime.NumCPU()
	if par < 1 {
		par = 1
	}
	sem := make(chan struct{}, par)
	var wg sync.WaitGroup
	for s := 0; s < nShards; s++ {
		wg.Add(1)
		go func(s int) {
			defer wg.Done()
			sem <- struct{}{}
			defer func() { <-sem }()
			dir := filepath.Join(rc.Dir, fmt.Sprintf("%s-j%d-shard%d", module, seq, s))
			if err := os.MkdirAll(dir, 0o755); err != nil {
				outs[s].err = err
				return
			}
			if err := tlc.LinkSpec(rc.Dir, dir); err != nil {
				outs[s].err = err
				return
			}
			n, err := prep(s, dir)
			if err != nil {
				outs[s].err = err
				return
			}
			outs[s].n = n
			if n == 0 {
				return
			}
			outs[s].res, outs[s].err = tlc.Run(dir, module, cfgText(nil, nil), 1, 2500, timeout)
		}(s)
	}
	wg.Wait()
	var verdicts []tlc.Verdict
	for s, o := range outs {
		if o.err != nil {
			rc.infra("judge %s shard %d: %v", module, s, o.err)
			continue
		}
		if o.n == 0 {
			continue
		}
		if o.res.Failed {
			rc.infra("judge %s shard %d: TLC failed: %s\n%s", module, s, o.res.ErrText, o.res.Tail(25))
			continue
		}
		if o.res.Distinct != o.n {
			rc.infra("judge %s shard %d: %d records sent, %d judged", module, s, o.n, o.res.Distinct)
			continue
		}
		rc.addInt("states", o.res.Distinct)
		rc.addInt("transitions", o.res.Generated)
		rc.addInt("traces_validated_against_impl", o.n)
		if os.Getenv("VERIF_DEBUG") != "" {
			fmt.Printf("    shard %d: %d records %.1fs\n", s, o.n, o.res.Wall.Seconds())
		}
		verdicts = append(verdicts, o.res.Verdicts...)
	}
	return verdicts
}

func shardCount(n, per int) int {
	s := (n + per - 1) / per
	if s < 1 {
		s = 1
	}
	return s
}

// pathText renders a wire path through the real printer (for humans only).
func pathText(p wire.Path) (s string) {
	defer func() {
		if r := recover(); r != nil {
			s = fmt.Sprintf("<unprintable: %v>", r)
		}
	}()
	a, err := p.AST()
	if err != nil {
		return "<invalid: " + err.Error() + ">"
	}
	return a.String()
}

// mkdirLink creates a shard directory with the specification linked in.
func mkdirLink(base, dir string) error {
	if err := os.MkdirAll(dir, 0o755); err != nil {
		return err
	}
	return tlc.LinkSpec(base, dir)
}

func tlcRun(dir, module string, workers, heapMB int, timeout time.Duration) (*tlc.Result, error) {
	return tlc.Run(dir, module, cfgText(nil, nil), workers, heapMB, timeout)
}

func maxShow() int {
	if s := os.Getenv("VERIF_MAXSHOW"); s != "" {
		if n, err := strconv.Atoi(s); err == nil {
			return n
		}
	}
	return 25
}
