// Command vcheck runs one property check: TLC explores the property's
// universe on the specification, the real code is run on the same universe,
// and TLC judges every recorded observation. See /verif/DESIGN.md.
package main

import (
	"flag"
	"fmt"
	"os"
	"sort"
	"strconv"
	"time"

	"verif/harness/tlc"
)

type checkFn func(rc *RunCtx)

var checks = map[string]checkFn{}

func main() {
	tier := flag.String("tier", "", "quick or thorough")
	keep := flag.Bool("keep", false, "keep the scratch directory")
	flag.Parse()
	if flag.NArg() < 1 {
		ids := []string{}
		for k := range checks {
			ids = append(ids, k)
		}
		sort.Strings(ids)
		fmt.Fprintf(os.Stderr, "usage: vcheck [--tier quick|thorough] <id>   (ids: %v)\n", ids)
		os.Exit(2)
	}
	id := flag.Arg(0)
	if id == "eval" {
		os.Exit(evalCmd(flag.Args()[1:]))
	}
	if id == "selftest" {
		os.Exit(selftestCmd())
	}
	fn, ok := checks[id]
	if !ok {
		fmt.Fprintf(os.Stderr, "vcheck: unknown check %q\n", id)
		os.Exit(2)
	}
	t := *tier
	if t == "" {
		t = os.Getenv("VERIF_TIER")
	}
	if t != "thorough" {
		t = "quick"
	}
	seed := int64(1)
	if s := os.Getenv("VERIF_SEED"); s != "" {
		if v, err := strconv.ParseInt(s, 10, 64); err == nil {
			seed = v
		}
	}
	tlc.SpecDir = verifDir + "/spec"
	dir, err := tlc.Scratch(id)
	if err != nil {
		fmt.Fprintf(os.Stderr, "vcheck: %v\n", err)
		os.Exit(2)
	}
	rc := &RunCtx{ID: id, Tier: t, Seed: seed, Dir: dir, Start: time.Now(), Known: loadKnown()}
	rc.Ev = Evidence{PropertyID: id, Tier: t, Seed: seed, Level: "model_checking", Coverage: map[string]any{}}
	fn(rc)
	code := rc.finish()
	if !*keep {
		os.RemoveAll(dir)
	} else {
		fmt.Println("scratch:", dir)
	}
	os.Exit(code)
}
