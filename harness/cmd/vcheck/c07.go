package main

import "time"

func init() { checks["C07"] = checkC07 }

// C07: lax absorbs structural mismatches, strict reports each one.
func checkC07(rc *RunCtx) {
	consts := map[string]string{"MaxSteps": "2", "MaxNodes": "3"}
	if rc.Tier == "thorough" {
		consts = map[string]string{"MaxSteps": "3", "MaxNodes": "4"}
	}
	rc.Ev.Assumptions = []string{
		"the Go runner builds paths with the exported ast constructors and records outcomes faithfully",
		"TLC evaluates the specification correctly",
	}
	if rc.runMC("MC_C07", []string{"Inv"}, consts, 30*time.Minute) == nil {
		return
	}
	u, err := rc.loadMCUniverse()
	if err != nil {
		rc.infra("universe: %v", err)
		return
	}
	u.cross([]bool{true, false})
	rc.cov("exhaustive", true)
	rc.cov("rule", "all accessor/filter chains up to MaxSteps over the 16-step alphabet x all JSON trees up to MaxNodes nodes (plus arrays with an ill-shaped element at each position) x {lax, strict}; a case is non-trivial when the path has at least one step")
	rc.cov("universe", map[string]any{"paths": len(u.Paths), "docs": len(u.Docs), "constants": consts})
	rc.execFamily(u, "C07", "C01")
}
