package main

import "time"

var stdAssumptions = []string{
	"the Go runner builds paths with the exported ast constructors and records outcomes faithfully",
	"TLC evaluates the specification correctly; strconv is trusted for json.Number decimal->binary conversion",
	"object member order: every permutation the specification enumerates is accepted",
}

// mcExecCheck is the common shape of the exec-family checks: model-check
// the MC module (universe + law on the specification), replay the exported
// universe on the real code, judge every observation with Trace_Exec.
func mcExecCheck(rc *RunCtx, module string, quick, thorough map[string]string, rule string, jnum bool, prefixes ...string) {
	consts := quick
	if rc.Tier == "thorough" {
		consts = thorough
	}
	rc.Ev.Assumptions = stdAssumptions
	if rc.runMC(module, []string{"Inv"}, consts, 60*time.Minute) == nil {
		return
	}
	u, err := rc.loadMCUniverse()
	if err != nil {
		rc.infra("universe: %v", err)
		return
	}
	nd := len(u.Docs)
	u.cross([]bool{true, false})
	if jnum {
		m := u.addJNumDocs()
		for pi := range u.Paths {
			for di := 1; di <= nd; di++ {
				if j := m[di]; j != 0 {
					for _, lax := range []bool{true, false} {
						u.Cases = append(u.Cases, CaseRef{PI: pi + 1, DI: j, VI: 1, Lax: lax, Zone: "UTC"})
					}
				}
			}
		}
	}
	rc.cov("exhaustive", true)
	rc.cov("rule", rule)
	rc.cov("universe", map[string]any{"paths": len(u.Paths), "docs": len(u.Docs), "cases": len(u.Cases), "constants": consts})
	rc.execFamily(u, prefixes...)
}

func init() {
	checks["C07"] = func(rc *RunCtx) {
		mcExecCheck(rc, "MC_C07",
			map[string]string{"MaxSteps": "2", "MaxNodes": "3"},
			map[string]string{"MaxSteps": "3", "MaxNodes": "3"}, // (3, 4) is 12M cases: 50 minutes and 31 GB (measured)
			"all accessor/filter chains up to MaxSteps over the 16-step alphabet x all JSON trees up to MaxNodes nodes (plus arrays with an ill-shaped element at each position) x {lax, strict}; distinct cases = distinct (path, document, mode) triples, all non-trivial except the bare $ path",
			false, "C07", "C01", "C06") // C06: what Exists / First / Match say about the same path is part of what the accessors select
	}
	checks["C14"] = func(rc *RunCtx) {
		mcExecCheck(rc, "MC_C14",
			map[string]string{"MaxLen": "3", "Wide": "FALSE"},
			map[string]string{"MaxLen": "4", "Wide": "TRUE"},
			"all arrays of length 0..MaxLen over {null, 1, \"x\", [2], {\"a\":1}} plus non-arrays x subscript lists from abstract bounds (integers and halves from -2..6, last, last-1, last+1, ranges of every pair, lists, non-numeric / multi-valued / out-of-int32 / missing bounds, nested subscripts) x {lax, strict} x {float64, json.Number} documents",
			true, "C14", "C01", "C06")
	}
	checks["C15"] = func(rc *RunCtx) {
		mcExecCheck(rc, "MC_C15",
			map[string]string{"MaxNodes": "4", "MaxLevel": "3"},
			map[string]string{"MaxNodes": "5", "MaxLevel": "4"},
			"all JSON trees up to MaxNodes nodes over {1, \"x\"} with keys {a, b} (empty arrays and objects at every position) x {.*, [*], .**, .**{k}, .**{a to b}, .**{last}, .**{a to last}} for levels 0..MaxLevel, alone and followed by .a / .* x {lax, strict}",
			false, "C15", "C01", "C06")
	}
}
