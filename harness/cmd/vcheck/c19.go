package main

import (
	"encoding/json"
	"fmt"
	"os"
	"os/exec"
	"path/filepath"
	"runtime"
	"sort"
	"strings"
	"time"

	"verif/harness/tlc"
	"verif/harness/wire"
)

// tables of the C19 driver (cmd/objdrv writes them)
type objCall struct {
	PI     int    `json:"pi"`
	DI     int    `json:"di"`
	VI     int    `json:"vi"`
	Lax    bool   `json:"lax"`
	Silent bool   `json:"silent"`
	UseTZ  bool   `json:"useTZ"`
	Zone   string `json:"zone"`
	Entry  string `json:"entry"`
	Solo   int    `json:"solo"`
}
type objOut struct {
	ID   int           `json:"id"`
	Call int           `json:"call"`
	O    wire.EntryObs `json:"o"`
	Txt  []int         `json:"txt"`
}
type objEvent struct {
	G    int    `json:"g"`
	Ev   string `json:"ev"`
	Call int    `json:"call"`
	Out  int    `json:"out"`
}
type objPool struct {
	Paths      []PathRow    `json:"paths"`
	Docs       []wire.Value `json:"docs"`
	Vars       [][]wire.Var `json:"vars"`
	Cases      []CaseRef    `json:"cases"`
	Seed       int64        `json:"seed"`
	Goroutines int          `json:"goroutines"`
	PerG       int          `json:"perG"`
	History    int          `json:"history"`
}

func objCfg(ng, nc int, hazard string, props bool) string {
	s := fmt.Sprintf("SPECIFICATION Spec\nCONSTANTS\n NG = %d\n NC = %d\n Hazard = \"%s\"\n Calls <- MCCalls\nINVARIANT RetSolo\nCHECK_DEADLOCK FALSE\n", ng, nc, hazard)
	if props {
		s += "INVARIANT Progress\nPROPERTY ObjImmutable\n"
	}
	return s
}

// objModel model-checks spec/PathObject.tla: the faithful design must satisfy
// RetSolo / ObjImmutable, the two hazard designs must not.
func (rc *RunCtx) objModel() bool {
	type cfg struct {
		ng, nc int
		hazard string
		expect bool // TLC must find RetSolo violated
	}
	cfgs := []cfg{{2, 2, "none", false}, {2, 1, "shared-size", true}, {1, 2, "memo-last", true}, {1, 2, "shared-size", false}}
	if rc.Tier == "thorough" {
		cfgs = append(cfgs, cfg{3, 1, "none", false}, cfg{2, 3, "none", false})
	}
	for i, c := range cfgs {
		dir := filepath.Join(rc.Dir, fmt.Sprintf("obj-mc%d", i))
		if err := mkdirLink(rc.Dir, dir); err != nil {
			rc.infra("%v", err)
			return false
		}
		res, err := tlc.Run(dir, "MC_C19", objCfg(c.ng, c.nc, c.hazard, c.hazard == "none"), runtime.NumCPU(), 12000, 60*time.Minute)
		if err != nil {
			rc.infra("%v", err)
			return false
		}
		rc.addInt("states", res.Distinct)
		rc.addInt("transitions", res.Generated)
		rc.addInt("mc_states", res.Distinct)
		violated := strings.Contains(res.Output, "Invariant RetSolo is violated")
		switch {
		case c.expect && !violated:
			rc.infra("MC_C19 with Hazard=%s (%d goroutines x %d calls): TLC found no violation of RetSolo; the model is vacuous\n%s", c.hazard, c.ng, c.nc, res.Tail(15))
			return false
		case !c.expect && res.Failed:
			rc.infra("MC_C19 with Hazard=%s (%d goroutines x %d calls) failed: %s\n%s", c.hazard, c.ng, c.nc, res.ErrText, res.Tail(30))
			return false
		}
		fmt.Printf("  MC MC_C19 %dx%d hazard=%s: %d states, %.1fs%s\n", c.ng, c.nc, c.hazard, res.Distinct, res.Wall.Seconds(),
			map[bool]string{true: " (counterexample found, as required)", false: ""}[c.expect])
		if i == 0 {
			// the exported pool
			for _, f := range []string{"paths.ndjson", "docs.ndjson", "vars.ndjson"} {
				b, err := os.ReadFile(filepath.Join(dir, f))
				if err != nil {
					rc.infra("%v", err)
					return false
				}
				_ = os.WriteFile(filepath.Join(rc.Dir, f), b, 0o644)
			}
		}
	}
	return true
}

// raceReports extracts the data race reports of the detector that involve the library.
func raceReports(dir string) []string {
	var out []string
	files, _ := filepath.Glob(filepath.Join(dir, "race.*"))
	for _, f := range files {
		b, err := os.ReadFile(f)
		if err != nil {
			continue
		}
		for _, blk := range strings.Split(string(b), "==================") {
			if strings.Contains(blk, "DATA RACE") {
				out = append(out, strings.TrimSpace(blk))
			}
		}
	}
	return out
}

type objRun struct {
	calls  []objCall
	outs   []objOut
	events []objEvent
	races  []string
	dir    string
}

func (rc *RunCtx) objDrive(u *ExecUniverse, bin string, seed int64, g, perG, hist int, tag string) *objRun {
	dir := filepath.Join(rc.Dir, "obj-"+tag)
	if err := os.MkdirAll(dir, 0o755); err != nil {
		rc.infra("%v", err)
		return nil
	}
	pool := objPool{Paths: u.Paths, Cases: u.Cases, Seed: seed, Goroutines: g, PerG: perG, History: hist}
	for _, d := range u.Docs {
		pool.Docs = append(pool.Docs, d.Doc)
	}
	for _, v := range u.Vars {
		pool.Vars = append(pool.Vars, v.Vars)
	}
	b, _ := json.Marshal(pool)
	if err := os.WriteFile(filepath.Join(dir, "pool.json"), b, 0o644); err != nil {
		rc.infra("%v", err)
		return nil
	}
	cmd := exec.Command(bin, filepath.Join(dir, "pool.json"), dir)
	cmd.Env = append(os.Environ(), "GORACE=log_path="+filepath.Join(dir, "race")+" halt_on_error=0 exitcode=0 history_size=3")
	outb, err := cmd.CombinedOutput()
	if err != nil {
		// The Go runtime aborts the process on unsynchronised map access (it is
		// not a panic and cannot be recovered): when the stack shows the library,
		// that is a data race demonstrated on the real code, not a driver failure.
		out := string(outb)
		if i := strings.Index(out, "fatal error:"); i >= 0 && strings.Contains(out[i:], "theory/sqljson") {
			human := "the Go runtime aborted the driver: " + firstLines(out[i:], 16)
			rc.Viol = append(rc.Viol, Violation{Clause: "C19.data-race", Sig: "C19.data-race | " + firstLines(out[i:], 1), Human: human,
				Replay: map[string]any{"runtime_abort": firstLines(out[i:], 60)}})
			rc.abortedByRace = true
			return nil
		}
		rc.infra("objdrv: %v\n%s", err, out)
		return nil
	}
	r := &objRun{dir: dir}
	if r.calls, err = readNDJSON[objCall](filepath.Join(dir, "calls.ndjson")); err != nil {
		rc.infra("%v", err)
		return nil
	}
	if r.outs, err = readNDJSON[objOut](filepath.Join(dir, "outs.ndjson")); err != nil {
		rc.infra("%v", err)
		return nil
	}
	if r.events, err = readNDJSON[objEvent](filepath.Join(dir, "events.ndjson")); err != nil {
		rc.infra("%v", err)
		return nil
	}
	for _, rep := range raceReports(dir) {
		if strings.Contains(rep, "theory/sqljson") || strings.Contains(rep, "/repo/") {
			r.races = append(r.races, rep)
			r.events = append(r.events, objEvent{G: 0, Ev: "race", Call: len(r.races)})
		} else {
			rc.infra("the race detector reported a race outside the library (driver defect):\n%s", rep)
		}
	}
	return r
}

// objJudge: Trace_ObjectOuts on every distinct outcome (sharded), Trace_Object on the history.
func (rc *RunCtx) objJudge(u *ExecUniverse, r *objRun) (outV map[int][]string, evV map[int][]string) {
	tables := func(dir string) error {
		if err := writeNDJSON(filepath.Join(dir, "paths.ndjson"), u.Paths); err != nil {
			return err
		}
		if err := writeNDJSON(filepath.Join(dir, "docs.ndjson"), u.Docs); err != nil {
			return err
		}
		if err := writeNDJSON(filepath.Join(dir, "vars.ndjson"), u.Vars); err != nil {
			return err
		}
		return writeNDJSON(filepath.Join(dir, "calls.ndjson"), r.calls)
	}
	n := shardCount(len(r.outs), 150)
	vs := rc.judgeShards("Trace_ObjectOuts", n, func(s int, dir string) (int, error) {
		part := []objOut{}
		for i := s; i < len(r.outs); i += n {
			part = append(part, r.outs[i])
		}
		if err := tables(dir); err != nil {
			return 0, err
		}
		return len(part), writeNDJSON(filepath.Join(dir, "outs.ndjson"), part)
	}, 30*time.Minute)
	outV = map[int][]string{}
	for _, v := range vs {
		outV[v.ID] = append(outV[v.ID], v.Clauses...)
	}
	evV = map[int][]string{}
	dir := filepath.Join(rc.Dir, fmt.Sprintf("obj-hist%d", rc.judgeSeq))
	rc.judgeSeq++
	if err := mkdirLink(rc.Dir, dir); err != nil {
		rc.infra("%v", err)
		return
	}
	if err := tables(dir); err != nil {
		rc.infra("%v", err)
		return
	}
	if err := writeNDJSON(filepath.Join(dir, "outs.ndjson"), r.outs); err != nil {
		rc.infra("%v", err)
		return
	}
	if err := writeNDJSON(filepath.Join(dir, "events.ndjson"), r.events); err != nil {
		rc.infra("%v", err)
		return
	}
	res, err := tlc.Run(dir, "Trace_Object", cfgText(nil, nil), 1, 8000, 60*time.Minute)
	if err != nil {
		rc.infra("%v", err)
		return
	}
	// acceptance: one state per consumed event plus the initial state
	if res.Failed || res.Distinct != len(r.events)+1 {
		rc.infra("Trace_Object: %s; %d events, %d states\n%s", res.ErrText, len(r.events), res.Distinct, res.Tail(20))
		return
	}
	rc.addInt("states", res.Distinct)
	rc.addInt("transitions", res.Generated)
	rc.addInt("traces_validated_against_impl", 1)
	rc.addInt("history_events_validated", len(r.events))
	for _, v := range res.Verdicts {
		evV[v.ID] = append(evV[v.ID], v.Clauses...)
	}
	return
}

func init() {
	checks["C19"] = func(rc *RunCtx) {
		rc.Ev.Assumptions = append([]string{
			"the Go race detector reports only real races (no false positives) and sees the accesses of the schedules that occur",
			"the driver's global sequence number (taken before a call starts and after it ends) orders events consistently with real time",
		}, stdAssumptions...)
		if !rc.objModel() {
			return
		}
		u, err := rc.loadMCUniverse()
		if err != nil {
			rc.infra("universe: %v", err)
			return
		}
		for pi := range u.Paths {
			for di := range u.Docs {
				for _, lax := range []bool{true, false} {
					// datetime paths also under WithTZ in a zone
					u.Cases = append(u.Cases, CaseRef{PI: pi + 1, DI: di + 1, VI: 1, Lax: lax, Zone: "UTC"})
				}
			}
		}
		bin := filepath.Join(rc.Dir, "objdrv")
		build := exec.Command("go", "build", "-race", "-o", bin, "./cmd/objdrv")
		build.Dir = filepath.Join(verifDir, "harness")
		build.Env = append(os.Environ(), "GOPROXY=off", "GOSUMDB=off", "GOTOOLCHAIN=local")
		if os.Getenv("GOFLAGS") == "" {
			build.Env = append(build.Env, "GOFLAGS=-mod=mod")
		}
		if outb, err := build.CombinedOutput(); err != nil {
			rc.infra("building the driver with -race: %v\n%s", err, string(outb))
			return
		}
		g, perG, hist, rounds := 8, 400, 600, 1
		if rc.Tier == "thorough" {
			g, perG, hist, rounds = 16, 4000, 6000, 4
		}
		rc.cov("exhaustive", false)
		rc.cov("rule", fmt.Sprintf("model: every interleaving of executor steps of 2 goroutines x 2 calls (thorough also 3 x 1 and 2 x 3) over 8 calls of the chain fragment, hazard designs must fail; real code: %d paths (every node kind, datetime, keyvalue ids, regex, variables) x %d shared documents x {lax, strict} x {verbose, silent} x {Query, First, Exists, Match, ExistsOrMatch, String, Parse(String)}: each call alone on a fresh Path, then %d goroutines x %d seeded random calls on SHARED Path objects / documents / variable maps under the race detector, then a sequential history of %d calls each repeated twice; %d round(s) with different seeds", len(u.Paths), len(u.Docs), g, perG, hist, rounds))
		for round := 0; round < rounds; round++ {
			r := rc.objDrive(u, bin, rc.Seed+int64(round), g, perG, hist, fmt.Sprintf("r%d", round))
			if r == nil {
				return
			}
			rc.addInt("evaluations", len(r.events)/2+len(r.calls))
			outV, evV := rc.objJudge(u, r)
			fmt.Printf("  round %d: %d calls, %d distinct outcomes, %d events, %d race reports; %d outcomes and %d events with remarks\n",
				round, len(r.calls), len(r.outs), len(r.events), len(r.races), len(outV), len(evV))
			callHuman := func(k int) string {
				c := r.calls[k-1]
				return fmt.Sprintf("%s entry=%s silent=%v", u.human(CaseRef{PI: c.PI, DI: c.DI, VI: c.VI, Lax: c.Lax, UseTZ: c.UseTZ, Zone: c.Zone}), c.Entry, c.Silent) + fmt.Sprintf(" lax=%v", c.Lax)
			}
			showOut := func(id int) string {
				o := r.outs[id-1]
				return showEntry(o.O) + " text=" + wire.Str(o.Txt)
			}
			skipped := 0
			ids := []int{}
			for id := range outV {
				ids = append(ids, id)
			}
			sort.Ints(ids)
			for _, id := range ids {
				for _, cl := range outV[id] {
					if strings.HasPrefix(cl, "skip.") || strings.HasPrefix(cl, "bag.") {
						skipped++
						continue
					}
					o := r.outs[id-1]
					human := callHuman(o.Call) + " returned " + showOut(id)
					if id == r.calls[o.Call-1].Solo {
						human += " (alone, on a fresh Path)"
					} else {
						human += " (on the shared Path; alone it returned " + showOut(r.calls[o.Call-1].Solo) + ")"
					}
					rc.Viol = append(rc.Viol, Violation{Clause: cl, Sig: cl + " | " + human, Human: human, Replay: map[string]any{"call": r.calls[o.Call-1], "outcome": o}})
				}
			}
			rc.addInt("outcomes_not_decided_opaque", skipped)
			eids := []int{}
			for id := range evV {
				eids = append(eids, id)
			}
			sort.Ints(eids)
			for _, l := range eids {
				e := r.events[l-1]
				for _, cl := range evV[l] {
					var human string
					var replay any
					switch e.Ev {
					case "race":
						human = "the race detector reported: " + firstLines(r.races[e.Call-1], 14)
						replay = map[string]any{"race_report": r.races[e.Call-1]}
					case "mut":
						human = fmt.Sprintf("shared document / variable map %d differs from its pristine copy after the run", e.Call)
						replay = e
					default:
						human = fmt.Sprintf("event %d goroutine %d %s: %s returned %s; alone it returned %s", l, e.G, e.Ev, callHuman(e.Call), showOut(e.Out), showOut(r.calls[e.Call-1].Solo))
						lo := l - 6
						if lo < 1 {
							lo = 1
						}
						replay = map[string]any{"call": r.calls[e.Call-1], "outcome": r.outs[e.Out-1], "solo": r.outs[r.calls[e.Call-1].Solo-1], "events_before": r.events[lo-1 : l]}
					}
					rc.Viol = append(rc.Viol, Violation{Clause: cl, Sig: cl + " | " + human, Human: human, Replay: replay})
				}
			}
			if round == 0 {
				for i := 0; i < 3 && i < len(r.events); i++ {
					e := r.events[i*(len(r.events)/3)]
					if e.Ev == "inv" || e.Ev == "ret" {
						rc.sample(map[string]any{"goroutine": e.G, "event": e.Ev, "call": callHuman(e.Call)})
					}
				}
			}
		}
	}
}

func firstLines(s string, n int) string {
	lines := strings.Split(s, "\n")
	if len(lines) > n {
		lines = lines[:n]
	}
	return strings.Join(lines, " | ")
}
