package main

import (
	"encoding/json"
	"fmt"
	"os"
	"path/filepath"
	"reflect"
	"runtime"
	"sort"
	"strings"
	"sync"
	"time"

	"verif/harness/run"
	"verif/harness/tlc"
	"verif/harness/wire"
)

// Tables of the exec family.
type PathRow struct {
	Pred  bool        `json:"pred"`
	Chain []wire.Node `json:"chain"`
}
type DocRow struct {
	Doc wire.Value `json:"doc"`
}
type VarsRow struct {
	Vars []wire.Var `json:"vars"`
}

// CaseRef is one case as indices into the tables (1-based, as TLC sees them).
type CaseRef struct {
	PI, DI, VI int
	Lax        bool
	UseTZ      bool
	Zone       string
}

// ExecUniverse is a set of cases over shared tables.
type ExecUniverse struct {
	Paths []PathRow
	Docs  []DocRow
	Vars  []VarsRow
	Cases []CaseRef
}

// ObsRow is one observation record as the Trace_Exec module reads it.
type ObsRow struct {
	ID    int         `json:"id"`
	PI    int         `json:"pi"`
	DI    int         `json:"di"`
	VI    int         `json:"vi"`
	Lax   bool        `json:"lax"`
	UseTZ bool        `json:"useTZ"`
	Zone  string      `json:"zone"`
	SS    bool        `json:"ss"` // the silent run observed exactly what the verbose run did
	V     wire.RunObs `json:"v"`
	S     wire.RunObs `json:"s"`
}

// MarshalJSON omits the silent run when it equals the verbose one.
func (o ObsRow) MarshalJSON() ([]byte, error) {
	type plain ObsRow
	if o.SS {
		return json.Marshal(struct {
			ID    int         `json:"id"`
			PI    int         `json:"pi"`
			DI    int         `json:"di"`
			VI    int         `json:"vi"`
			Lax   bool        `json:"lax"`
			UseTZ bool        `json:"useTZ"`
			Zone  string      `json:"zone"`
			SS    bool        `json:"ss"`
			V     wire.RunObs `json:"v"`
		}{o.ID, o.PI, o.DI, o.VI, o.Lax, o.UseTZ, o.Zone, true, o.V})
	}
	return json.Marshal(plain(o))
}

func (u *ExecUniverse) caseOf(r CaseRef) wire.Case {
	z := r.Zone
	if z == "" {
		z = "UTC"
	}
	return wire.Case{
		Path:  wire.Path{Lax: r.Lax, Pred: u.Paths[r.PI-1].Pred, Chain: u.Paths[r.PI-1].Chain},
		Doc:   u.Docs[r.DI-1].Doc,
		Vars:  u.Vars[r.VI-1].Vars,
		UseTZ: r.UseTZ, Zone: z,
	}
}

// loadMCUniverse reads the tables an MC_* run exported.
func (rc *RunCtx) loadMCUniverse() (*ExecUniverse, error) {
	paths, err := readNDJSON[PathRow](filepath.Join(rc.Dir, "paths.ndjson"))
	if err != nil {
		return nil, err
	}
	docs, err := readNDJSON[DocRow](filepath.Join(rc.Dir, "docs.ndjson"))
	if err != nil {
		return nil, err
	}
	u := &ExecUniverse{Paths: paths, Docs: docs, Vars: []VarsRow{{Vars: []wire.Var{}}}}
	if vars, err := readNDJSON[VarsRow](filepath.Join(rc.Dir, "vars.ndjson")); err == nil && len(vars) > 0 {
		u.Vars = vars
	}
	return u, nil
}

// cross adds the cross product paths x docs x modes (vars row 1).
func (u *ExecUniverse) cross(modes []bool) {
	for pi := range u.Paths {
		for di := range u.Docs {
			for _, lax := range modes {
				u.Cases = append(u.Cases, CaseRef{PI: pi + 1, DI: di + 1, VI: 1, Lax: lax, Zone: "UTC"})
			}
		}
	}
}

// addJNumDocs appends, for every document that contains a float64 number,
// its json.Number spelling, and returns the index map old -> new (0 = none).
func (u *ExecUniverse) addJNumDocs() map[int]int {
	m := map[int]int{}
	n := len(u.Docs)
	for i := 0; i < n; i++ {
		j := u.Docs[i].Doc.AsJNum()
		if !reflect.DeepEqual(j, u.Docs[i].Doc) {
			u.Docs = append(u.Docs, DocRow{Doc: j})
			m[i+1] = len(u.Docs)
		}
	}
	return m
}

// observeAll runs the real code on every case.
func (u *ExecUniverse) observeAll() ([]ObsRow, error) {
	rows := make([]ObsRow, len(u.Cases))
	errs := make([]error, runtime.NumCPU())
	var wg sync.WaitGroup
	nw := runtime.NumCPU()
	for w := 0; w < nw; w++ {
		wg.Add(1)
		go func(w int) {
			defer wg.Done()
			for i := w; i < len(u.Cases); i += nw {
				r := u.Cases[i]
				rec, err := run.ObserveCase(i+1, u.caseOf(r))
				if err != nil {
					errs[w] = fmt.Errorf("case %d: %w", i+1, err)
					return
				}
				z := r.Zone
				if z == "" {
					z = "UTC"
				}
				rows[i] = ObsRow{ID: i + 1, PI: r.PI, DI: r.DI, VI: r.VI, Lax: r.Lax, UseTZ: r.UseTZ, Zone: z, V: rec.V, S: rec.S,
					SS: normObs(rec.V) == normObs(rec.S)}
			}
		}(w)
	}
	wg.Wait()
	for _, e := range errs {
		if e != nil {
			return nil, e
		}
	}
	return rows, nil
}

const shardSize = 6000

// judgeExec sends every observation through Trace_Exec and returns the
// verdicts keyed by record id.
func (rc *RunCtx) judgeExec(u *ExecUniverse, rows []ObsRow) map[int][]string {
	n := shardCount(len(rows), shardSize)
	verdicts := rc.judgeShards("Trace_Exec", n, func(s int, dir string) (int, error) {
		part := make([]ObsRow, 0, shardSize)
		for i := s; i < len(rows); i += n { // round robin: expensive records spread evenly
			part = append(part, rows[i])
		}
		if err := writeNDJSON(filepath.Join(dir, "paths.ndjson"), u.Paths); err != nil {
			return 0, err
		}
		if err := writeNDJSON(filepath.Join(dir, "docs.ndjson"), u.Docs); err != nil {
			return 0, err
		}
		if err := writeNDJSON(filepath.Join(dir, "vars.ndjson"), u.Vars); err != nil {
			return 0, err
		}
		return len(part), writeNDJSON(filepath.Join(dir, "obs.ndjson"), part)
	}, 20*time.Minute)
	out := map[int][]string{}
	for _, v := range verdicts {
		out[v.ID] = append(out[v.ID], v.Clauses...)
	}
	return out
}

func showItems(xs []wire.Value) string {
	parts := make([]string, len(xs))
	for i, x := range xs {
		parts[i] = x.Show()
	}
	return "[" + strings.Join(parts, ",") + "]"
}

func showEntry(e wire.EntryObs) string {
	return fmt.Sprintf("%s val=%v err=%s", showItems(e.Items), e.Val, e.Err.Cls)
}

func showRun(o wire.RunObs) map[string]string {
	return map[string]string{"query": showEntry(o.Query), "first": showEntry(o.First), "exists": showEntry(o.Exists),
		"match": showEntry(o.Match), "eom": showEntry(o.EOM)}
}

func (u *ExecUniverse) human(r CaseRef) string {
	c := u.caseOf(r)
	s := fmt.Sprintf("path=%q doc=%s", pathText(c.Path), c.Doc.Show())
	if len(c.Vars) > 0 {
		vs := []string{}
		for _, v := range c.Vars {
			vs = append(vs, wire.Str(v.K)+"="+v.V.Show())
		}
		s += " vars={" + strings.Join(vs, ",") + "}"
	}
	if c.UseTZ {
		s += " tz"
	}
	if c.Zone != "UTC" {
		s += " zone=" + c.Zone
	}
	return s
}

// execFamily is the whole conformance pass for one universe: observe, judge,
// and for every rejection whose clause belongs to this check observe again
// and let TLC judge the second observation too; only rejections confirmed
// that way are reported.
func (rc *RunCtx) execFamily(u *ExecUniverse, prefixes ...string) {
	if also := os.Getenv("VERIF_ALSO"); also != "" { // developer aid: report another property's clauses too
		prefixes = append(prefixes, strings.Split(also, ",")...)
	}
	t0 := time.Now()
	rows, err := u.observeAll()
	if err != nil {
		rc.infra("runner: %v", err)
		return
	}
	fmt.Printf("  observed %d cases in %.1fs\n", len(rows), time.Since(t0).Seconds())
	rc.addInt("evaluations", len(rows))
	t1 := time.Now()
	verdicts := rc.judgeExec(u, rows)
	fmt.Printf("  judged in %.1fs, %d records with remarks\n", time.Since(t1).Seconds(), len(verdicts))
	other := map[string]int{}
	skipped, bag := 0, 0
	type rej struct {
		id  int
		cl  string
		dev string
	}
	var rejs []rej
	for id, clauses := range verdicts {
		for _, cl := range clauses {
			switch {
			case strings.HasPrefix(cl, "skip."):
				skipped++
				if os.Getenv("VERIF_SHOWSKIP") != "" && skipped <= 40 {
					fmt.Printf("  SKIP %s %s\n", cl, u.human(u.Cases[id-1]))
				}
				continue
			case strings.HasPrefix(cl, "bag."):
				bag++
				continue
			}
			// "known.<deviation>.<clause>": the observation is explained by a
			// named deviation of the specification; whether that is a known
			// finding is decided by /verif/known-findings.jsonl, not here.
			dev := ""
			if strings.HasPrefix(cl, "known.") {
				parts := strings.SplitN(cl, ".", 3)
				if len(parts) == 3 {
					dev, cl = parts[1], parts[2]
				}
			}
			mine := false
			for _, p := range prefixes {
				if strings.HasPrefix(cl, p+".") {
					mine = true
				}
			}
			// a call that panicked, returned ErrInvalid or an unclassified error did
			// not return what this property (whichever it is) says it returns
			for _, p := range []string{"C05.panic.", "C05.invalid.", "C05.unclassified."} {
				if strings.HasPrefix(cl, p) {
					mine = true
				}
			}
			if !mine {
				other[strings.SplitN(cl, ".", 2)[0]]++
				continue
			}
			rejs = append(rejs, rej{id, cl, dev})
		}
	}
	sort.Slice(rejs, func(i, j int) bool {
		if (rejs[i].dev == "") != (rejs[j].dev == "") {
			return rejs[i].dev == "" // unexplained rejections are confirmed first
		}
		return rejs[i].id < rejs[j].id || (rejs[i].id == rejs[j].id && rejs[i].cl < rejs[j].cl)
	})
	extra := 0
	if len(rejs) > maxConfirm {
		extra = len(rejs) - maxConfirm
		rejs = rejs[:maxConfirm]
	}
	pending := rejs
	for try := 0; try < confirmTries && len(pending) > 0; try++ {
		sub := &ExecUniverse{Paths: u.Paths, Docs: u.Docs, Vars: u.Vars}
		idx := map[int]int{}
		for _, r := range pending {
			if _, ok := idx[r.id]; !ok {
				sub.Cases = append(sub.Cases, u.Cases[r.id-1])
				idx[r.id] = len(sub.Cases)
			}
		}
		rows2, err := sub.observeAll()
		if err != nil {
			rc.infra("re-execution: %v", err)
			return
		}
		v2 := rc.judgeExec(sub, rows2)
		var still []rej
		for _, r := range pending {
			want := r.cl
			if r.dev != "" {
				want = "known." + r.dev + "." + r.cl
			}
			confirmed := false
			for _, c := range v2[idx[r.id]] {
				if c == want {
					confirmed = true
				}
			}
			if !confirmed {
				still = append(still, r)
				continue
			}
			ref, row := u.Cases[r.id-1], rows[r.id-1]
			human := u.human(ref) + fmt.Sprintf(" lax=%v", ref.Lax)
			b, _ := json.Marshal(map[string]any{"verbose": showRun(row.V), "silent": showRun(row.S)})
			sig := r.cl + " | " + human
			if r.dev != "" {
				sig = "dev:" + r.dev
			}
			rc.Viol = append(rc.Viol, Violation{
				Clause: r.cl,
				Sig:    sig,
				Human:  human + " observed=" + string(b),
				Replay: map[string]any{"case": u.caseOf(ref), "obs": row},
			})
		}
		pending = still
	}
	for _, r := range pending {
		ref := u.Cases[r.id-1]
		rc.unreproduced("record %d (%s lax=%v) rejected with %s", r.id, u.human(ref), ref.Lax, r.cl)
	}
	if extra > 0 {
		rc.Notes = append(rc.Notes, fmt.Sprintf("%d further rejections were not re-executed (cap %d)", extra, maxConfirm))
	}
	rc.addInt("records_not_decided_opaque", skipped)
	rc.addInt("records_judged_as_multiset", bag)
	if len(other) > 0 {
		cur, _ := rc.Ev.Coverage["clauses_of_other_properties"].(map[string]int)
		if cur == nil {
			cur = map[string]int{}
		}
		for k, v := range other {
			cur[k] += v
		}
		rc.cov("clauses_of_other_properties", cur)
	}
	for i := 0; i < len(rows) && i < 3; i++ {
		k := i * (len(rows) / 3)
		if k >= len(rows) {
			k = len(rows) - 1
		}
		rc.sample(map[string]any{"case": u.human(u.Cases[k]) + fmt.Sprintf(" lax=%v", u.Cases[k].Lax),
			"verbose": showRun(rows[k].V), "silent": showRun(rows[k].S)})
	}
}

// reproduces re-runs a case and compares with the recorded observation.
// When objects with several members are in play the order of items may
// differ between runs, so item lists are compared as multisets and First's
// item is ignored.
func (rc *RunCtx) reproduces(u *ExecUniverse, ref CaseRef, row ObsRow) bool {
	c := u.caseOf(ref)
	loose := multiMember(c.Doc) || strings.Contains(pathText(c.Path), "keyvalue")
	for _, v := range c.Vars {
		loose = loose || multiMember(v.V)
	}
	tries := 4
	if loose {
		tries = 40
	}
	for try := 0; try < tries; try++ {
		rec, err := run.ObserveCase(row.ID, c)
		if err != nil {
			return false
		}
		if normObs(rec.V, loose) == normObs(row.V, loose) && normObs(rec.S, loose) == normObs(row.S, loose) {
			return true
		}
	}
	return false
}

func multiMember(v wire.Value) bool {
	switch v.T {
	case "arr":
		for _, x := range v.A {
			if multiMember(x) {
				return true
			}
		}
	case "obj":
		if len(v.O) >= 2 {
			return true
		}
		for _, m := range v.O {
			if multiMember(m.V) {
				return true
			}
		}
	}
	return false
}

// scrubIDs blanks address-derived keyvalue ids (they differ between runs on
// different copies of a document).
func scrubIDs(xs []wire.Value) []wire.Value {
	out := make([]wire.Value, len(xs))
	for i, x := range xs {
		out[i] = scrubID(x)
	}
	return out
}

func scrubID(v wire.Value) wire.Value {
	switch v.T {
	case "num":
		if v.Rep == "i" && len(v.N.M) >= 1 {
			if i, ok := v.N.Int64(); ok && (i > 4096 || i < -4096) {
				return wire.Int(0)
			}
		}
	case "arr":
		return wire.Value{T: "arr", A: scrubIDs(v.A)}
	case "obj":
		o := make([]wire.Member, len(v.O))
		for i, m := range v.O {
			o[i] = wire.Member{K: m.K, V: scrubID(m.V)}
		}
		return wire.Value{T: "obj", O: o}
	}
	return v
}

func normObs(o wire.RunObs, loose ...bool) string {
	o.Polls = 0
	if len(loose) > 0 && loose[0] {
		o.Query.Items = scrubIDs(o.Query.Items)
		items := make([]string, len(o.Query.Items))
		for i, x := range o.Query.Items {
			b, _ := json.Marshal(x)
			items[i] = string(b)
		}
		sort.Strings(items)
		o.Query.Items = nil
		o.First.Items = nil
		b, _ := json.Marshal(o)
		return string(b) + strings.Join(items, ",")
	}
	b, _ := json.Marshal(o)
	return string(b)
}

var _ = tlc.SpecDir
