package main

import (
	"fmt"
	"math/big"
	"path/filepath"
	"regexp"
	"strings"
	"time"

	"verif/harness/run"
	"verif/harness/wire"
)

type corpusRow struct {
	V wire.Value `json:"v"`
}

// slot is one concrete corpus value and how it enters a path.
type slot struct {
	V   wire.Value
	Lit bool // written as a path literal (int64), otherwise bound to a variable
}

// decimalText is the exact decimal spelling of a dyadic rational.
func decimalText(b wire.BN) string {
	m, e := b.Big()
	if e >= 0 {
		return m.Lsh(m, uint(e)).String()
	}
	r := new(big.Rat).SetFrac(m, new(big.Int).Lsh(big.NewInt(1), uint(-e)))
	s := r.FloatString(-e)
	if strings.Contains(s, ".") {
		s = strings.TrimRight(strings.TrimRight(s, "0"), ".")
	}
	return s
}

// instantiate turns an abstract number (rep "x") into its Go representations.
func instantiate(v wire.Value) []slot {
	if v.T != "num" || v.Rep != "x" {
		return []slot{{V: v}}
	}
	var out []slot
	if i, ok := v.N.Int64(); ok {
		out = append(out, slot{V: wire.Int(i), Lit: true})
	}
	f := v.N.Float64()
	if back := wire.BNFromFloat(f); fmt.Sprint(back) == fmt.Sprint(wire.BNFromBig(v.N.Big())) {
		out = append(out, slot{V: wire.Float(f)})
	}
	out = append(out, slot{V: wire.JNum(decimalText(v.N))})
	return out
}

func operand(s slot, name string) ([]wire.Node, []wire.Var) {
	if s.Lit {
		v := s.V
		return []wire.Node{{K: "num", V: &v}}, nil
	}
	return []wire.Node{{K: "var", S: wire.Bytes(name)}}, []wire.Var{{K: wire.Bytes(name), V: s.V}}
}

func outcomeLetter(o wire.EntryObs) string {
	switch o.Err.Cls {
	case "none":
		if len(o.Items) == 1 {
			switch {
			case o.Items[0].T == "bool" && o.Items[0].B:
				return "T"
			case o.Items[0].T == "bool":
				return "F"
			case o.Items[0].T == "null":
				return "U"
			}
		}
		return "?"
	case "panic", "timeout":
		return "P"
	case "verbose":
		return "E"
	}
	return "H"
}

// MatrixRec is one record for Trace_Matrix.
type MatrixRec struct {
	ID   int            `json:"id"`
	Kind string         `json:"kind"`
	Lax  bool           `json:"lax"`
	Vals []wire.Value   `json:"vals"`
	M    [][]string     `json:"m"`
	Res  [][]matrixCell `json:"res"`
}

type matrixCell struct {
	Items []wire.Value `json:"items"`
	E     string       `json:"e"`
}

var cmpOps = []string{"eq", "ne", "lt", "gt", "le", "ge"}

func buildMatrix(id int, kind string, slots []slot, lax bool) (MatrixRec, error) {
	rec := MatrixRec{ID: id, Kind: kind, Lax: lax, M: [][]string{}, Res: [][]matrixCell{}}
	for _, s := range slots {
		rec.Vals = append(rec.Vals, s.V)
	}
	for _, a := range slots {
		row := []string{}
		rrow := []matrixCell{}
		for _, b := range slots {
			l, lv := operand(a, "a")
			r, rv := operand(b, "b")
			vars := append(append([]wire.Var{}, lv...), rv...)
			cell := ""
			switch kind {
			case "cmp":
				for _, op := range cmpOps {
					p := wire.Path{Lax: lax, Pred: true, Chain: []wire.Node{{K: "bin", Op: op, L: l, R: r}}}
					g, err := execG(p, wire.Null(), vars, false)
					if err != nil {
						return rec, err
					}
					cell += outcomeLetter(g.Q)
				}
			case "starts":
				if b.Lit || a.Lit {
					cell = "U" // starts with takes a string or a variable on the right; literals here are numbers
					break
				}
				p := wire.Path{Lax: lax, Pred: true, Chain: []wire.Node{{K: "bin", Op: "starts", L: l, R: r}}}
				g, err := execG(p, wire.Null(), vars, false)
				if err != nil {
					return rec, err
				}
				cell = outcomeLetter(g.Q)
			case "add", "mul":
				p := wire.Path{Lax: lax, Chain: []wire.Node{{K: "bin", Op: kind, L: l, R: r}}}
				g, err := execG(p, wire.Null(), vars, false)
				if err != nil {
					return rec, err
				}
				rrow = append(rrow, matrixCell{Items: g.Q.Items, E: g.Q.Err.Cls})
			}
			row = append(row, cell)
		}
		rec.M = append(rec.M, row)
		rec.Res = append(rec.Res, rrow)
	}
	return rec, nil
}

func (rc *RunCtx) matrixFamily(build func() ([]MatrixRec, error), prefix string) {
	recs, err := build()
	if err != nil {
		rc.infra("runner: %v", err)
		return
	}
	cells := 0
	for _, r := range recs {
		cells += len(r.Vals) * len(r.Vals)
	}
	rc.addInt("evaluations", cells)
	judge := func(rs []MatrixRec) (map[int][]string, []string) {
		var witness []string
		vs := rc.judgeShards("Trace_Matrix", len(rs), func(s int, dir string) (int, error) {
			return 1, writeNDJSON(filepath.Join(dir, "matrix.ndjson"), rs[s:s+1])
		}, 20*time.Minute)
		out := map[int][]string{}
		for _, v := range vs {
			out[v.ID] = append(out[v.ID], v.Clauses...)
		}
		return out, witness
	}
	v1, _ := judge(recs)
	if len(v1) == 0 {
		return
	}
	recs2, err := build()
	if err != nil {
		rc.infra("re-execution: %v", err)
		return
	}
	v2, _ := judge(recs2)
	for id, cls := range v1 {
		for _, cl := range cls {
			if !strings.HasPrefix(cl, prefix+".") {
				continue
			}
			ok := false
			for _, c := range v2[id] {
				if c == cl {
					ok = true
				}
			}
			if !ok {
				rc.infra("matrix %d rejected with %s but a second execution was not", id, cl)
				continue
			}
			r := recs[id-1]
			vals := []string{}
			for i, v := range r.Vals {
				vals = append(vals, fmt.Sprintf("%d:%s", i+1, v.Show()))
			}
			human := fmt.Sprintf("matrix kind=%s lax=%v corpus=[%s]", r.Kind, r.Lax, strings.Join(vals, " "))
			rc.Viol = append(rc.Viol, Violation{Clause: cl, Sig: cl + " | " + fmt.Sprintf("kind=%s lax=%v", r.Kind, r.Lax), Human: human, Replay: r})
		}
	}
}

var _ = run.Query

// cmpUniverse: every ordered pair of the value corpus under ==, < and >= as
// predicate checks (for C01: the comparison rules are part of the evaluation
// rules; the matrix laws themselves belong to C12).
func cmpUniverse(slots []slot) *ExecUniverse {
	u := &ExecUniverse{}
	for _, a := range slots {
		la, va := operand(a, "a")
		for _, b := range slots {
			lb, vb := operand(b, "b")
			vars := append(append([]wire.Var{}, va...), vb...)
			for _, op := range []string{"eq", "lt", "ge"} {
				u.addCase(wire.Path{Lax: true, Pred: true, Chain: []wire.Node{{K: "bin", Op: op, L: la, R: lb}}}, wire.Null(), vars)
			}
		}
	}
	return u
}

// regexUniverse: like_regex patterns x flag sets, as a filter over an array of
// subjects (each case decides every subject at once) and as predicate checks
// on single subjects (shared by C12 and C05).
func regexUniverse() *ExecUniverse {
	pats := []string{"a", "^a", "a$", "^a$", "a.b", "a.*b", "^a.*b$", "[a-c]+", "^[a-c]+$", "[^a]", "(ab|ba)+", "a|b", "a?b", "ab*", `\d+`,
		`\w+\s\w+`, `^\s*$`, "a{2}", "a{1,2}b", `\.`, "^b", "b$", ".", "^.$", "^..$", "A", "[A-Z]", `a\b`, "(?:a|b)c", "", "x*", "^$", "a+?b", `\Aa`, `a\z`,
		`[a\]]`, `\$`, "a.", ".b", "^.*$", "(a)(b)", "[ab][ab]", `\S+`, `\D`, "a*", "^a*$", "b+$", "^(a|b)*$", "a\nb", "a$\nb", "^a$|^b$",
		// text that is special to a quoting construct: under the q flag every character stands for itself
		`a\Eb`, `\Qa\E`, `a\Q`, `\E`, `a\\`, `(`, `[a`, `a)`, `*a`, `a\E.\Q`, `a\E.*\Qb`, `.`, `a.b`, `^a`, `a|b`}
	flagSets := []wire.Flags{{}, {I: true}, {S: true}, {M: true}, {Q: true}, {I: true, S: true}, {I: true, M: true}, {S: true, M: true}, {I: true, Q: true}, {I: true, S: true, M: true}, {S: true, M: true, Q: true}}
	subjects := []string{"", "a", "b", "ab", "ba", "aab", "A", "AB", "a\nb", "\n", "a1", "a b", "ab\n", "b\na", "aaa", "1", " ", "a.b", "$", "abc", "A\nB", "\nb", "a\n", "12", "a]", "ac"}
	var subjVals []wire.Value
	for _, t := range subjects {
		subjVals = append(subjVals, wire.StrV(t))
	}
	subjVals = append(subjVals, wire.Float(1), wire.Null(), wire.Bool(true), wire.Arr(wire.StrV("a")), wire.Obj("a", wire.StrV("a")))
	ru := &ExecUniverse{Vars: []VarsRow{{Vars: []wire.Var{}}}}
	ru.Docs = append(ru.Docs, DocRow{Doc: wire.Value{T: "arr", A: subjVals}})
	for _, t := range []string{"ab", "a\nb", "AB", ""} {
		ru.Docs = append(ru.Docs, DocRow{Doc: wire.StrV(t)})
	}
	for _, pat := range pats {
		for _, fl := range flagSets {
			if _, err := regexp.Compile(pat); err != nil && !fl.Q {
				continue // not a pattern the parser accepts without the q flag (only selects inputs; decides nothing)
			}
			cond := wire.Node{K: "regex", X: []wire.Node{{K: "cur"}}, Pat: wire.Bytes(pat), Flags: fl}
			ru.Paths = append(ru.Paths, PathRow{Chain: []wire.Node{{K: "root"}, {K: "anyarr"}, {K: "filter", P: &cond}}})
			ru.Cases = append(ru.Cases, CaseRef{PI: len(ru.Paths), DI: 1, VI: 1, Lax: true, Zone: "UTC"}, CaseRef{PI: len(ru.Paths), DI: 1, VI: 1, Lax: false, Zone: "UTC"})
			ru.Paths = append(ru.Paths, PathRow{Pred: true, Chain: []wire.Node{{K: "regex", X: []wire.Node{{K: "root"}}, Pat: wire.Bytes(pat), Flags: fl}}})
			for d := 2; d <= len(ru.Docs); d++ {
				ru.Cases = append(ru.Cases, CaseRef{PI: len(ru.Paths), DI: d, VI: 1, Lax: true, Zone: "UTC"})
			}
		}
	}
	// several like_regex predicates in one path: each keeps its own pattern and flags
	pair := func(p1 string, f1 wire.Flags, p2 string, f2 wire.Flags) {
		cur := []wire.Node{{K: "cur"}}
		r1 := wire.Node{K: "regex", X: cur, Pat: wire.Bytes(p1), Flags: f1}
		r2 := wire.Node{K: "regex", X: cur, Pat: wire.Bytes(p2), Flags: f2}
		or := wire.Node{K: "bin", Op: "or", L: []wire.Node{r1}, R: []wire.Node{r2}}
		and := wire.Node{K: "bin", Op: "and", L: []wire.Node{r1}, R: []wire.Node{r2}}
		n1 := wire.Node{K: "un", Op: "not", X: []wire.Node{r1}}
		andn := wire.Node{K: "bin", Op: "and", L: []wire.Node{n1}, R: []wire.Node{r2}}
		for _, chain := range [][]wire.Node{
			{{K: "root"}, {K: "anyarr"}, {K: "filter", P: &or}},
			{{K: "root"}, {K: "anyarr"}, {K: "filter", P: &and}},
			{{K: "root"}, {K: "anyarr"}, {K: "filter", P: &andn}},
			{{K: "root"}, {K: "anyarr"}, {K: "filter", P: &r1}, {K: "filter", P: &r2}},
		} {
			ru.Paths = append(ru.Paths, PathRow{Chain: chain})
			ru.Cases = append(ru.Cases, CaseRef{PI: len(ru.Paths), DI: 1, VI: 1, Lax: true, Zone: "UTC"}, CaseRef{PI: len(ru.Paths), DI: 1, VI: 1, Lax: false, Zone: "UTC"})
		}
	}
	pair("^a", wire.Flags{}, "b$", wire.Flags{})
	pair("b$", wire.Flags{}, "^a", wire.Flags{})
	pair("a", wire.Flags{I: true}, "A", wire.Flags{})
	pair("a.b", wire.Flags{Q: true}, "a.b", wire.Flags{})
	pair("^b", wire.Flags{M: true}, "^b", wire.Flags{})
	pair("a.b", wire.Flags{S: true}, "a.b", wire.Flags{})
	return ru
}

func init() {
	checks["C12"] = func(rc *RunCtx) {
		rc.Ev.Assumptions = stdAssumptions
		if rc.runMC("MC_C12", []string{"Inv"}, nil, 30*time.Minute) == nil {
			return
		}
		rows, err := readNDJSON[corpusRow](filepath.Join(rc.Dir, "corpus.ndjson"))
		if err != nil {
			rc.infra("%v", err)
			return
		}
		var slots []slot
		for _, r := range rows {
			slots = append(slots, instantiate(r.V)...)
		}
		rc.cov("exhaustive", true)
		rc.cov("rule", "value corpus: null, booleans, 14 numbers (-1, 0, 1, 1.5, -2.5, 2, 2^31, 2^53, 2^53+1, 2^53+2, 2^63-1, -2^63, 2^63, 10^19) each in every Go representation it has (int64 literal, float64, json.Number), 8 strings incl. non-ASCII, [], {}, [1]; every ordered pair x six comparison operators x {lax, strict} executed as predicate checks; the complete real matrix judged for trichotomy, duality, unions, transitivity over all triples, null, cross-type, and agreement with the specification's order; starts with on every pair")
		rc.cov("corpus_size", len(slots))
		rc.matrixFamily(func() ([]MatrixRec, error) {
			var out []MatrixRec
			id := 0
			for _, lax := range []bool{true, false} {
				for _, kind := range []string{"cmp", "starts"} {
					id++
					use := slots
					if lax {
						// lax mode unwraps array operands, so an array does not stand
						// for itself there; arrays are compared in the strict matrices
						use = nil
						for _, s := range slots {
							if s.V.T != "arr" {
								use = append(use, s)
							}
						}
					}
					m, err := buildMatrix(id, kind, use, lax)
					if err != nil {
						return nil, err
					}
					out = append(out, m)
				}
			}
			return out, nil
		}, "C12")
		// sequences on both sides: lax is existential (some pair), strict makes
		// any incomparable pair unknown whatever its position
		seqVals := []wire.Value{wire.Float(1), wire.Float(2), wire.StrV("x"), wire.Null()}
		var seqs [][]wire.Value
		seqs = append(seqs, []wire.Value{})
		for _, a := range seqVals {
			seqs = append(seqs, []wire.Value{a})
			for _, b := range seqVals {
				seqs = append(seqs, []wire.Value{a, b})
			}
		}
		// an array among the items of an operand (lax unwraps it in place: the items
		// after it must still be seen), first, in the middle and last
		a12, a123 := wire.Arr(wire.Float(1), wire.Float(2)), wire.Arr(wire.Float(1), wire.Float(2), wire.Float(4))
		seqs = append(seqs, []wire.Value{a12, wire.Float(3)}, []wire.Value{a12, wire.StrV("x")}, []wire.Value{wire.Float(3), a12},
			[]wire.Value{a123, wire.Float(5), wire.Float(3)}, []wire.Value{wire.Float(5), a123, wire.Float(3)}, []wire.Value{a12, a12, wire.Float(3)},
			[]wire.Value{wire.Arr(), wire.Float(3)}, []wire.Value{wire.Arr(wire.StrV("x"), wire.StrV("y")), wire.StrV("xz")})
		u := &ExecUniverse{Vars: []VarsRow{{Vars: []wire.Var{}}}}
		side := func(k string) []wire.Node {
			return []wire.Node{{K: "root"}, {K: "key", S: wire.Bytes(k)}, {K: "anyarr"}}
		}
		for _, op := range append(append([]string{}, cmpOps...), "starts") {
			r := side("b")
			if op == "starts" {
				r = []wire.Node{{K: "str", S: wire.Bytes("x")}}
			}
			u.Paths = append(u.Paths, PathRow{Pred: true, Chain: []wire.Node{{K: "bin", Op: op, L: side("a"), R: r}}})
		}
		for _, xs := range seqs {
			for _, ys := range seqs {
				u.Docs = append(u.Docs, DocRow{Doc: wire.Obj("a", wire.Value{T: "arr", A: xs}, "b", wire.Value{T: "arr", A: ys})})
			}
		}
		u.cross([]bool{true, false})
		rc.cov("sequence_cases", len(u.Cases))
		rc.execFamily(u, "C12", "C01")

		// starts with: the right operand is one item and is never unwrapped, in
		// either mode; a variable bound to an array of strings must give unknown
		su := &ExecUniverse{}
		abc := wire.Arr(wire.StrV("abc"), wire.StrV("xyz"), wire.StrV("ab"))
		su.Docs = []DocRow{{Doc: wire.Obj("a", abc)}, {Doc: wire.Obj("a", wire.StrV("abc"))}, {Doc: wire.Obj("a", wire.Arr(wire.Arr(wire.StrV("abc"))))}}
		su.Vars = []VarsRow{{Vars: []wire.Var{{K: wire.Bytes("p"), V: wire.Arr(wire.StrV("ab"))}}}, {Vars: []wire.Var{{K: wire.Bytes("p"), V: wire.StrV("ab")}}},
			{Vars: []wire.Var{{K: wire.Bytes("p"), V: wire.Arr(wire.StrV("ab"), wire.StrV("x"))}}}, {Vars: []wire.Var{{K: wire.Bytes("p"), V: wire.Arr()}}}}
		vp := []wire.Node{{K: "var", S: wire.Bytes("p")}}
		sw := func(l []wire.Node) wire.Node { return wire.Node{K: "bin", Op: "starts", L: l, R: vp} }
		cur := []wire.Node{{K: "cur"}}
		fc := sw(cur)
		unk := wire.Node{K: "un", Op: "isunknown", X: []wire.Node{sw(cur)}}
		su.Paths = []PathRow{
			{Pred: true, Chain: []wire.Node{sw(side("a"))}},
			{Pred: true, Chain: []wire.Node{sw([]wire.Node{{K: "root"}, {K: "key", S: wire.Bytes("a")}})}},
			{Pred: true, Chain: []wire.Node{{K: "un", Op: "isunknown", X: []wire.Node{sw(side("a"))}}}},
			{Chain: []wire.Node{{K: "root"}, {K: "key", S: wire.Bytes("a")}, {K: "anyarr"}, {K: "filter", P: &fc}}},
			{Chain: []wire.Node{{K: "root"}, {K: "key", S: wire.Bytes("a")}, {K: "anyarr"}, {K: "filter", P: &unk}}},
		}
		for pi := range su.Paths {
			for di := range su.Docs {
				for vi := range su.Vars {
					for _, lax := range []bool{true, false} {
						su.Cases = append(su.Cases, CaseRef{PI: pi + 1, DI: di + 1, VI: vi + 1, Lax: lax, Zone: "UTC"})
					}
				}
			}
		}
		rc.cov("starts_with_variable_cases", len(su.Cases))
		rc.execFamily(su, "C12", "C01")

		// like_regex: patterns x flag sets, as a filter over an array of subjects
		// (each case decides every subject at once) and as predicate checks on
		// single subjects; judged against spec/Regex.tla (an RE2 matcher in TLA+)
		ru := regexUniverse()
		rc.cov("like_regex", map[string]any{"patterns": 60, "flag_sets": 11, "subjects": 31, "cases": len(ru.Cases)})
		rc.execFamily(ru, "C12", "C01")

		// datetimes by instant: the special values of spec/DTLaws.tla, every pair
		dtPairsCheck(rc, "C12", "C01")

		s := []string{}
		for _, x := range slots {
			s = append(s, x.V.Show())
		}
		rc.sample(map[string]any{"corpus": s})
	}
}
