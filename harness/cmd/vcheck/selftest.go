package main

import (
	"fmt"
	"os"
	"strings"
	"time"

	"verif/harness/tlc"
	"verif/harness/wire"
)

// selftestCmd demonstrates that the trace specification is bound to what the
// real code returned: a handful of cases is observed, Trace_Exec must accept
// the faithful records, and must reject each of them after ONE recorded field
// has been corrupted (an item dropped, an error class changed, a boolean
// flipped, the silent run altered, the purity flag set). It is not a
// registered check; `./check selftest` runs it.
func selftestCmd() int {
	tlc.SpecDir = verifDir + "/spec"
	dir, err := tlc.Scratch("selftest")
	if err != nil {
		fmt.Fprintln(os.Stderr, err)
		return 2
	}
	defer os.RemoveAll(dir)
	rc := &RunCtx{ID: "SELFTEST", Tier: "quick", Seed: 1, Dir: dir, Start: time.Now()}
	rc.Ev = Evidence{PropertyID: "SELFTEST", Coverage: map[string]any{}}
	one, two := wire.Int(1), wire.Int(2)
	cur := []wire.Node{{K: "cur"}}
	gt1 := wire.Node{K: "bin", Op: "gt", L: cur, R: []wire.Node{{K: "num", V: &one}}}
	u := &ExecUniverse{}
	u.addCase(wire.Path{Lax: true, Chain: []wire.Node{{K: "root"}, {K: "anyarr"}}}, wire.Arr(wire.Float(1), wire.Float(2), wire.Float(3)), nil)
	u.addCase(wire.Path{Lax: true, Chain: []wire.Node{{K: "root"}, {K: "anyarr"}, {K: "filter", P: &gt1}}}, wire.Arr(wire.Float(1), wire.Float(2), wire.Float(3)), nil)
	u.addCase(wire.Path{Lax: false, Chain: []wire.Node{{K: "root"}, {K: "key", S: wire.Bytes("a")}}}, wire.Obj("b", wire.Float(1)), nil)
	u.addCase(wire.Path{Lax: true, Pred: true, Chain: []wire.Node{{K: "bin", Op: "eq", L: []wire.Node{{K: "root"}}, R: []wire.Node{{K: "num", V: &two}}}}}, wire.Float(2), nil)
	rows, err := u.observeAll()
	if err != nil {
		fmt.Fprintln(os.Stderr, err)
		return 2
	}
	type corruption struct {
		name string
		row  int
		f    func(r *ObsRow)
	}
	cs := []corruption{
		{"faithful records", -1, nil},
		{"Query: last item dropped", 0, func(r *ObsRow) { r.V.Query.Items = r.V.Query.Items[:2]; r.SS = false }},
		{"Query: two items swapped", 0, func(r *ObsRow) {
			it := append([]wire.Value{}, r.V.Query.Items...)
			it[0], it[1] = it[1], it[0]
			r.V.Query.Items = it
			r.SS = false
		}},
		{"filter: an item that fails the condition added", 1, func(r *ObsRow) {
			r.V.Query.Items = append([]wire.Value{wire.Float(1)}, r.V.Query.Items...)
			r.SS = false
		}},
		{"strict missing key: error class changed to none", 2, func(r *ObsRow) { r.V.Query.Err = wire.Err{Cls: "none"}; r.SS = false }},
		{"strict missing key: silent run reports the error too", 2, func(r *ObsRow) { r.S.Query.Err = r.V.Query.Err; r.SS = false }},
		{"Exists flipped", 0, func(r *ObsRow) { r.V.Exists.Val = !r.V.Exists.Val; r.SS = false }},
		{"Match flipped", 3, func(r *ObsRow) { r.V.Match.Val = !r.V.Match.Val; r.SS = false }},
		{"First is not the head of Query", 0, func(r *ObsRow) { r.V.First.Items = []wire.Value{wire.Float(3)}; r.SS = false }},
		{"input reported as mutated", 1, func(r *ObsRow) { r.V.Mut = true; r.SS = false }},
	}
	fail := 0
	for _, c := range cs {
		cp := make([]ObsRow, len(rows))
		copy(cp, rows)
		if c.f != nil {
			c.f(&cp[c.row])
		}
		v := rc.judgeExec(u, cp)
		if len(rc.Infra) > 0 {
			fmt.Println("INFRA:", strings.Join(rc.Infra, "; "))
			return 2
		}
		var got []string
		for id, cls := range v {
			for _, cl := range cls {
				got = append(got, fmt.Sprintf("record %d: %s", id, cl))
			}
		}
		switch {
		case c.f == nil && len(got) == 0:
			fmt.Printf("ok    %-52s accepted\n", c.name)
		case c.f == nil:
			fmt.Printf("FAIL  %-52s rejected: %v\n", c.name, got)
			fail++
		case len(v[c.row+1]) > 0 && len(v) == 1:
			fmt.Printf("ok    %-52s rejected (%s)\n", c.name, strings.Join(v[c.row+1], ", "))
		default:
			fmt.Printf("FAIL  %-52s verdicts: %v\n", c.name, got)
			fail++
		}
	}
	if fail > 0 {
		fmt.Println("selftest: the trace specification is NOT bound as expected")
		return 1
	}
	fmt.Println("selftest: every corrupted record was rejected, and only that record")
	return 0
}
