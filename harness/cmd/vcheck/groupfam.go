package main

import (
	"fmt"
	"path/filepath"
	"runtime"
	"sort"
	"strings"
	"sync"
	"time"

	"verif/harness/run"
	"verif/harness/wire"
)

// GRun is one execution inside a group.
type GRun struct {
	Path wire.Path     `json:"path"`
	Doc  wire.Value    `json:"doc"`
	Vars []wire.Var    `json:"vars"`
	Q    wire.EntryObs `json:"q"`
	M    wire.EntryObs `json:"m"`
}

// Group is one record of the group family (laws over several executions).
type Group struct {
	ID    int      `json:"id"`
	Kind  string   `json:"kind"`
	Lax   bool     `json:"lax"`
	Names []string `json:"names"`
	Runs  []GRun   `json:"runs"`
}

func nzVars(v []wire.Var) []wire.Var {
	if v == nil {
		return []wire.Var{}
	}
	return v
}

// execG runs Query and Match of one path on one document.
func execG(p wire.Path, doc wire.Value, vars []wire.Var, silent bool) (GRun, error) {
	c := wire.Case{Path: p, Doc: doc, Vars: vars, Zone: "UTC"}
	pr, err := run.Prepare(c)
	if err != nil {
		return GRun{}, fmt.Errorf("%s: %w", pathText(p), err)
	}
	pr.SetSilent(silent)
	g := GRun{Path: p, Doc: doc, Vars: nzVars(vars)}
	g.Q = pr.One(pr.Base, run.Query, nil)
	g.M = pr.One(pr.Base, run.Match, nil)
	if g.Q.Bad == "foreign" { // provenance is C05's business and needs the container table
		g.Q.Bad = ""
	}
	return g, nil
}

func flattenLax(items []wire.Value) []wire.Value {
	out := []wire.Value{}
	for _, x := range items {
		if x.T == "arr" {
			out = append(out, x.A...)
		} else {
			out = append(out, x)
		}
	}
	return out
}

// buildGroups runs mk for every index in parallel.
func buildGroups(n int, mk func(i int) ([]Group, error)) ([]Group, error) {
	parts := make([][]Group, n)
	errs := make([]error, runtime.NumCPU())
	var wg sync.WaitGroup
	nw := runtime.NumCPU()
	for w := 0; w < nw; w++ {
		wg.Add(1)
		go func(w int) {
			defer wg.Done()
			for i := w; i < n; i += nw {
				g, err := mk(i)
				if err != nil {
					errs[w] = err
					return
				}
				parts[i] = g
			}
		}(w)
	}
	wg.Wait()
	for _, e := range errs {
		if e != nil {
			return nil, e
		}
	}
	var all []Group
	for _, p := range parts {
		all = append(all, p...)
	}
	for i := range all {
		all[i].ID = i + 1
		if all[i].Names == nil {
			all[i].Names = []string{}
		}
	}
	return all, nil
}

const groupShard = 3000

func humanGroup(g Group) string {
	var b strings.Builder
	fmt.Fprintf(&b, "%s lax=%v", g.Kind, g.Lax)
	for i, r := range g.Runs {
		if i >= 4 {
			fmt.Fprintf(&b, " ...(%d runs)", len(g.Runs))
			break
		}
		fmt.Fprintf(&b, " | %q on %s -> %s", pathText(r.Path), r.Doc.Show(), showEntry(r.Q))
	}
	return b.String()
}

// judgeGroups runs Trace_Group over the groups and returns clauses by id.
func (rc *RunCtx) judgeGroups(groups []Group) map[int][]string {
	n := shardCount(len(groups), groupShard)
	verdicts := rc.judgeShards("Trace_Group", n, func(s int, dir string) (int, error) {
		part := make([]Group, 0, groupShard)
		for i := s; i < len(groups); i += n {
			part = append(part, groups[i])
		}
		return len(part), writeNDJSON(filepath.Join(dir, "groups.ndjson"), part)
	}, 20*time.Minute)
	out := map[int][]string{}
	for _, v := range verdicts {
		out[v.ID] = append(out[v.ID], v.Clauses...)
	}
	return out
}

const maxConfirm = 1500

// groupFamily judges groups with Trace_Group. A rejection is reported only
// after the group has been executed again (rebuild) and TLC has rejected the
// new observations with the same clause.
func (rc *RunCtx) groupFamily(groups []Group, rebuild func(g Group) (Group, error), prefixes ...string) {
	rc.addInt("evaluations", len(groups))
	t0 := time.Now()
	verdicts := rc.judgeGroups(groups)
	fmt.Printf("  judged %d groups in %.1fs, %d with remarks\n", len(groups), time.Since(t0).Seconds(), len(verdicts))
	bag := 0
	type rej struct {
		id  int
		cl  string
		dev string
	}
	var rejs []rej
	for id, clauses := range verdicts {
		for _, cl := range clauses {
			if strings.HasPrefix(cl, "bag.") {
				bag++
				continue
			}
			if strings.HasPrefix(cl, "infra.") {
				rc.infra("group %d: %s (%s)", id, cl, humanGroup(groups[id-1]))
				continue
			}
			dev := ""
			if strings.HasPrefix(cl, "known.") {
				parts := strings.SplitN(cl, ".", 3)
				if len(parts) == 3 {
					dev, cl = parts[1], parts[2]
				}
			}
			for _, p := range prefixes {
				if strings.HasPrefix(cl, p+".") {
					rejs = append(rejs, rej{id, cl, dev})
					break
				}
			}
		}
	}
	sort.Slice(rejs, func(i, j int) bool {
		if (rejs[i].dev == "") != (rejs[j].dev == "") {
			return rejs[i].dev == "" // unexplained rejections are confirmed first
		}
		return rejs[i].id < rejs[j].id
	})
	extra := 0
	if len(rejs) > maxConfirm {
		extra = len(rejs) - maxConfirm
		rejs = rejs[:maxConfirm]
	}
	pending := rejs
	for try := 0; try < confirmTries && len(pending) > 0; try++ {
		// execute again and let TLC judge the new observations
		again := make([]Group, 0, len(pending))
		idx := map[int]int{}
		for _, r := range pending {
			if _, ok := idx[r.id]; ok {
				continue
			}
			g2, err := rebuild(groups[r.id-1])
			if err != nil {
				rc.infra("re-execution of group %d failed: %v", r.id, err)
				continue
			}
			g2.ID = len(again) + 1
			g2.Kind, g2.Lax = groups[r.id-1].Kind, groups[r.id-1].Lax
			g2.Names = groups[r.id-1].Names
			if g2.Names == nil {
				g2.Names = []string{}
			}
			idx[r.id] = g2.ID
			again = append(again, g2)
		}
		v2 := rc.judgeGroups(again)
		var still []rej
		for _, r := range pending {
			k, ok := idx[r.id]
			confirmed := false
			if ok {
				want := r.cl
				if r.dev != "" {
					want = "known." + r.dev + "." + r.cl
				}
				for _, c := range v2[k] {
					if c == want {
						confirmed = true
					}
				}
			}
			g := groups[r.id-1]
			if !confirmed {
				still = append(still, r)
				continue
			}
			sig := r.cl + " | " + humanGroup(g)
			if r.dev != "" {
				sig = "dev:" + r.dev
			}
			rc.Viol = append(rc.Viol, Violation{Clause: r.cl, Sig: sig, Human: humanGroup(g), Replay: g})
		}
		pending = still
	}
	for _, r := range pending {
		rc.unreproduced("group %d rejected with %s: %s", r.id, r.cl, humanGroup(groups[r.id-1]))
	}
	if extra > 0 {
		rc.Notes = append(rc.Notes, fmt.Sprintf("%d further rejections were not re-executed (cap %d)", extra, maxConfirm))
	}
	rc.addInt("records_judged_as_multiset", bag)
	for i := 0; i < 3 && i < len(groups); i++ {
		rc.sample(humanGroup(groups[i*(len(groups)/3)]))
	}
}
