package main

import (
	"path/filepath"
	"time"

	"verif/harness/gen"
	"verif/harness/wire"
)

type predRow struct {
	P wire.Node `json:"p"`
}

var c11Names = []string{"p", "q", "and", "or", "not", "isunknown", "notnot", "not-and", "notp-or-notq",
	"not-or", "notp-and-notq", "and-swapped", "or-swapped"}

func bin(op string, l, r wire.Node) wire.Node {
	return wire.Node{K: "bin", Op: op, L: []wire.Node{l}, R: []wire.Node{r}}
}
func un(op string, x wire.Node) wire.Node { return wire.Node{K: "un", Op: op, X: []wire.Node{x}} }

// c11Preds mirrors C11Preds of spec/GroupUniverse.tla.
func c11Preds(p, q wire.Node) []wire.Node {
	return []wire.Node{p, q, bin("and", p, q), bin("or", p, q), un("not", p), un("isunknown", p), un("not", un("not", p)),
		un("not", bin("and", p, q)), bin("or", un("not", p), un("not", q)), un("not", bin("or", p, q)),
		bin("and", un("not", p), un("not", q)), bin("and", q, p), bin("or", q, p)}
}

func c11Group(p, q wire.Node, doc wire.Value, vars []wire.Var, lax bool) (Group, error) {
	g := Group{Kind: "C11", Lax: lax, Names: c11Names}
	for _, pr := range c11Preds(p, q) {
		r, err := execG(wire.Path{Lax: lax, Pred: true, Chain: []wire.Node{pr}}, doc, vars, false)
		if err != nil {
			return g, err
		}
		g.Runs = append(g.Runs, r)
	}
	return g, nil
}

func c11Exists(e []wire.Node, doc wire.Value, vars []wire.Var, lax bool) (Group, error) {
	g := Group{Kind: "C11exists", Lax: lax}
	a, err := execG(wire.Path{Lax: lax, Chain: e}, doc, vars, false)
	if err != nil {
		return g, err
	}
	b, err := execG(wire.Path{Lax: lax, Pred: true, Chain: []wire.Node{{K: "un", Op: "exists", X: e}}}, doc, vars, false)
	if err != nil {
		return g, err
	}
	c, err := execG(wire.Path{Lax: lax, Chain: e}, doc, vars, true)
	if err != nil {
		return g, err
	}
	g.Runs = []GRun{a, b, c}
	return g, nil
}

func rerunC11(g Group) (Group, error) {
	out := Group{Kind: g.Kind, Lax: g.Lax, Names: g.Names}
	for i, r := range g.Runs {
		x, err := execG(r.Path, r.Doc, r.Vars, g.Kind == "C11exists" && i == 2)
		if err != nil {
			return g, err
		}
		out.Runs = append(out.Runs, x)
	}
	return out, nil
}

func init() {
	checks["C11"] = func(rc *RunCtx) {
		rc.Ev.Assumptions = stdAssumptions
		if rc.runMC("MC_C11", []string{"Inv"}, nil, 30*time.Minute) == nil {
			return
		}
		conds, err := readNDJSON[predRow](filepath.Join(rc.Dir, "conds.ndjson"))
		if err != nil {
			rc.infra("%v", err)
			return
		}
		exprs, err := readNDJSON[chainRow](filepath.Join(rc.Dir, "exprs.ndjson"))
		if err != nil {
			rc.infra("%v", err)
			return
		}
		docs, err := readNDJSON[DocRow](filepath.Join(rc.Dir, "docs.ndjson"))
		if err != nil {
			rc.infra("%v", err)
			return
		}
		type job struct {
			p, q, d int
			lax     bool
		}
		var jobs []job
		for p := range conds {
			for q := range conds {
				for d := range docs {
					jobs = append(jobs, job{p, q, d, true}, job{p, q, d, false})
				}
			}
		}
		groups, err := buildGroups(len(jobs), func(i int) ([]Group, error) {
			j := jobs[i]
			g, err := c11Group(conds[j.p].P, conds[j.q].P, docs[j.d].Doc, nil, j.lax)
			if err != nil {
				return nil, err
			}
			out := []Group{g}
			if j.p == 0 && j.q < len(exprs) {
				x, err := c11Exists(exprs[j.q].Chain, docs[j.d].Doc, nil, j.lax)
				if err != nil {
					return nil, err
				}
				out = append(out, x)
			}
			return out, nil
		})
		if err != nil {
			rc.infra("runner: %v", err)
			return
		}
		// the in-filter form: commutativity and double negation as equal results
		fconds, err := readNDJSON[predRow](filepath.Join(rc.Dir, "fconds.ndjson"))
		if err != nil {
			rc.infra("%v", err)
			return
		}
		fdocs, err := readNDJSON[DocRow](filepath.Join(rc.Dir, "fdocs.ndjson"))
		if err != nil {
			rc.infra("%v", err)
			return
		}
		type fjob struct {
			p, q, d int
			lax     bool
		}
		var fjobs []fjob
		for p := range fconds {
			for q := range fconds {
				for d := range fdocs {
					fjobs = append(fjobs, fjob{p, q, d, true}, fjob{p, q, d, false})
				}
			}
		}
		fgroups, err := buildGroups(len(fjobs), func(i int) ([]Group, error) {
			j := fjobs[i]
			p, q := fconds[j.p].P, fconds[j.q].P
			g := Group{Kind: "C11filter", Lax: j.lax}
			for _, pr := range []wire.Node{bin("and", p, q), bin("and", q, p), bin("or", p, q), bin("or", q, p), un("not", un("not", p)), p} {
				pr := pr
				r, err := execG(wire.Path{Lax: j.lax, Chain: []wire.Node{{K: "root"}, {K: "anyarr"}, {K: "filter", P: &pr}}}, fdocs[j.d].Doc, nil, false)
				if err != nil {
					return nil, err
				}
				g.Runs = append(g.Runs, r)
			}
			return []Group{g}, nil
		})
		if err != nil {
			rc.infra("runner: %v", err)
			return
		}
		groups = append(groups, fgroups...)

		// random condition pairs on random documents
		n := 4000
		if rc.Tier == "thorough" {
			n = 100000
		}
		g := gen.New(rc.Seed)
		type rjob struct {
			p, q wire.Node
			e    []wire.Node
			doc  wire.Value
			vars []wire.Var
			lax  bool
		}
		rjobs := make([]rjob, n)
		for i := range rjobs {
			rjobs[i] = rjob{p: g.Pred(2, false, false), q: g.Pred(2, false, false), e: g.Expr(2, false, false),
				doc: g.Doc(3), vars: g.VarSet(), lax: i%2 == 0}
		}
		rgroups, err := buildGroups(n, func(i int) ([]Group, error) {
			j := rjobs[i]
			a, err := c11Group(j.p, j.q, j.doc, j.vars, j.lax)
			if err != nil {
				return nil, err
			}
			b, err := c11Exists(j.e, j.doc, j.vars, j.lax)
			if err != nil {
				return nil, err
			}
			return []Group{a, b}, nil
		})
		if err != nil {
			rc.infra("runner: %v", err)
			return
		}
		all := append(groups, rgroups...)
		for i := range all {
			all[i].ID = i + 1
		}
		rc.cov("exhaustive", true)
		rc.cov("rule", "complete truth tables: every ordered pair of 15 conditions realising true / false / unknown-by-type / unknown-by-suppressed-error / non-suppressible error, as constants and document-dependent, x 16 documents x {lax, strict}, 13 predicate checks per pair (Query and Match each); exists(e) for 12 operand shapes; plus seeded random condition pairs and operands on random documents")
		rc.cov("universe", map[string]any{"conditions": len(conds), "exists_operands": len(exprs), "docs": len(docs),
			"table_groups": len(groups), "random_groups": len(rgroups)})
		rc.groupFamily(all, rerunC11, "C11")

		// every compound of the tables against the rules (PathSem), so that an
		// operand whose own outcome is wrong (e.g. false instead of unknown) is
		// seen even though the connective table applied to it is right
		u := &ExecUniverse{Docs: docs, Vars: []VarsRow{{Vars: []wire.Var{}}}}
		for p := range conds {
			u.Paths = append(u.Paths, PathRow{Pred: true, Chain: []wire.Node{conds[p].P}})
			for q := range conds {
				for _, pr := range c11Preds(conds[p].P, conds[q].P)[2:4] {
					u.Paths = append(u.Paths, PathRow{Pred: true, Chain: []wire.Node{pr}})
				}
			}
		}
		for _, e := range exprs {
			u.Paths = append(u.Paths, PathRow{Pred: true, Chain: []wire.Node{{K: "un", Op: "exists", X: e.Chain}}})
		}
		// exists(e) inside a filter below .**: strict mode must still look at
		// every item of e (an item that fails makes it unknown), although
		// structural errors are ignored there
		for _, e := range exprs {
			if len(e.Chain) == 0 || e.Chain[0].K != "root" {
				continue
			}
			e2 := append([]wire.Node{{K: "cur"}}, e.Chain[1:]...)
			ex := wire.Node{K: "un", Op: "exists", X: e2}
			unk := wire.Node{K: "un", Op: "isunknown", X: []wire.Node{ex}}
			not := wire.Node{K: "un", Op: "not", X: []wire.Node{ex}}
			for _, c := range []wire.Node{ex, unk, not} {
				cc := c
				u.Paths = append(u.Paths, PathRow{Chain: []wire.Node{{K: "root"}, {K: "any", First: 0, Last: -1}, {K: "filter", P: &cc}}})
			}
		}
		u.cross([]bool{true, false})
		rc.cov("predicate_checks_judged_against_the_rules", len(u.Cases))
		rc.execFamily(u, "C11", "C01", "C06") // C06: Match and Query tell the same story about a predicate (also under WithSilent)
	}
}
