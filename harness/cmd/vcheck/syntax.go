package main

import (
	"fmt"
	"path/filepath"
	"runtime"
	"sort"
	"strconv"
	"strings"
	"sync"
	"time"

	"verif/harness/gen"
	"verif/harness/run"
	"verif/harness/wire"
)

// SynIn is one input of the syntax family.
type SynIn struct {
	Src  string
	Text string
	Obs  *run.ParseObs // pre-filled fields (Want, Kind) or nil
}

// observeSyntax runs the real parser entry points on every input.
func observeSyntax(ins []SynIn) []run.ParseObs {
	out := make([]run.ParseObs, len(ins))
	var wg sync.WaitGroup
	nw := runtime.NumCPU()
	for w := 0; w < nw; w++ {
		wg.Add(1)
		go func(w int) {
			defer wg.Done()
			for i := w; i < len(ins); i += nw {
				o := run.ObserveParse(i+1, ins[i].Text)
				if ins[i].Obs != nil {
					o.HasW, o.Want, o.Kind = ins[i].Obs.HasW, ins[i].Obs.Want, ins[i].Obs.Kind
				}
				out[i] = o
			}
		}(w)
	}
	wg.Wait()
	return out
}

const synShard = 20000

// judgeSyntax runs Trace_Syntax over the records; each shard is one TLC
// process whose 64 blocks are shared by its workers.
func (rc *RunCtx) judgeSyntax(recs []run.ParseObs) map[int][]string {
	n := shardCount(len(recs), synShard)
	type res struct {
		v   map[int][]string
		err string
	}
	outs := make([]res, n)
	var wg sync.WaitGroup
	sem := make(chan struct{}, 4)
	rc.judgeSeq++
	seq := rc.judgeSeq
	for s := 0; s < n; s++ {
		wg.Add(1)
		go func(s int) {
			defer wg.Done()
			sem <- struct{}{}
			defer func() { <-sem }()
			dir := filepath.Join(rc.Dir, fmt.Sprintf("syntax-j%d-s%d", seq, s))
			if err := mkdirLink(rc.Dir, dir); err != nil {
				outs[s].err = err.Error()
				return
			}
			part := []run.ParseObs{}
			for i := s; i < len(recs); i += n {
				part = append(part, recs[i])
			}
			if err := writeNDJSON(filepath.Join(dir, "syntax.ndjson"), part); err != nil {
				outs[s].err = err.Error()
				return
			}
			r, err := tlcRun(dir, "Trace_Syntax", 4, 4000, 30*time.Minute)
			if err != nil {
				outs[s].err = err.Error()
				return
			}
			if r.Failed {
				outs[s].err = r.ErrText + "\n" + r.Tail(20)
				return
			}
			if r.Distinct != 128 { // 64 blocks, each judged once
				outs[s].err = fmt.Sprintf("TLC judged %d of 128 block states", r.Distinct)
				return
			}
			rc.addInt("states", r.Distinct)
			rc.addInt("transitions", r.Generated)
			rc.addInt("traces_validated_against_impl", len(part))
			m := map[int][]string{}
			for _, v := range r.Verdicts {
				m[v.ID] = append(m[v.ID], v.Clauses...)
			}
			outs[s].v = m
		}(s)
	}
	wg.Wait()
	all := map[int][]string{}
	for s, o := range outs {
		if o.err != "" {
			rc.infra("judge Trace_Syntax shard %d: %s", s, o.err)
			continue
		}
		for k, v := range o.v {
			all[k] = append(all[k], v...)
		}
	}
	return all
}

// syntaxFamily observes, judges, re-observes and re-judges rejections, and
// reports the clauses that belong to this check.
func (rc *RunCtx) syntaxFamily(ins []SynIn, prefixes ...string) {
	t0 := time.Now()
	recs := observeSyntax(ins)
	rc.addInt("evaluations", len(recs))
	verdicts := rc.judgeSyntax(recs)
	fmt.Printf("  %d inputs parsed and judged in %.1fs, %d with remarks\n", len(recs), time.Since(t0).Seconds(), len(verdicts))
	type rej struct {
		id int
		cl string
	}
	var rejs []rej
	skipped := 0
	for id, cls := range verdicts {
		for _, cl := range cls {
			if strings.HasPrefix(cl, "skip.") {
				skipped++
				continue
			}
			if strings.HasPrefix(cl, "infra.") {
				rc.infra("input %d %s: %s", id, strconv.Quote(ins[id-1].Text), cl)
				continue
			}
			for _, p := range prefixes {
				if strings.HasPrefix(cl, p+".") {
					rejs = append(rejs, rej{id, cl})
				}
			}
		}
	}
	rc.addInt("records_not_decided_opaque", skipped)
	sort.Slice(rejs, func(i, j int) bool {
		return rejs[i].id < rejs[j].id || (rejs[i].id == rejs[j].id && rejs[i].cl < rejs[j].cl)
	})
	if len(rejs) > maxConfirm {
		rc.Notes = append(rc.Notes, fmt.Sprintf("%d further rejections were not re-executed", len(rejs)-maxConfirm))
		rejs = rejs[:maxConfirm]
	}
	if len(rejs) > 0 {
		idx := map[int]int{}
		var again []SynIn
		for _, r := range rejs {
			if _, ok := idx[r.id]; !ok {
				again = append(again, ins[r.id-1])
				idx[r.id] = len(again)
			}
		}
		v2 := rc.judgeSyntax(observeSyntax(again))
		for _, r := range rejs {
			ok := false
			for _, c := range v2[idx[r.id]] {
				if c == r.cl {
					ok = true
				}
			}
			in := ins[r.id-1]
			human := fmt.Sprintf("input=%s (%s) real=%s", strconv.Quote(in.Text), in.Src, recs[r.id-1].St)
			if !ok {
				rc.infra("input %d rejected with %s but a second run was not: %s", r.id, r.cl, human)
				continue
			}
			rc.Viol = append(rc.Viol, Violation{Clause: r.cl, Sig: r.cl + " | " + strconv.Quote(in.Text), Human: human,
				Replay: map[string]any{"input": in.Text, "bytes": recs[r.id-1].B, "observation": recs[r.id-1]}})
		}
	}
	for i := 0; i < 3 && i < len(recs); i++ {
		k := i * (len(recs) / 3)
		rc.sample(map[string]any{"input": ins[k].Text, "source": ins[k].Src, "real": recs[k].St})
	}
}

// syntaxInputs: the inputs shared by C03 and C04.
func syntaxInputs(seed int64, short, nGram, nMut int) []SynIn {
	seen := map[string]bool{}
	var out []SynIn
	add := func(src string, xs []string) {
		for _, x := range xs {
			if !seen[x] {
				seen[x] = true
				out = append(out, SynIn{Src: src, Text: x})
			}
		}
	}
	hand := gen.Handwritten()
	add("hand", hand)
	add("numforms", gen.NumberForms())
	add("regexforms", gen.RegexForms(seed, nMut/10+500))
	add("repo", gen.RepoLiterals("/repo/path", 300))
	sent, mut := gen.GrammarInputs(seed, nGram)
	add("gram", sent)
	add("mut", mut)
	add("short", gen.ShortStrings(short))
	add("bytes", gen.ByteMutants(seed, append(hand, sent...), nMut))
	return out
}

func init() {
	checks["C04"] = func(rc *RunCtx) {
		rc.Ev.Assumptions = []string{"the runner records faithfully what the entry points returned", "TLC evaluates spec/PathSyntax.tla correctly"}
		short, nGram, nMut := 3, 3000, 20000
		if rc.Tier == "thorough" {
			short, nGram, nMut = 4, 60000, 400000
		}
		ins := syntaxInputs(rc.Seed, short, nGram, nMut)
		rc.cov("exhaustive", true)
		rc.cov("rule", fmt.Sprintf("ALL strings of length <= %d over a 31-symbol alphabet chosen to drive the scanner's look-ahead; every string literal of the repository's test files; ~3700 hand-written spellings and near-misses of every validity rule (numbers, escapes, strings, comments, NUL, invalid UTF-8, @ / last placement, regex flags and patterns, literal ranges, .decimal arity); %d random grammar sentences with two one-token mutants each; %d byte-level mutations and random byte strings. Distinct inputs only", short, nGram, nMut))
		rc.cov("inputs", len(ins))
		rc.syntaxFamily(ins, "C04")
	}
	checks["C03"] = func(rc *RunCtx) {
		rc.Ev.Assumptions = []string{"the runner records faithfully what the entry points returned", "TLC evaluates spec/PathSyntax.tla correctly"}
		short, nGram := 3, 6000
		if rc.Tier == "thorough" {
			short, nGram = 4, 100000
		}
		ins := syntaxInputs(rc.Seed, short, nGram, 0)
		rc.cov("exhaustive", true)
		rc.cov("rule", fmt.Sprintf("every string of length <= %d over the look-ahead alphabet, ~3700 hand-written spellings (every number form, escape, keyword case, comment / whitespace position, bare / quoted / escaped keys, each token kind at end of input / before white space / before another token), the repository's own literals, %d random grammar sentences with random spacing and comments; each parsed by the real parser and by the specification's scanner + grammar, trees compared node by node with exact literal values", short, nGram))
		rc.cov("inputs", len(ins))
		rc.syntaxFamily(ins, "C03")
	}
}

// printFamily: paths built with the constructors are printed by the real
// String(); the text and its round trips are judged by Trace_Syntax.
func (rc *RunCtx) printFamily(paths []wire.Path, prefix string) {
	recs := make([]run.ParseObs, len(paths))
	var wg sync.WaitGroup
	nw := runtime.NumCPU()
	errs := make([]error, nw)
	for w := 0; w < nw; w++ {
		wg.Add(1)
		go func(w int) {
			defer wg.Done()
			for i := w; i < len(paths); i += nw {
				o, err := run.ObservePrint(i+1, paths[i])
				if err != nil {
					errs[w] = fmt.Errorf("path %d: %w", i+1, err)
					return
				}
				recs[i] = o
			}
		}(w)
	}
	wg.Wait()
	for _, e := range errs {
		if e != nil {
			rc.infra("runner: %v", e)
			return
		}
	}
	rc.addInt("evaluations", len(recs))
	verdicts := rc.judgeSyntax(recs)
	fmt.Printf("  %d paths printed and judged, %d with remarks\n", len(recs), len(verdicts))
	ids := make([]int, 0, len(verdicts))
	for id := range verdicts {
		ids = append(ids, id)
	}
	sort.Ints(ids)
	skipped := 0
	for _, id := range ids {
		for _, cl := range verdicts[id] {
			if strings.HasPrefix(cl, "skip.") {
				skipped++
				continue
			}
			dev := ""
			if strings.HasPrefix(cl, "known.") {
				parts := strings.SplitN(cl, ".", 3)
				if len(parts) == 3 {
					dev, cl = parts[1], parts[2]
				}
			}
			if !strings.HasPrefix(cl, prefix+".") {
				continue
			}
			// printing is deterministic: observe once more and compare
			o2, err := run.ObservePrint(id, paths[id-1])
			if err != nil || wire.Str(o2.B) != wire.Str(recs[id-1].B) || o2.St != recs[id-1].St {
				rc.infra("path %d: printing did not reproduce", id)
				continue
			}
			text := wire.Str(recs[id-1].B)
			human := fmt.Sprintf("printed=%s reparse=%s", strconv.Quote(text), recs[id-1].St)
			sig := cl + " | " + strconv.Quote(text)
			if dev != "" {
				sig = "dev:" + dev
			}
			rc.Viol = append(rc.Viol, Violation{Clause: cl, Sig: sig, Human: human,
				Replay: map[string]any{"path": paths[id-1], "printed": text, "observation": recs[id-1]}})
		}
	}
	rc.addInt("records_not_decided_opaque", skipped)
	for i := 0; i < 3 && i < len(recs); i++ {
		k := i * (len(recs) / 3)
		rc.sample(map[string]any{"printed": wire.Str(recs[k].B), "reparse": recs[k].St, "fixed_point": recs[k].Fix})
	}
}

func init() {
	checks["C02"] = func(rc *RunCtx) {
		rc.Ev.Assumptions = []string{"paths are built with the exported ast constructors; the runner records the round trips faithfully", "TLC evaluates spec/PathSyntax.tla correctly"}
		paths := gen.PrintUniverse()
		g := gen.New(rc.Seed)
		n := 5000
		if rc.Tier == "thorough" {
			n = 200000
		}
		for i := 0; i < n; i++ {
			paths = append(paths, g.Path(3))
		}
		rc.cov("exhaustive", true)
		rc.cov("rule", "systematic part: every arithmetic / unary operator as left and right operand of every arithmetic, unary, comparison, starts with, like_regex and exists node, with and without a trailing accessor chain on the inner and on the outer node, as subscript bound and under filters; every predicate form as operand of && || ! is unknown on each side, with accessors, under filters; 33 string contents (each C0 control class, quote, backslash, DEL, BMP / astral printable and non-printable, U+2028, U+FFFD) as string literal, key, variable, regex pattern, datetime template; 21 numeric literals; all 25 .** bound shapes; all like_regex flag sets; every method and datetime accessor form; plus seeded random grammar-derivable paths. Each is printed by the real String() and the text parsed by the specification (must give the same tree), by the real parser (same tree, fixed point), through MarshalText / MarshalBinary / Value-Scan, and executed on probe documents")
		rc.cov("paths", len(paths))
		rc.printFamily(paths, "C02")
	}
}
