package main

import (
	"path/filepath"
	"time"

	"verif/harness/wire"
)

func rerunGroup(g Group) (Group, error) {
	out := Group{Kind: g.Kind, Lax: g.Lax, Names: g.Names}
	for _, r := range g.Runs {
		x, err := execG(r.Path, r.Doc, r.Vars, false)
		if err != nil {
			return g, err
		}
		out.Runs = append(out.Runs, x)
	}
	return out, nil
}

// c09Group: P S, P, and $ S on each item of P.
func c09Group(P, S []wire.Node, doc wire.Value, lax bool) (Group, error) {
	g := Group{Kind: "C09", Lax: lax}
	root := wire.Node{K: "root"}
	full := append(append([]wire.Node{}, P...), S...)
	m, err := execG(wire.Path{Lax: lax, Chain: full}, doc, nil, false)
	if err != nil {
		return g, err
	}
	pre, err := execG(wire.Path{Lax: lax, Chain: P}, doc, nil, false)
	if err != nil {
		return g, err
	}
	g.Runs = []GRun{m, pre}
	if pre.Q.Err.Cls == "none" {
		suffix := append([]wire.Node{root}, S...)
		for _, x := range pre.Q.Items {
			r, err := execG(wire.Path{Lax: lax, Chain: suffix}, x, nil, false)
			if err != nil {
				return g, err
			}
			g.Runs = append(g.Runs, r)
		}
	}
	return g, nil
}

func litChain(d wire.Value) ([]wire.Node, bool) {
	switch d.T {
	case "null":
		return []wire.Node{{K: "null"}}, true
	case "bool":
		if d.B {
			return []wire.Node{{K: "true"}}, true
		}
		return []wire.Node{{K: "false"}}, true
	case "str":
		return []wire.Node{{K: "str", S: d.S}}, true
	}
	return nil, false
}

// c09Head: the same steps from $, from a variable bound to the document and
// from a literal equal to it.
func c09Head(S []wire.Node, doc wire.Value, lax bool) (Group, error) {
	g := Group{Kind: "C09head", Lax: lax}
	a, err := execG(wire.Path{Lax: lax, Chain: append([]wire.Node{{K: "root"}}, S...)}, doc, nil, false)
	if err != nil {
		return g, err
	}
	v := wire.Node{K: "var", S: wire.Bytes("v")}
	b, err := execG(wire.Path{Lax: lax, Chain: append([]wire.Node{v}, S...)}, wire.Null(),
		[]wire.Var{{K: wire.Bytes("v"), V: doc}}, false)
	if err != nil {
		return g, err
	}
	g.Runs = []GRun{a, b}
	if lc, ok := litChain(doc); ok {
		c, err := execG(wire.Path{Lax: lax, Chain: append(lc, S...)}, wire.Null(), nil, false)
		if err != nil {
			return g, err
		}
		g.Runs = append(g.Runs, c)
	}
	return g, nil
}

func init() {
	checks["C09"] = func(rc *RunCtx) {
		consts := map[string]string{"MaxSteps": "2", "MaxNodes": "3"}
		if rc.Tier == "thorough" {
			consts = map[string]string{"MaxSteps": "3", "MaxNodes": "3"}
		}
		rc.Ev.Assumptions = stdAssumptions
		if rc.runMC("MC_C09", []string{"Inv"}, consts, 90*time.Minute) == nil {
			return
		}
		chains, err := readNDJSON[chainRow](filepath.Join(rc.Dir, "chains.ndjson"))
		if err != nil {
			rc.infra("%v", err)
			return
		}
		docs, err := readNDJSON[DocRow](filepath.Join(rc.Dir, "docs.ndjson"))
		if err != nil {
			rc.infra("%v", err)
			return
		}
		type job struct {
			c, d int
			lax  bool
		}
		var jobs []job
		for c := range chains {
			for d := range docs {
				jobs = append(jobs, job{c, d, true}, job{c, d, false})
			}
		}
		mk := func(i int) ([]Group, error) {
			j := jobs[i]
			ch := chains[j.c].Chain
			var out []Group
			for k := 0; k < len(ch); k++ {
				P := append([]wire.Node{{K: "root"}}, ch[:k]...)
				g, err := c09Group(P, ch[k:], docs[j.d].Doc, j.lax)
				if err != nil {
					return nil, err
				}
				out = append(out, g)
			}
			h, err := c09Head(ch, docs[j.d].Doc, j.lax)
			if err != nil {
				return nil, err
			}
			return append(out, h), nil
		}
		rc.cov("exhaustive", true)
		rc.cov("rule", "splitting law: every split point of every chain of up to MaxSteps root-independent steps (16-step alphabet: accessors, subscripts, .**, filters on @, item methods incl. keyvalue) x all JSON trees up to MaxNodes nodes x {lax, strict} (strict splits after .** excluded, as in the property), plus the same steps from a variable and from a literal; context templates: constructs that rebind @ / last / leniency, left through each exit, followed by a use of the outer binding, judged against PathSem")
		// the groups are built, judged and released batch by batch (the thorough
		// universe does not fit in memory at once)
		const batch = 8000
		nGroups := 0
		for lo := 0; lo < len(jobs); lo += batch {
			hi := lo + batch
			if hi > len(jobs) {
				hi = len(jobs)
			}
			groups, err := buildGroups(hi-lo, func(i int) ([]Group, error) { return mk(lo + i) })
			if err != nil {
				rc.infra("runner: %v", err)
				return
			}
			nGroups += len(groups)
			rc.groupFamily(groups, rerunGroup, "C09")
		}
		rc.cov("universe", map[string]any{"chains": len(chains), "docs": len(docs), "groups": nGroups, "constants": consts})

		// context templates: exec family, owned by C09
		u := &ExecUniverse{Vars: []VarsRow{{Vars: []wire.Var{}}}}
		if u.Paths, err = readNDJSON[PathRow](filepath.Join(rc.Dir, "paths.ndjson")); err != nil {
			rc.infra("%v", err)
			return
		}
		if u.Docs, err = readNDJSON[DocRow](filepath.Join(rc.Dir, "ctxdocs.ndjson")); err != nil {
			rc.infra("%v", err)
			return
		}
		if vs, err := readNDJSON[VarsRow](filepath.Join(rc.Dir, "ctxvars.ndjson")); err == nil && len(vs) > 0 {
			u.Vars = vs // the variables the templates that start at $v read
		}
		u.cross([]bool{true, false})
		rc.cov("context_templates", map[string]any{"paths": len(u.Paths), "docs": len(u.Docs), "cases": len(u.Cases)})
		rc.execFamily(u, "C09", "C01", "C06") // C06: Exists / First / Match about the same template
	}
}
