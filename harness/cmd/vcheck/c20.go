package main

import (
	"context"
	"fmt"
	"os"
	"path/filepath"
	"runtime"
	"sort"
	"strings"
	"sync"
	"time"

	"verif/harness/run"
	"verif/harness/wire"
)

// CancelOut is one cancelled call.
type CancelOut struct {
	K int    `json:"k"` // the poll at which Done() started to report done
	E string `json:"e"` // error code
	N int    `json:"n"` // items returned
	B bool   `json:"b"` // boolean returned
	P int    `json:"p"` // polls the cancelled call made
}

// CancelRun is one entry point / option set / cause with every k.
type CancelRun struct {
	Entry  string        `json:"entry"`
	Silent bool          `json:"silent"`
	Kind   string        `json:"kind"` // c = Canceled, d = DeadlineExceeded
	Polls0 int           `json:"polls0"`
	Base   wire.EntryObs `json:"base"`
	Outs   []CancelOut   `json:"outs"`
}

// CancelRec is all cancellation runs of one case.
type CancelRec struct {
	ID   int         `json:"id"`
	PI   int         `json:"pi"`
	DI   int         `json:"di"`
	VI   int         `json:"vi"`
	Lax  bool        `json:"lax"`
	Runs []CancelRun `json:"runs"`
}

var entryNames = []string{"query", "first", "exists", "match", "eom"}

func cancelCase(id int, u *ExecUniverse, ref CaseRef) (CancelRec, error) {
	rec := CancelRec{ID: id, PI: ref.PI, DI: ref.DI, VI: ref.VI, Lax: ref.Lax}
	p, err := run.Prepare(u.caseOf(ref))
	if err != nil {
		return rec, err
	}
	for _, silent := range []bool{false, true} {
		p.SetSilent(silent)
		for ei, entry := range entryNames {
			// the uncancelled run of this entry point under this option set
			cc := run.NewCountingCtx(p.Base, 0, nil)
			base := p.One(cc, run.Call(ei), nil)
			base.Bad = ""
			// c = Canceled, d = DeadlineExceeded (a counting context of the runner), u = a real
			// context.WithCancelCause parent cancelled with a custom cause (Err() is Canceled)
			for _, kind := range []string{"c", "d", "u"} {
				cause := context.Canceled
				if kind == "d" {
					cause = context.DeadlineExceeded
				}
				r := CancelRun{Entry: entry, Silent: silent, Kind: kind, Polls0: cc.Polls, Base: base, Outs: []CancelOut{}}
				for k := 1; k <= cc.Polls; k++ {
					kc := run.NewCountingCtx(p.Base, k, cause)
					if kind == "u" {
						kc = run.NewCountingCtxWithCause(p.Base, k)
					}
					o := p.One(kc, run.Call(ei), nil)
					r.Outs = append(r.Outs, CancelOut{K: k, E: o.Err.Code(), N: len(o.Items), B: o.Val, P: kc.Polls})
				}
				rec.Runs = append(rec.Runs, r)
			}
		}
	}
	return rec, nil
}

func (rc *RunCtx) cancelFamily(u *ExecUniverse) {
	recs := make([]CancelRec, len(u.Cases))
	errs := make([]error, runtime.NumCPU())
	var wg sync.WaitGroup
	nw := runtime.NumCPU()
	for w := 0; w < nw; w++ {
		wg.Add(1)
		go func(w int) {
			defer wg.Done()
			for i := w; i < len(u.Cases); i += nw {
				r, err := cancelCase(i+1, u, u.Cases[i])
				if err != nil {
					errs[w] = err
					return
				}
				recs[i] = r
			}
		}(w)
	}
	wg.Wait()
	for _, e := range errs {
		if e != nil {
			rc.infra("runner: %v", e)
			return
		}
	}
	calls, flips := 0, 0
	for _, r := range recs {
		for _, x := range r.Runs {
			calls += len(x.Outs) + 1
			for _, o := range x.Outs {
				if o.P >= o.K {
					flips++
				}
			}
		}
	}
	rc.addInt("evaluations", calls)
	rc.addInt("cancelled_calls_that_observed_the_flip", flips)
	const per = 400
	judge := func(rs []CancelRec) map[int][]string {
		n := shardCount(len(rs), per)
		vs := rc.judgeShards("Trace_Cancel", n, func(s int, dir string) (int, error) {
			part := []CancelRec{}
			for i := s; i < len(rs); i += n {
				part = append(part, rs[i])
			}
			if err := writeNDJSON(filepath.Join(dir, "paths.ndjson"), u.Paths); err != nil {
				return 0, err
			}
			if err := writeNDJSON(filepath.Join(dir, "docs.ndjson"), u.Docs); err != nil {
				return 0, err
			}
			if err := writeNDJSON(filepath.Join(dir, "vars.ndjson"), u.Vars); err != nil {
				return 0, err
			}
			return len(part), writeNDJSON(filepath.Join(dir, "cancel.ndjson"), part)
		}, 20*time.Minute)
		out := map[int][]string{}
		for _, v := range vs {
			out[v.ID] = append(out[v.ID], v.Clauses...)
		}
		return out
	}
	t0 := time.Now()
	verdicts := judge(recs)
	fmt.Printf("  %d cases, %d calls (%d observed the flip), judged in %.1fs, %d with remarks\n", len(recs), calls, flips, time.Since(t0).Seconds(), len(verdicts))
	drift := map[string]int{}
	type rej struct {
		id int
		cl string
	}
	var rejs []rej
	for id, cls := range verdicts {
		for _, cl := range cls {
			switch {
			case strings.HasPrefix(cl, "drift."):
				drift[cl]++
				if os.Getenv("VERIF_SHOWDRIFT") != "" && drift[cl] <= 12 {
					ref := u.Cases[id-1]
					fmt.Printf("  DRIFT %s %s lax=%v real polls=%d\n", cl, u.human(ref), ref.Lax, recs[id-1].Runs[0].Polls0)
				}
			case strings.HasPrefix(cl, "infra."):
				rc.infra("cancel record %d: %s", id, cl)
			case strings.HasPrefix(cl, "C20."):
				rejs = append(rejs, rej{id, cl})
			}
		}
	}
	rc.cov("spec_drift", drift)
	sort.Slice(rejs, func(i, j int) bool {
		return rejs[i].id < rejs[j].id || (rejs[i].id == rejs[j].id && rejs[i].cl < rejs[j].cl)
	})
	if len(rejs) > maxConfirm {
		rc.Notes = append(rc.Notes, fmt.Sprintf("%d further rejections were not re-executed", len(rejs)-maxConfirm))
		rejs = rejs[:maxConfirm]
	}
	if len(rejs) > 0 {
		idx := map[int]int{}
		var again []CancelRec
		for _, r := range rejs {
			if _, ok := idx[r.id]; ok {
				continue
			}
			x, err := cancelCase(len(again)+1, u, u.Cases[r.id-1])
			if err != nil {
				rc.infra("re-execution: %v", err)
				return
			}
			idx[r.id] = x.ID
			again = append(again, x)
		}
		v2 := judge(again)
		for _, r := range rejs {
			ok := false
			for _, c := range v2[idx[r.id]] {
				if c == r.cl {
					ok = true
				}
			}
			ref := u.Cases[r.id-1]
			human := u.human(ref) + fmt.Sprintf(" lax=%v", ref.Lax)
			if !ok {
				rc.unreproduced("cancel record %d (%s) rejected with %s", r.id, human, r.cl)
				continue
			}
			// find one offending k for the human-readable line
			detail := ""
			for _, x := range recs[r.id-1].Runs {
				tag := "." + x.Entry + map[bool]string{true: ".s", false: ".v"}[x.Silent]
				if !strings.HasSuffix(r.cl, tag) {
					continue
				}
				for _, o := range x.Outs {
					if o.P >= o.K && (!strings.HasPrefix(o.E, "ctx:") || o.N != 0 || o.B) {
						detail = fmt.Sprintf(" cancelled at poll %d of %d (%s): returned err=%s items=%d bool=%v", o.K, x.Polls0, x.Kind, o.E, o.N, o.B)
						break
					}
				}
				if detail != "" {
					break
				}
			}
			rc.Viol = append(rc.Viol, Violation{Clause: r.cl, Sig: r.cl + " | " + human, Human: human + detail,
				Replay: map[string]any{"case": u.caseOf(ref), "record": recs[r.id-1]}})
		}
	}
	for i := 0; i < 3 && i < len(recs); i++ {
		r := recs[i*(len(recs)/3)]
		rc.sample(map[string]any{"case": u.human(u.Cases[r.ID-1]), "query_polls": r.Runs[0].Polls0,
			"query_cancelled_at_each_poll": r.Runs[0].Outs})
	}
}

func init() {
	checks["C20"] = func(rc *RunCtx) {
		consts := map[string]string{"MaxNodes": "2"}
		nRand := 1500
		if rc.Tier == "thorough" {
			consts = map[string]string{"MaxNodes": "3"}
			nRand = 30000
		}
		rc.Ev.Assumptions = append([]string{"the counting context.Context of the runner reports done from its k-th Done() call on; a cancellation between two polls is indistinguishable from one immediately before the next poll"}, stdAssumptions...)
		if rc.runMC("MC_C20", []string{"Inv"}, consts, 60*time.Minute) == nil {
			return
		}
		u, err := rc.loadMCUniverse()
		if err != nil {
			rc.infra("universe: %v", err)
			return
		}
		u.cross([]bool{true, false})
		rc.cov("exhaustive", true)
		rc.cov("rule", "pool: 29 expression paths and 7 predicate checks covering every node kind and every consumer of an operand's status (is unknown, exists, !, &&, ||, filter, comparison / arithmetic / starts with / like_regex operands, subscript bounds, .**, unwrap loops, methods, keyvalue, variables) x all JSON trees up to MaxNodes nodes plus multi-item documents x {lax, strict}; for each: five entry points x {verbose, silent} x {Canceled, DeadlineExceeded} x every k from 1 to the number of polls that entry point makes uncancelled; plus seeded random paths")
		rc.cov("universe", map[string]any{"paths": len(u.Paths), "docs": len(u.Docs), "cases": len(u.Cases), "constants": consts, "random_cases": nRand})
		rc.cancelFamily(u)
		rc.cancelFamily(randomUniverse(rc.Seed, nRand, 3, nil))
	}
}
