package main

import (
	"encoding/json"
	"fmt"
	"os"
	"path/filepath"
	"strings"
	"time"

	"github.com/theory/sqljson/path"

	"verif/harness/run"
	"verif/harness/tlc"
	"verif/harness/wire"
)

// evalCmd: vcheck eval '<path>' '<json doc>' ['<json vars>'] — developer aid:
// shows what the real code and what the specification return.
func evalCmd(args []string) int {
	p, err := path.Parse(args[0])
	if err != nil {
		fmt.Println("parse:", err)
		return 2
	}
	wp, err := wire.FromAST(p.AST)
	if err != nil {
		fmt.Println("wire:", err)
		return 2
	}
	dec := json.NewDecoder(strings.NewReader(args[1]))
	dec.UseNumber()
	var doc any
	if err := dec.Decode(&doc); err != nil {
		fmt.Println("doc:", err)
		return 2
	}
	conv := func(x any) any { return x }
	_ = conv
	dv, err := wire.FromGo(floatify(doc))
	if err != nil {
		fmt.Println("doc:", err)
		return 2
	}
	vars := []wire.Var{}
	if len(args) > 2 {
		var m map[string]any
		d2 := json.NewDecoder(strings.NewReader(args[2]))
		d2.UseNumber()
		if err := d2.Decode(&m); err != nil {
			fmt.Println("vars:", err)
			return 2
		}
		for k, v := range m {
			vv, _ := wire.FromGo(floatify(v))
			vars = append(vars, wire.Var{K: wire.Bytes(k), V: vv})
		}
	}
	c := wire.Case{Path: wp, Doc: dv, Vars: vars, Zone: "UTC"}
	rec, err := run.ObserveCase(1, c)
	if err != nil {
		fmt.Println("run:", err)
		return 2
	}
	fmt.Println("printed :", pathText(wp))
	fmt.Println("real  v :", showRun(rec.V))
	fmt.Println("real  s :", showRun(rec.S))
	dir, err := tlc.Scratch("eval")
	if err != nil {
		return 2
	}
	defer os.RemoveAll(dir)
	writeNDJSON(filepath.Join(dir, "case.ndjson"), []wire.Case{c})
	mod := `---- MODULE EvalOne ----
EXTENDS ExecLaws, Json
C == ndJsonDeserialize("case.ndjson")[1]
Case == [path |-> C.path, doc |-> C.doc, vars |-> C.vars, silent |-> FALSE, useTZ |-> C.useTZ, zone |-> C.zone]
ASSUME PrintT(<<"SPEC", Eval(Case, Par0)>>)
ASSUME PrintT(<<"SPEC-ALLDEVS", Eval(Case, [Par0 EXCEPT !.dev = DevNames])>>)
VARIABLE x
Init == x = 0
Step == UNCHANGED x
====
`
	os.WriteFile(filepath.Join(dir, "EvalOne.tla"), []byte(mod), 0o644)
	res, err := tlc.Run(dir, "EvalOne", cfgText(nil, nil), 1, 2000, time.Minute)
	if err != nil {
		fmt.Println(err)
		return 2
	}
	out := res.Output
	if i := strings.Index(out, `"SPEC"`); i >= 0 {
		j := strings.Index(out[i:], "Computing initial")
		if j < 0 {
			j = len(out) - i
		}
		fmt.Println("spec    :", strings.Join(strings.Fields(out[i:i+j]), " "))
	} else {
		fmt.Println(res.Tail(25))
	}
	return 0
}

func floatify(x any) any {
	switch x := x.(type) {
	case json.Number:
		f, _ := x.Float64()
		return f
	case []any:
		for i := range x {
			x[i] = floatify(x[i])
		}
	case map[string]any:
		for k := range x {
			x[k] = floatify(x[k])
		}
	}
	return x
}
