package main

import (
	"path/filepath"
	"time"

	"verif/harness/wire"
)

type strRow struct {
	S []int `json:"s"`
}

var dtMethods = []string{"datetime", "date", "time", "time_tz", "timestamp", "timestamp_tz"}

func dtNode(op string, prec int) wire.Node {
	n := wire.Node{K: "dt", Op: op}
	if prec >= 0 {
		p := wire.Int(int64(prec))
		n.Arg = &wire.Node{K: "num", V: &p}
	}
	return n
}

// dtPairsCheck: the datetime order on the special values of spec/DTLaws.tla
// (DST hours, a day boundary in five offsets, times of day with and without
// offsets): MC_DTPairs checks the laws on the specification for every pair
// and triple; every ordered pair is then compared on the real code with
// < == >= through .datetime(), with and without WithTZ, in three context
// zones, and judged against DateTime.tla (used by C01 and C12; C17 has the
// large grid).
func dtPairsCheck(rc *RunCtx, prefixes ...string) {
	if rc.runMC("MC_DTPairs", []string{"Inv"}, nil, 30*time.Minute) == nil {
		return
	}
	rows, err := readNDJSON[strRow](filepath.Join(rc.Dir, "dtspecial.ndjson"))
	if err != nil {
		rc.infra("%v", err)
		return
	}
	u := &ExecUniverse{}
	va := []wire.Node{{K: "var", S: wire.Bytes("a")}}
	vb := []wire.Node{{K: "var", S: wire.Bytes("b")}}
	for _, a := range rows {
		for _, b := range rows {
			vars := []wire.Var{{K: wire.Bytes("a"), V: wire.Value{T: "str", S: a.S}}, {K: wire.Bytes("b"), V: wire.Value{T: "str", S: b.S}}}
			for _, op := range []string{"lt", "eq", "ge", "ne"} {
				l := append(append([]wire.Node{}, va...), dtNode("datetime", -1))
				r := append(append([]wire.Node{}, vb...), dtNode("datetime", -1))
				for _, tz := range []struct {
					use  bool
					zone string
				}{{false, "UTC"}, {true, "UTC"}, {true, "+05:30"}, {true, "America/New_York"}} {
					u.Paths = append(u.Paths, PathRow{Pred: true, Chain: []wire.Node{{K: "bin", Op: op, L: l, R: r}}})
					u.Docs = append(u.Docs, DocRow{Doc: wire.Null()})
					u.Vars = append(u.Vars, VarsRow{Vars: vars})
					n := len(u.Paths)
					u.Cases = append(u.Cases, CaseRef{PI: n, DI: n, VI: n, Lax: true, UseTZ: tz.use, Zone: tz.zone})
				}
			}
		}
	}
	rc.cov("datetime_pairs", map[string]any{"values": len(rows), "cases": len(u.Cases)})
	rc.execFamily(u, prefixes...)
}

func init() {
	checks["C17"] = func(rc *RunCtx) {
		rc.Ev.Assumptions = append([]string{"time zone database of the sandbox for America/New_York (the specification uses the US rule since 2007)"}, stdAssumptions...)
		if rc.runMC("MC_C17", []string{"Inv"}, nil, 60*time.Minute) == nil {
			return
		}
		// every pair and every triple of the special values (DST hours, day boundary, times of day)
		if rc.runMC("MC_DTPairs", []string{"Inv"}, nil, 30*time.Minute) == nil {
			return
		}
		rows, err := readNDJSON[strRow](filepath.Join(rc.Dir, "dtstrings.ndjson"))
		if err != nil {
			rc.infra("%v", err)
			return
		}
		var strs []wire.Value
		for _, r := range rows {
			strs = append(strs, wire.Value{T: "str", S: r.S})
		}
		bad := []string{"", "abc", "2015-13-01", "2015-02-30", "2015-00-10", "2015-08-02T25:00:00", "12:34", "12:60:00", "12:00:61", "2015-08-02X12:00:00",
			"2015-08-02T12:00:00+", "2015-08-02T12:00:00+5", "12:00:00 +05", "2015-8-2", "15-08-02", "2015-08-02T", "2015-08-02 ", " 2015-08-02", "12:00:00.",
			"12:00:00z", "12:00:00+0530"}
		zones := []string{"UTC", "+05:30", "America/New_York"}
		if rc.Tier == "thorough" {
			zones = []string{"UTC", "+05:30", "-04:00", "America/New_York"}
		}
		u := &ExecUniverse{}
		va := []wire.Node{{K: "var", S: wire.Bytes("a")}}
		add := func(chain []wire.Node, vars []wire.Var, pred bool) {
			for _, tz := range []bool{false, true} {
				for _, z := range zones {
					if !tz && z != "UTC" {
						continue
					}
					u.Paths = append(u.Paths, PathRow{Pred: pred, Chain: chain})
					u.Docs = append(u.Docs, DocRow{Doc: wire.Null()})
					u.Vars = append(u.Vars, VarsRow{Vars: vars})
					n := len(u.Paths)
					u.Cases = append(u.Cases, CaseRef{PI: n, DI: n, VI: n, Lax: true, UseTZ: tz, Zone: z})
				}
			}
		}
		hasFrac := func(s wire.Value) bool {
			for _, b := range s.S {
				if b == '.' {
					return true
				}
			}
			return false
		}
		for i, s := range strs {
			vars := []wire.Var{{K: wire.Bytes("a"), V: s}}
			for _, m := range dtMethods {
				add(append(append([]wire.Node{}, va...), dtNode(m, -1)), vars, false)
				add(append(append([]wire.Node{}, va...), dtNode(m, -1), wire.Node{K: "method", Name: "type"}), vars, false)
				if m == "datetime" || m == "date" {
					continue
				}
				precs := []int{0, 6}
				if hasFrac(s) || rc.Tier == "thorough" {
					precs = []int{0, 1, 2, 3, 4, 5, 6, 7}
				}
				if i%3 != 0 && rc.Tier != "thorough" {
					precs = precs[:1]
				}
				for _, p := range precs {
					add(append(append([]wire.Node{}, va...), dtNode(m, p)), vars, false)
				}
			}
			add(append(append([]wire.Node{}, va...), dtNode("datetime", -1), wire.Node{K: "method", Name: "string"}), vars, false)
		}
		fracRows, err := readNDJSON[strRow](filepath.Join(rc.Dir, "fracstrings.ndjson"))
		if err != nil {
			rc.infra("%v", err)
			return
		}
		for _, r := range fracRows {
			vars := []wire.Var{{K: wire.Bytes("a"), V: wire.Value{T: "str", S: r.S}}}
			for _, m := range []string{"time", "time_tz", "timestamp", "timestamp_tz"} {
				for p := 0; p <= 7; p++ {
					add(append(append([]wire.Node{}, va...), dtNode(m, p)), vars, false)
					add(append(append([]wire.Node{}, va...), dtNode(m, p), wire.Node{K: "method", Name: "string"}), vars, false)
				}
			}
			add(append(append([]wire.Node{}, va...), dtNode("datetime", -1)), vars, false)
		}
		for _, t := range bad {
			vars := []wire.Var{{K: wire.Bytes("a"), V: wire.StrV(t)}}
			for _, m := range dtMethods {
				add(append(append([]wire.Node{}, va...), dtNode(m, -1)), vars, false)
			}
		}
		for _, v := range []wire.Value{wire.Null(), wire.Float(1), wire.Bool(true), wire.Arr(wire.StrV("2015-08-02"), wire.StrV("12:00:00")), wire.Obj("a", wire.StrV("2015-08-02"))} {
			vars := []wire.Var{{K: wire.Bytes("a"), V: v}}
			for _, m := range dtMethods {
				add(append(append([]wire.Node{}, va...), dtNode(m, -1)), vars, false)
			}
		}
		tpl := wire.Node{K: "str", S: wire.Bytes("YYYY-MM-DD")}
		add(append(append([]wire.Node{}, va...), wire.Node{K: "dt", Op: "datetime", Arg: &tpl}), []wire.Var{{K: wire.Bytes("a"), V: wire.StrV("2015-08-02")}}, false)
		// comparisons: a.datetime() op b.datetime() and after explicit casts to the common type
		step := 5
		if rc.Tier == "thorough" {
			step = 2
		}
		vb := []wire.Node{{K: "var", S: wire.Bytes("b")}}
		dstRows, err := readNDJSON[strRow](filepath.Join(rc.Dir, "dststrings.ndjson"))
		if err != nil {
			rc.infra("%v", err)
			return
		}
		isDST := map[string]bool{}
		for _, r := range dstRows {
			isDST[wire.Str(r.S)] = true
		}
		for i := 0; i < len(strs); i++ {
			for j := 0; j < len(strs); j++ {
				// every step-th string, and every pair of values around the DST transitions
				if !(i%step == 0 && j%step == 0) && !(isDST[wire.Str(strs[i].S)] && isDST[wire.Str(strs[j].S)]) {
					continue
				}
				vars := []wire.Var{{K: wire.Bytes("a"), V: strs[i]}, {K: wire.Bytes("b"), V: strs[j]}}
				for _, op := range []string{"lt", "eq", "ge", "ne"} {
					for _, m := range []string{"datetime", "timestamp_tz", "time_tz"} {
						if m != "datetime" && op != "lt" {
							continue
						}
						l := append(append([]wire.Node{}, va...), dtNode(m, -1))
						r := append(append([]wire.Node{}, vb...), dtNode(m, -1))
						add([]wire.Node{{K: "bin", Op: op, L: l, R: r}}, vars, true)
					}
				}
			}
		}
		// several items on one side of a comparison: every pair is examined in order, and a pair that
		// cannot be compared without WithTZ ends the predicate whatever follows it
		seqs := [][2]string{{"2015-08-02T12:34:56", "2015-08-02T12:34:56Z"}, {"2015-08-02T12:34:56Z", "2015-08-02T12:34:56"},
			{"2014-01-01T00:00:00Z", "2013-01-01"}, {"12:00:00", "2015-08-02"}, {"2015-08-02", "2016-01-01"}}
		for _, sq := range seqs {
			vars := []wire.Var{{K: wire.Bytes("a"), V: wire.Arr(wire.StrV(sq[0]), wire.StrV(sq[1]))}, {K: wire.Bytes("b"), V: wire.StrV("2015-08-02T12:34:57Z")}}
			l := []wire.Node{{K: "var", S: wire.Bytes("a")}, {K: "anyarr"}, dtNode("datetime", -1)}
			r := append(append([]wire.Node{}, vb...), dtNode("datetime", -1))
			for _, op := range []string{"lt", "eq", "ne"} {
				add([]wire.Node{{K: "bin", Op: op, L: l, R: r}}, vars, true)
				add([]wire.Node{{K: "bin", Op: op, L: r, R: l}}, vars, true)
				c := wire.Node{K: "bin", Op: op, L: []wire.Node{{K: "cur"}, {K: "anyarr"}, dtNode("datetime", -1)}, R: r}
				add([]wire.Node{{K: "var", S: wire.Bytes("a")}, {K: "filter", P: &c}}, vars, false)
			}
		}
		// steps after a datetime method (also where only existence is asked)
		for _, t := range []string{"2015-08-02", "2015-08-02T12:34:56Z", "12:34:56", "2023-08-15T12:34:56+05:30"} {
			vars := []wire.Var{{K: wire.Bytes("a"), V: wire.StrV(t)}, {K: wire.Bytes("b"), V: wire.StrV("2000-01-01T00:00:00Z")}}
			c := wire.Node{K: "bin", Op: "lt", L: []wire.Node{{K: "cur"}}, R: append(append([]wire.Node{}, vb...), dtNode("timestamp_tz", -1))}
			add(append(append([]wire.Node{}, va...), dtNode("timestamp_tz", -1), wire.Node{K: "filter", P: &c}), vars, false)
			ty := wire.Node{K: "bin", Op: "eq", L: []wire.Node{{K: "cur"}}, R: []wire.Node{{K: "str", S: wire.Bytes("date")}}}
			add(append(append([]wire.Node{}, va...), dtNode("datetime", -1), wire.Node{K: "method", Name: "type"}, wire.Node{K: "filter", P: &ty}), vars, false)
			add(append(append([]wire.Node{}, va...), dtNode("datetime", -1), wire.Node{K: "key", S: wire.Bytes("x")}), vars, false)
		}
		rc.cov("exhaustive", true)
		rc.cov("rule", "grid of 222 ISO-8601 strings (five types; offsets Z, +00, -04, -04:30, +05:30, -12, +14; day / month / year / leap-day boundaries 0001-01-01 .. 9999-12-31; 0..9 fractional digits) plus 22 malformed strings and non-string items x six datetime methods, with .type() and .string(), precisions 0..7 x {WithTZ, not} x context zones {UTC, +05:30, America/New_York} (thorough also -04:00); pairwise comparisons (every 5th string, thorough every 2nd, and all pairs of 25 values around the hours America/New_York skips and repeats and around a day boundary; 20 strings whose fraction lies exactly half way at some precision x four typed methods x precisions 0..7) with < == >= through .datetime() and after explicit casts to the common type; every result judged against spec/DateTime.tla")
		rc.cov("universe", map[string]any{"strings": len(strs), "cases": len(u.Cases)})
		rc.execFamily(u, "C17", "C01", "C06") // C06: Exists / First / Match about the same datetime path
	}
}
