package main

import (
	"path/filepath"
	"time"

	"verif/harness/wire"
)

// loadCorpus reads an abstract corpus exported by an MC module and
// instantiates every number in each Go representation it has.
func (rc *RunCtx) loadCorpus() []slot {
	rows, err := readNDJSON[corpusRow](filepath.Join(rc.Dir, "corpus.ndjson"))
	if err != nil {
		rc.infra("%v", err)
		return nil
	}
	var slots []slot
	for _, r := range rows {
		slots = append(slots, instantiate(r.V)...)
	}
	return slots
}

// addCase appends one case with its own table rows.
func (u *ExecUniverse) addCase(p wire.Path, doc wire.Value, vars []wire.Var) {
	u.Paths = append(u.Paths, PathRow{Pred: p.Pred, Chain: p.Chain})
	u.Docs = append(u.Docs, DocRow{Doc: doc})
	u.Vars = append(u.Vars, VarsRow{Vars: nzVars(vars)})
	n := len(u.Paths)
	u.Cases = append(u.Cases, CaseRef{PI: n, DI: n, VI: n, Lax: p.Lax, Zone: "UTC"})
}

// c13Universe: every ordered pair of the numeric corpus under the five
// operators, unary forms, operand-count / operand-type cases, unary operators
// over sequences (shared with C05, whose subject is every input).
func c13Universe(slots []slot) *ExecUniverse {
	u := &ExecUniverse{}
	ops := []string{"add", "sub", "mul", "div", "mod"}
	for _, a := range slots {
		la, va := operand(a, "a")
		for _, b := range slots {
			lb, vb := operand(b, "b")
			vars := append(append([]wire.Var{}, va...), vb...)
			for _, op := range ops {
				u.addCase(wire.Path{Lax: true, Chain: []wire.Node{{K: "bin", Op: op, L: la, R: lb}}}, wire.Null(), vars)
			}
		}
		// unary forms (a bare numeric literal operand would be folded by the parser)
		if !a.Lit {
			for _, op := range []string{"plus", "minus"} {
				u.addCase(wire.Path{Lax: true, Chain: []wire.Node{{K: "un", Op: op, X: la}}}, wire.Null(), va)
				u.addCase(wire.Path{Lax: false, Chain: []wire.Node{{K: "un", Op: "minus", X: []wire.Node{{K: "un", Op: op, X: la}}}}}, wire.Null(), va)
			}
			u.addCase(wire.Path{Lax: true, Chain: append(append([]wire.Node{}, la...), wire.Node{K: "method", Name: "abs"})}, wire.Null(), va)
		}
	}
	// operand-count and operand-type errors, unary over sequences
	one := wire.Int(1)
	lit1 := []wire.Node{{K: "num", V: &one}}
	root := []wire.Node{{K: "root"}}
	all := []wire.Node{{K: "root"}, {K: "anyarr"}}
	for _, doc := range []wire.Value{wire.Arr(), wire.Arr(wire.Float(1)), wire.Arr(wire.Float(1), wire.Float(2)), wire.Arr(wire.Float(1), wire.StrV("a")),
		wire.Arr(wire.StrV("a"), wire.Float(1)), wire.Arr(wire.Arr(wire.Float(1), wire.Float(2))), wire.StrV("a"), wire.Null(), wire.Bool(true), wire.Float(2.5),
		wire.Obj("a", wire.Float(1)), wire.Arr(wire.Float(1), wire.Null(), wire.Float(2))} {
		for _, lax := range []bool{true, false} {
			for _, op := range ops {
				u.addCase(wire.Path{Lax: lax, Chain: []wire.Node{{K: "bin", Op: op, L: root, R: lit1}}}, doc, nil)
				u.addCase(wire.Path{Lax: lax, Chain: []wire.Node{{K: "bin", Op: op, L: lit1, R: all}}}, doc, nil)
				u.addCase(wire.Path{Lax: lax, Chain: []wire.Node{{K: "bin", Op: op, L: all, R: all}}}, doc, nil)
			}
			for _, op := range []string{"plus", "minus"} {
				u.addCase(wire.Path{Lax: lax, Chain: []wire.Node{{K: "un", Op: op, X: root}}}, doc, nil)
				u.addCase(wire.Path{Lax: lax, Chain: []wire.Node{{K: "un", Op: op, X: all}}}, doc, nil)
			}
		}
	}
	// an operand that yields one number and then fails on a later item (with the
	// error suppressed the operation must fail too, not use the partial result)
	negAll := []wire.Node{{K: "un", Op: "minus", X: all}}
	keyA := []wire.Node{{K: "root"}, {K: "anyarr"}, {K: "key", S: wire.Bytes("a")}}
	zero, seven := wire.Int(0), wire.Int(7)
	idx07 := []wire.Node{{K: "root"}, {K: "idx", Subs: []wire.Sub{{From: []wire.Node{{K: "num", V: &zero}}}, {From: []wire.Node{{K: "num", V: &seven}}}}}}
	for _, doc := range []wire.Value{wire.Arr(wire.Float(1), wire.StrV("a")), wire.Arr(wire.StrV("a"), wire.Float(1)), wire.Arr(wire.Float(41)),
		wire.Arr(wire.Obj("a", wire.Float(4)), wire.Obj("b", wire.Float(2))), wire.Arr(wire.Obj("b", wire.Float(2)), wire.Obj("a", wire.Float(4)))} {
		for _, lax := range []bool{true, false} {
			for _, opnd := range [][]wire.Node{negAll, keyA, idx07} {
				for _, op := range []string{"add", "mul", "div"} {
					u.addCase(wire.Path{Lax: lax, Chain: []wire.Node{{K: "bin", Op: op, L: opnd, R: lit1}}}, doc, nil)
					u.addCase(wire.Path{Lax: lax, Chain: []wire.Node{{K: "bin", Op: op, L: lit1, R: opnd}}}, doc, nil)
					cond := wire.Node{K: "bin", Op: "eq", L: []wire.Node{{K: "bin", Op: op, L: opnd, R: lit1}}, R: lit1}
					u.addCase(wire.Path{Lax: lax, Chain: []wire.Node{{K: "root"}, {K: "filter", P: &cond}}}, doc, nil)
				}
			}
		}
	}
	// unary operators over several items, followed by a filter or method that
	// rejects / accepts items at different positions
	two := wire.Int(-2)
	m1 := wire.Int(-1)
	m3 := wire.Int(-3)
	cur := []wire.Node{{K: "cur"}}
	flt := func(op string, v wire.Value) wire.Node {
		vv := v
		p := wire.Node{K: "bin", Op: op, L: cur, R: []wire.Node{{K: "num", V: &vv}}}
		return wire.Node{K: "filter", P: &p}
	}
	for _, doc := range []wire.Value{wire.Arr(wire.Float(1), wire.Float(2), wire.Float(3.5), wire.Float(4)), wire.Arr(wire.Float(4), wire.Float(1)),
		wire.Arr(wire.Float(2)), wire.Arr(), wire.Arr(wire.Float(1), wire.StrV("a"), wire.Float(3)), wire.Obj("a", wire.Arr(wire.Float(1), wire.Float(2), wire.Float(3)))} {
		for _, lax := range []bool{true, false} {
			for _, uop := range []string{"minus", "plus"} {
				for _, operandChain := range [][]wire.Node{all, {{K: "root"}, {K: "key", S: wire.Bytes("a")}, {K: "anyarr"}}} {
					h := wire.Node{K: "un", Op: uop, X: operandChain}
					for _, tail := range []wire.Node{flt("lt", m1), flt("ne", two), flt("lt", m3), flt("gt", wire.Int(0)), {K: "method", Name: "abs"}, {K: "method", Name: "type"}, {K: "method", Name: "string"}} {
						u.addCase(wire.Path{Lax: lax, Chain: []wire.Node{h, tail}}, doc, nil)
						ex := wire.Node{K: "un", Op: "exists", X: []wire.Node{h, tail}}
						u.addCase(wire.Path{Lax: lax, Pred: true, Chain: []wire.Node{ex}}, doc, nil)
					}
				}
			}
		}
	}
	return u
}

func init() {
	checks["C13"] = func(rc *RunCtx) {
		rc.Ev.Assumptions = stdAssumptions
		if rc.runMC("MC_C13", []string{"Inv"}, nil, 30*time.Minute) == nil {
			return
		}
		slots := rc.loadCorpus()
		if slots == nil {
			return
		}
		u := c13Universe(slots)
		rc.cov("exhaustive", true)
		rc.cov("rule", "boundary corpus of 25 numbers (0, +-1, +-2, 3, 7, 10, int32/int64 limits and neighbours, 2^53 neighbours, 1/2, 3/2, -5/2, 2^63, -2^63-1, 1e308, 5e-324) each in every Go representation (int64 literal, float64, json.Number) -> every ordered pair x {+ - * / %}, unary + - and -(-x) and .abs() on each, plus operand-count / operand-type cases and unary operators over sequences; every result judged against the exact arithmetic of spec/Num.tla (BigNum), and the + and * matrices judged for symmetry on the real results")
		rc.cov("corpus_size", len(slots))
		rc.execFamily(u, "C13", "C01")
		rc.matrixFamily(func() ([]MatrixRec, error) {
			var out []MatrixRec
			for i, kind := range []string{"add", "mul"} {
				m, err := buildMatrix(i+1, kind, slots, true)
				if err != nil {
					return nil, err
				}
				out = append(out, m)
			}
			return out, nil
		}, "C13")
	}
}
