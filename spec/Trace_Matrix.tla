---------------------------- MODULE Trace_Matrix ----------------------------
(* Trace specification for C12 (and the symmetric-operator laws of C13):   *)
(* a record is the complete matrix of what the real code answered for      *)
(* every ordered pair of a value corpus:                                    *)
(*   [id, kind, lax, vals, m]  with m[i][j] a string of outcome letters,    *)
(*   kind "cmp": six letters for == != < > <= >= (T F U, H = error,         *)
(*   P = panic); kind "starts": one letter.                                 *)
(* TLC checks the order laws on the REAL matrix (trichotomy, duality,       *)
(* unions, transitivity over all triples, null, cross-type) and agreement   *)
(* of every cell with the order the specification defines.                  *)
EXTENDS ExecLaws, Json

Recs == ndJsonDeserialize("matrix.ndjson")

Env0 == [useTZ |-> FALSE, zone |-> "UTC"]
Letter(s, p) == SubSeq(s, p, p)
OpAt == <<"eq", "ne", "lt", "gt", "le", "ge">>

SpecLetter(op, a, b) ==
  LET c == CompareItems(op, a, b, Env0)
  IN IF c.err = "opaque" THEN "?" ELSE IF c.err # "none" THEN "H" ELSE c.val

(* witnesses are printed on their own short lines *)
Witness(tag, x) == PrintT(<<"W", tag, x>>)

JudgeCmp(r) ==
  LET n == Len(r.vals)
      L(i, j, p) == Letter(r.m[i][j], p)
      eq(i, j) == L(i, j, 1) = "T"   lt(i, j) == L(i, j, 3) = "T"   gt(i, j) == L(i, j, 4) = "T"
      le(i, j) == L(i, j, 5) = "T"   ge(i, j) == L(i, j, 6) = "T"   ne(i, j) == L(i, j, 2) = "T"
      comparable(i, j) == L(i, j, 1) # "U"
      badCell == {<<i, j, p>> \in (1..n) \X (1..n) \X (1..6) :
                    LET s == SpecLetter(OpAt[p], r.vals[i], r.vals[j]) IN s # "?" /\ s # L(i, j, p)}
      crash == {<<i, j>> \in (1..n) \X (1..n) : \E p \in 1..6 : L(i, j, p) \in {"P", "H", "E"}}
      tri == {<<i, j>> \in (1..n) \X (1..n) : comparable(i, j) /\ r.vals[i].t # "null" /\ r.vals[j].t # "null" /\
                 Cardinality({x \in {1, 3, 4} : L(i, j, x) = "T"}) # 1}
      dual == {<<i, j>> \in (1..n) \X (1..n) : lt(i, j) # gt(j, i) \/ eq(i, j) # eq(j, i)}
      unions == {<<i, j>> \in (1..n) \X (1..n) : comparable(i, j) /\ r.vals[i].t # "null" /\ r.vals[j].t # "null" /\
                 (le(i, j) # (lt(i, j) \/ eq(i, j)) \/ ge(i, j) # (gt(i, j) \/ eq(i, j)) \/ ne(i, j) = eq(i, j))}
      trans == {<<i, j, k>> \in (1..n) \X (1..n) \X (1..n) :
                 \/ lt(i, j) /\ lt(j, k) /\ ~lt(i, k)
                 \/ eq(i, j) /\ eq(j, k) /\ ~eq(i, k)
                 \/ eq(i, j) /\ lt(j, k) /\ ~lt(i, k)}
      show(S, tag) == S = {} \/ Witness(tag, CHOOSE x \in S : TRUE)
  IN (IF crash = {} THEN {} ELSE IF show(crash, "crash") THEN {"C12.error-or-panic"} ELSE {})
     \cup (IF badCell = {} THEN {} ELSE IF show(badCell, "cell") THEN {"C12.differs-from-order"} ELSE {})
     \cup (IF tri = {} THEN {} ELSE IF show(tri, "trichotomy") THEN {"C12.trichotomy"} ELSE {})
     \cup (IF dual = {} THEN {} ELSE IF show(dual, "duality") THEN {"C12.duality"} ELSE {})
     \cup (IF unions = {} THEN {} ELSE IF show(unions, "unions") THEN {"C12.unions"} ELSE {})
     \cup (IF trans = {} THEN {} ELSE IF show(trans, "transitivity") THEN {"C12.transitivity"} ELSE {})

JudgeStarts(r) ==
  LET n == Len(r.vals)
      bad == {<<i, j>> \in (1..n) \X (1..n) :
                LET a == r.vals[i]  b == r.vals[j]
                    want == IF a.t = "str" /\ b.t = "str" THEN (IF BytesPrefix(b.s, a.s) THEN "T" ELSE "F") ELSE "U"
                IN Letter(r.m[i][j], 1) # want}
  IN IF bad = {} THEN {} ELSE IF Witness("starts", CHOOSE x \in bad : TRUE) THEN {"C12.starts-with"} ELSE {}

(* C13: x + y = y + x and x * y = y * x on the real results; cells hold the  *)
(* result items themselves (r.res[i][j] = [items, e])                        *)
JudgeSym(r) ==
  LET n == Len(r.vals)
      bad == {<<i, j>> \in (1..n) \X (1..n) : r.res[i][j] # r.res[j][i]}
  IN IF bad = {} THEN {} ELSE IF Witness(r.kind, CHOOSE x \in bad : TRUE) THEN {"C13.not-commutative." \o r.kind} ELSE {}

JudgeMatrix(r) ==
  CASE r.kind = "cmp" -> JudgeCmp(r)
    [] r.kind = "starts" -> JudgeStarts(r)
    [] r.kind \in {"add", "mul"} -> JudgeSym(r)

VARIABLES l, verdict
Init == /\ l \in 1..Len(Recs)
        /\ verdict = JudgeMatrix(Recs[l])
        /\ \A cl \in verdict : PrintT(<<"V", Recs[l].id, cl>>)
Step == UNCHANGED <<l, verdict>>
=============================================================================
