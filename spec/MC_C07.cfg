INIT Init
NEXT Step
CHECK_DEADLOCK FALSE
INVARIANT Inv
CONSTANTS
 MaxSteps = 2
 MaxNodes = 3
