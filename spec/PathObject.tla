----------------------------- MODULE PathObject -----------------------------
(* The Path object and its callers (property C19).                          *)
(*                                                                          *)
(* A parsed Path is shared by any number of goroutines.  Every call builds  *)
(* its own executor (path/exec/exec.go newExec) whose registers - the       *)
(* current items, the innermost array size that LAST reads - are private to *)
(* that call; the Path, the documents and the variable maps are only read.  *)
(* This module states that design as a state machine at the grain of the    *)
(* executor's steps, so that TLC explores every interleaving of the steps   *)
(* of concurrent calls:                                                     *)
(*    Invoke(g, c)   goroutine g starts call c with a fresh executor        *)
(*    StepItem(g)    the executor applies the current step to the next item *)
(*                   (for a subscript: it stores the array size first,      *)
(*                   path/exec/array.go:78)                                 *)
(*    StepIndex(g)   the subscript is evaluated (LAST reads the stored size,*)
(*                   path/exec/const.go:148), the element selected, the old *)
(*                   size restored                                          *)
(*    Return(g)      the call returns its items / error                     *)
(* and checks                                                               *)
(*    RetSolo        every return equals what PathSem (the big-step         *)
(*                   semantics all other checks use) assigns to that call   *)
(*                   alone - independent of interleaving and of history;    *)
(*    ObjImmutable   no step changes the shared object.                     *)
(*                                                                          *)
(* Hazard selects a deliberately wrong design, to show that the properties  *)
(* are not vacuous (TLC must find a counterexample):                        *)
(*    "shared-size"  the innermost array size is kept in the shared object  *)
(*                   instead of the executor: a concurrent call overwrites  *)
(*                   it between StepItem and StepIndex;                     *)
(*    "memo-last"    the value of LAST is memoised in the shared AST node   *)
(*                   at first use: later calls depend on history, even      *)
(*                   with one goroutine.                                    *)
(*                                                                          *)
(* The step machine covers the chain fragment (member access, [*],          *)
(* subscripts with literals and last +- k) in both modes; RetSolo is        *)
(* thereby also a refinement check of this small-step machine against       *)
(* PathSem.  The trace specification Trace_Object binds the real code to    *)
(* the abstraction that RetSolo justifies: a call is Invoke, then Return    *)
(* with an outcome the specification permits for that call alone.           *)
EXTENDS ExecLaws, Universe

CONSTANTS NG,        \* goroutines
          NC,        \* calls per goroutine
          Hazard,    \* "none" | "shared-size" | "memo-last"
          Calls      \* sequence of [chain, doc, lax]

G == 1..NG
None == [none |-> TRUE]

VARIABLES pc, callOf, ex, sz, obj, ret, done
vars == <<pc, callOf, ex, sz, obj, ret, done>>

CaseOfCall(c) ==
  [path |-> [lax |-> Calls[c].lax, pred |-> FALSE, chain |-> Calls[c].chain], doc |-> Calls[c].doc,
   vars |-> <<>>, silent |-> FALSE, useTZ |-> FALSE, zone |-> "UTC"]
Solo(c) == QueryOf(CaseOfCall(c), Eval(CaseOfCall(c), Par0))

Init == /\ pc = [g \in G |-> "idle"] /\ callOf = [g \in G |-> 0]
        /\ ex = [g \in G |-> None] /\ sz = [g \in G |-> -1]
        /\ obj = [size |-> -1, memo |-> -1]
        /\ ret = [g \in G |-> None] /\ done = [g \in G |-> 0]

Invoke(g, c) ==
  /\ pc[g] = "idle" /\ done[g] < NC
  /\ pc' = [pc EXCEPT ![g] = "run"] /\ callOf' = [callOf EXCEPT ![g] = c]
  /\ ex' = [ex EXCEPT ![g] = [k |-> 2, j |-> 1, items |-> <<Calls[c].doc>>, acc |-> <<>>, ph |-> "item",
                             err |-> "none", saved |-> -1]]
  /\ sz' = [sz EXCEPT ![g] = -1]
  /\ ret' = [ret EXCEPT ![g] = None]
  /\ UNCHANGED <<obj, done>>

(* where the executor of g keeps the innermost array size *)
ReadSize(g)  == IF Hazard = "shared-size" THEN obj.size ELSE sz[g]
WriteSize(g, n) ==
  IF Hazard = "shared-size" THEN obj' = [obj EXCEPT !.size = n] /\ UNCHANGED sz
  ELSE sz' = [sz EXCEPT ![g] = n] /\ UNCHANGED obj

(* member access on one item: [items, err] *)
KeyOn(it, s, lax, unwrap) ==
  CASE it.t = "obj" -> IF ObjHas(it, s) THEN [items |-> <<ObjGet(it, s)>>, err |-> "none"]
                       ELSE [items |-> <<>>, err |-> IF lax THEN "none" ELSE "verbose"]
    [] OTHER -> [items |-> <<>>, err |-> IF lax THEN "none" ELSE "verbose"]
RECURSIVE KeyOnEach(_, _, _)
KeyOnEach(xs, s, i) ==        \* lax: elements of an unwrapped array, non-objects skipped
  IF i > Len(xs) THEN <<>> ELSE KeyOn(xs[i], s, TRUE, FALSE).items \o KeyOnEach(xs, s, i + 1)

StepItem(g) ==
  /\ pc[g] = "run" /\ ex[g].ph = "item" /\ ex[g].err = "none"
  /\ LET e == ex[g]  c == Calls[callOf[g]]  lax == c.lax
     IN /\ e.k <= Len(c.chain)
        /\ IF e.j > Len(e.items)
           THEN (* this step has seen every item: next step *)
                /\ ex' = [ex EXCEPT ![g] = [e EXCEPT !.k = e.k + 1, !.j = 1, !.items = e.acc, !.acc = <<>>]]
                /\ UNCHANGED <<sz, obj>>
           ELSE LET n == c.chain[e.k]  it == e.items[e.j]
                    out(r) == [e EXCEPT !.j = e.j + 1, !.acc = e.acc \o r.items, !.err = r.err]
                IN CASE n.k = "key" ->
                          /\ ex' = [ex EXCEPT ![g] =
                                      out(IF it.t = "arr" /\ lax THEN [items |-> KeyOnEach(it.a, n.s, 1), err |-> "none"]
                                          ELSE KeyOn(it, n.s, lax, FALSE))]
                          /\ UNCHANGED <<sz, obj>>
                     [] n.k = "anyarr" ->
                          /\ ex' = [ex EXCEPT ![g] =
                                      out(IF it.t = "arr" THEN [items |-> it.a, err |-> "none"]
                                          ELSE IF lax THEN [items |-> <<it>>, err |-> "none"]
                                          ELSE [items |-> <<>>, err |-> "verbose"])]
                          /\ UNCHANGED <<sz, obj>>
                     [] n.k = "idx" ->
                          IF it.t # "arr" /\ ~lax
                          THEN ex' = [ex EXCEPT ![g] = out([items |-> <<>>, err |-> "verbose"])] /\ UNCHANGED <<sz, obj>>
                          ELSE (* store the array size for LAST, remember the old one *)
                               /\ ex' = [ex EXCEPT ![g] = [e EXCEPT !.ph = "sized", !.saved = ReadSize(g)]]
                               /\ WriteSize(g, IF it.t = "arr" THEN Len(it.a) ELSE 1)
  /\ UNCHANGED <<pc, callOf, ret, done>>

(* the subscript expressions of the fragment: literal, last, last - i, last + i *)
IdxVal(x, last) ==
  CASE x[1].k = "last" -> last
    [] x[1].k = "num"  -> BNToInt(x[1].v.n)
    [] x[1].k = "bin" /\ x[1].op = "sub" -> last - BNToInt(x[1].r[1].v.n)
    [] x[1].k = "bin" /\ x[1].op = "add" -> last + BNToInt(x[1].r[1].v.n)

StepIndex(g) ==
  /\ pc[g] = "run" /\ ex[g].ph = "sized"
  /\ LET e == ex[g]  c == Calls[callOf[g]]  lax == c.lax
         n == c.chain[e.k]  it == e.items[e.j]
         arr == IF it.t = "arr" THEN it.a ELSE <<it>>
         size == ReadSize(g)
         last == IF Hazard = "memo-last" /\ obj.memo # -1 THEN obj.memo ELSE size - 1
         i == IdxVal(n.subs[1].from, last)
         r == IF i >= 0 /\ i < Len(arr) THEN [items |-> <<arr[i + 1]>>, err |-> "none"]
              ELSE [items |-> <<>>, err |-> IF lax THEN "none" ELSE "verbose"]
     IN /\ ex' = [ex EXCEPT ![g] = [e EXCEPT !.ph = "item", !.j = e.j + 1, !.acc = e.acc \o r.items, !.err = r.err]]
        /\ IF Hazard = "memo-last"
           THEN obj' = [obj EXCEPT !.memo = IF obj.memo = -1 THEN size - 1 ELSE obj.memo] /\ sz' = [sz EXCEPT ![g] = e.saved]
           ELSE WriteSize(g, e.saved)
  /\ UNCHANGED <<pc, callOf, ret, done>>

Return(g) ==
  /\ pc[g] = "run"
  /\ LET e == ex[g]  c == Calls[callOf[g]]
     IN /\ e.err # "none" \/ (e.ph = "item" /\ e.k > Len(c.chain))
        /\ ret' = [ret EXCEPT ![g] = IF e.err # "none" THEN [items |-> <<>>, err |-> e.err]
                                     ELSE [items |-> e.items, err |-> "none"]]
  /\ pc' = [pc EXCEPT ![g] = "idle"] /\ done' = [done EXCEPT ![g] = done[g] + 1]
  /\ ex' = [ex EXCEPT ![g] = None]
  /\ UNCHANGED <<callOf, sz, obj>>

Next == \E g \in G : (\E c \in 1..Len(Calls) : Invoke(g, c)) \/ StepItem(g) \/ StepIndex(g) \/ Return(g)
Spec == Init /\ [][Next]_vars

RetSolo == \A g \in G : ret[g] # None => ret[g] = Solo(callOf[g])
ObjImmutable == [][obj' = obj]_vars
(* no call is ever stuck: a running executor can always step or return *)
Progress == \A g \in G : pc[g] = "run" => ENABLED (StepItem(g) \/ StepIndex(g) \/ Return(g))
=============================================================================
