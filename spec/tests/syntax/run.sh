#!/bin/sh
# Conformance of the real path.Parse (/repo) with spec/PathSyntax.tla.
# usage: run.sh [--seed S] [--ngram N] [--keep DIR] [--perf] [--trees]
#   --seed S    seed of the random grammar sentences (default 1)
#   --ngram N   number of random sentences, two mutants each (default 6000)
#   --keep DIR  copy recs.ndjson, inputs.tsv, tlc.out, report.txt to DIR
#   --perf      also measure ParseStatus alone (SyntaxPerf.tla)
#   --trees     print the specification's tree under each disagreement
# exit 0 iff TLC ran to the end and every disagreement falls into one of the
# defect classes of README.md.
set -u
HERE=$(cd "$(dirname "$0")" && pwd)
SPEC=$(cd "$HERE/../.." && pwd)
SEED=1; NGRAM=6000; KEEP=; PERF=0; TREES=
while [ $# -gt 0 ]; do
    case "$1" in
        --seed) SEED=$2; shift 2 ;;
        --ngram) NGRAM=$2; shift 2 ;;
        --keep) KEEP=$2; shift 2 ;;
        --perf) PERF=1; shift ;;
        --trees) TREES=-trees; shift ;;
        *) echo "usage: $0 [--seed S] [--ngram N] [--keep DIR] [--perf] [--trees]" >&2; exit 2 ;;
    esac
done
WORK=$(mktemp -d /tmp/syntaxconf.XXXXXX) || exit 2
trap 'rm -rf "$WORK"' EXIT INT TERM
export GOFLAGS=-mod=mod GOPROXY=off GOSUMDB=off GOTOOLCHAIN=local
JAVA="java -Xss512m -XX:+UseParallelGC -cp /opt/veriftools/tla/tla2tools.jar:/opt/veriftools/tla/CommunityModules-deps.jar tlc2.TLC"

mkdir "$WORK/go" && cp "$HERE"/*.go "$HERE/go.mod" "$WORK/go/" && cp /repo/go.sum "$WORK/go/" || exit 2
(cd "$WORK/go" && go build -o "$WORK/syntaxconf" .) || { echo "go build failed" >&2; exit 2; }
"$WORK/syntaxconf" gen -dir "$WORK" -seed "$SEED" -ngram "$NGRAM" || exit 2
cp "$SPEC/PathSyntax.tla" "$SPEC/BigNum.tla" "$SPEC/JsonValue.tla" "$SPEC/Universe.tla" \
   "$HERE/SyntaxConf.tla" "$HERE/SyntaxConf.cfg" "$HERE/SyntaxPerf.tla" "$WORK/" || exit 2
cd "$WORK" || exit 2

N=$(wc -l < recs.ndjson)
S0=$(date +%s)
timeout 3600 $JAVA -workers 16 -metadir "$WORK/meta" -config SyntaxConf.cfg SyntaxConf.tla > tlc.out 2>&1
RC=$?
S1=$(date +%s)
T1=$(sed -n 's/^Finished computing initial states.* at \(.*\)\.$/\1/p' tlc.out)
T2=$(sed -n 's/^Finished in .* at (\(.*\))$/\1/p' tlc.out)
if [ -n "$T1" ] && [ -n "$T2" ]; then
    J=$(( $(date -d "$T2" +%s) - $(date -d "$T1" +%s) )); [ "$J" -lt 1 ] && J=1
    echo "tlc exit=$RC records=$N total=$((S1 - S0))s (reading recs.ndjson included) judging=${J}s => $((N / J)) records/s"
else
    echo "tlc exit=$RC records=$N total=$((S1 - S0))s"
fi
"$WORK/syntaxconf" report -dir "$WORK" $TREES > report.txt
RR=$?
cat report.txt
OK=0
if [ $RC -ne 0 ] || grep -q '^Error' tlc.out || ! grep -q '^Finished in' tlc.out; then
    echo "TLC did not run to the end:"; grep -v -E '^(Parsing|Semantic|Linting)' tlc.out | grep -A15 '^Error' | head -40
    OK=1
fi
[ $RR -ne 0 ] && OK=1

if [ $PERF -eq 1 ]; then
    printf 'INIT Init\nNEXT Next\nCHECK_DEADLOCK FALSE\n' > SyntaxPerf.cfg
    P0=$(date +%s.%N)
    timeout 900 $JAVA -workers 16 -metadir "$WORK/metaperf" -config SyntaxPerf.cfg SyntaxPerf.tla > perf.out 2>&1
    P1=$(date +%s.%N)
    NS=$(grep -o '<<"PERF", [0-9]*, [0-9]*' perf.out | awk '{s += $3} END {print s + 0}')
    echo "perf: $NS strings in $(echo "$P1 - $P0" | bc)s wall clock (JVM start included)"
    grep -E '^(Starting|Finished)' perf.out
fi
if [ -n "$KEEP" ]; then
    cp recs.ndjson inputs.tsv tlc.out report.txt "$KEEP"/ && echo "kept in $KEEP"
fi
[ $OK -eq 0 ] && echo PASS || echo FAIL
exit $OK
