// Command syntaxconf is the conformance harness of spec/PathSyntax.tla.
//
//	syntaxconf gen -out DIR      generate the inputs, run the real path.Parse
//	                             on each (under recover) and write
//	                             DIR/recs.ndjson (what TLC reads) and
//	                             DIR/inputs.tsv (id, source, quoted input)
//	syntaxconf report -dir DIR   read DIR/tlc.out (lines printed by
//	                             SyntaxConf.tla), join them with inputs.tsv
//	                             and print every disagreement
//
// The record TLC reads obeys the limits of its Json module: bytes as integer
// arrays, numbers as BigNum limb records, no null, no integer >= 2^31.
package main

import (
	"bufio"
	"encoding/json"
	"flag"
	"fmt"
	"go/ast"
	"go/parser"
	"go/token"
	"io/fs"
	"os"
	"path/filepath"
	"reflect"
	"regexp"
	"sort"
	"strconv"
	"strings"

	"github.com/theory/sqljson/path"
	sqlast "github.com/theory/sqljson/path/ast"
	"verif/harness/wire"
)

const alphabet = "$@.*[]()?\"\\aexu01_-+ /{}<=>!&,|"

type rec struct {
	ID     int       `json:"id"`
	B      []int     `json:"b"`
	OK     bool      `json:"ok"`
	Panic  bool      `json:"panic"`
	NoPath bool      `json:"nopath"` // accepted, but the tree cannot travel (level >= 2^31)
	Path   wire.Path `json:"path"`
}

var emptyPath = wire.Path{Chain: []wire.Node{}}

func bigInt(n []wire.Node) bool {
	for _, x := range n {
		if x.K == "any" && (x.First >= 1<<31 || x.Last >= 1<<31) {
			return true
		}
		if bigInt(x.L) || bigInt(x.R) || bigInt(x.X) {
			return true
		}
		for _, s := range x.Subs {
			if bigInt(s.From) || bigInt(s.To) {
				return true
			}
		}
		if x.P != nil && bigInt([]wire.Node{*x.P}) {
			return true
		}
	}
	return false
}

// fixRegex walks the real chain and its wire image in lockstep and rewrites
// pattern and flags of every regex node from the node's own (unexported)
// fields: wire.FromAST recovers them from RegexNode.String(), which also
// prints the accessors that follow the node.
func fixRegex(n sqlast.Node, w []wire.Node) {
	for i := 0; n != nil && i < len(w); n, i = n.Next(), i+1 {
		fixNode(n, &w[i])
	}
}

func fixNode(n sqlast.Node, w *wire.Node) {
	switch n := n.(type) {
	case *sqlast.RegexNode:
		v := reflect.ValueOf(n).Elem()
		w.Pat = wire.Bytes(v.FieldByName("pattern").String())
		b := v.FieldByName("flags").Uint()
		w.Flags = wire.Flags{I: b&1 != 0, S: b&2 != 0, M: b&4 != 0, X: b&8 != 0, Q: b&16 != 0}
		fixRegex(n.Operand(), w.X)
	case *sqlast.BinaryNode:
		if w.K == "bin" {
			fixRegex(n.Left(), w.L)
			fixRegex(n.Right(), w.R)
		}
	case *sqlast.UnaryNode:
		switch w.K {
		case "filter":
			fixNode(n.Operand(), w.P)
		case "un":
			fixRegex(n.Operand(), w.X)
		}
	case *sqlast.ArrayIndexNode:
		for i, s := range n.Subscripts() {
			if b, ok := s.(*sqlast.BinaryNode); ok && i < len(w.Subs) {
				fixRegex(b.Left(), w.Subs[i].From)
				if r := b.Right(); r != nil {
					fixRegex(r, w.Subs[i].To)
				}
			}
		}
	}
}

func run(id int, s string) (r rec, msg string) {
	r = rec{ID: id, B: wire.Bytes(s), Path: emptyPath}
	defer func() {
		if p := recover(); p != nil {
			r.OK, r.Panic, r.NoPath, r.Path = false, true, false, emptyPath
			msg = fmt.Sprint("panic: ", p)
		}
	}()
	p, err := path.Parse(s)
	if err != nil {
		return r, err.Error()
	}
	r.OK = true
	w, err := wire.FromAST(p.AST)
	if err != nil {
		r.NoPath = true
		return r, "wire: " + err.Error()
	}
	fixRegex(p.AST.Root(), w.Chain)
	if bigInt(w.Chain) {
		r.NoPath = true
		return r, p.String()
	}
	r.Path = w
	return r, p.String()
}

// every string literal of the *_test.go files below root
func repoLiterals(root string, maxLen int) []string {
	var out []string
	_ = filepath.WalkDir(root, func(p string, d fs.DirEntry, err error) error {
		if err != nil || d.IsDir() || !strings.HasSuffix(p, "_test.go") {
			return nil
		}
		f, err := parser.ParseFile(token.NewFileSet(), p, nil, 0)
		if err != nil {
			return nil
		}
		ast.Inspect(f, func(n ast.Node) bool {
			if l, ok := n.(*ast.BasicLit); ok && l.Kind == token.STRING {
				if s, err := strconv.Unquote(l.Value); err == nil && len(s) <= maxLen {
					out = append(out, s)
				}
			}
			return true
		})
		return nil
	})
	return out
}

func short(n int) []string {
	out := []string{""}
	prev := []string{""}
	for i := 0; i < n; i++ {
		var next []string
		for _, p := range prev {
			for _, c := range alphabet {
				next = append(next, p+string(c))
			}
		}
		out = append(out, next...)
		prev = next
	}
	return out
}

func gen(dir string, maxLit int, seed int64, nGram int) error {
	type in struct{ src, s string }
	var ins []in
	seen := map[string]bool{}
	add := func(src string, ss []string) {
		for _, s := range ss {
			if !seen[s] {
				seen[s] = true
				ins = append(ins, in{src, s})
			}
		}
	}
	add("hand", handwritten())
	add("repo", repoLiterals("/repo/path", maxLit))
	sent, mut := grammarInputs(seed, nGram)
	add("gram", sent)
	add("mut", mut)
	add("gen3", short(3))

	rf, err := os.Create(filepath.Join(dir, "recs.ndjson"))
	if err != nil {
		return err
	}
	defer rf.Close()
	tf, err := os.Create(filepath.Join(dir, "inputs.tsv"))
	if err != nil {
		return err
	}
	defer tf.Close()
	rw, tw := bufio.NewWriter(rf), bufio.NewWriter(tf)
	defer rw.Flush()
	defer tw.Flush()
	enc := json.NewEncoder(rw)
	counts := map[string]int{}
	for i, x := range ins {
		r, msg := run(i+1, x.s)
		if err := enc.Encode(r); err != nil {
			return err
		}
		st := "rejected"
		if r.Panic {
			st = "panic"
		} else if r.OK {
			st = "accepted"
		}
		counts[x.src+" "+st]++
		fmt.Fprintf(tw, "%d\t%s\t%s\t%s\t%s\n", i+1, x.src, st, strconv.Quote(x.s), strconv.Quote(msg))
	}
	keys := make([]string, 0, len(counts))
	for k := range counts {
		keys = append(keys, k)
	}
	sort.Strings(keys)
	fmt.Printf("inputs %d:", len(ins))
	for _, k := range keys {
		fmt.Printf("  %s=%d", k, counts[k])
	}
	fmt.Println()
	return nil
}

// Defect classes of the real parser (see README.md). Every disagreement must
// fall into one of them; anything else is reported as UNEXPLAINED.
var (
	reEscEnd  = regexp.MustCompile(`\\(u\{[0-9a-fA-F]+\}|u[0-9a-fA-F]{4}|x[0-9a-fA-F]{2}|[^ux]|.)$`)
	reLevel   = regexp.MustCompile(`\*\*(\s|/\*.*?\*/)*\{[^}]*(0[xXoObB]|[0-9]_)`)
	reBeyond  = regexp.MustCompile(`\\u\{0*(1[1-9a-fA-F]|[2-9a-fA-F][0-9a-fA-F])[0-9a-fA-F]{4}\}`)
	reFold    = regexp.MustCompile(`(?i)\\u212a|\\u\{0*212a\}|\\u0130|\\u\{0*130\}|\x{212a}|\x{0130}`)
	reRadixPt = regexp.MustCompile(`parsing "0[xXoObB][^"]*": invalid syntax`)
)

// sameAsRealWithSpace reports whether the specification's tree (TLC's ToJson
// text) is the tree the real parser builds for the input followed by a
// space, i.e. the only difference is the text lost at the end of input.
func sameAsRealWithSpace(in, tree string) bool {
	tree = strings.TrimSuffix(strings.TrimSpace(tree), ">>")
	js, err := strconv.Unquote(tree)
	if err != nil {
		return false
	}
	r, _ := run(0, in+" ")
	if !r.OK || r.NoPath {
		return false
	}
	rb, err := json.Marshal(r.Path)
	if err != nil {
		return false
	}
	var a, b any
	if json.Unmarshal([]byte(js), &a) != nil || json.Unmarshal(rb, &b) != nil {
		return false
	}
	return reflect.DeepEqual(a, b)
}

func classify(kind, in, msg, tree string) string {
	for _, r := range in {
		if r >= 0xE000 && r <= 0xE031 {
			return "D9 private-use code point read as a grammar token"
		}
	}
	panics := strings.HasPrefix(kind, "real-panics")
	switch {
	case panics && strings.Contains(msg, `parsing "--`):
		return "D3 sign in front of a negative literal panics"
	case panics && strings.Contains(msg, "value out of range"):
		return "D4 literal out of range panics"
	case panics && reRadixPt.MatchString(msg):
		return "D5 malformed radix-prefixed integer in front of a dot panics"
	case panics && strings.Contains(msg, "nil pointer dereference"):
		return "D6 accessor after a rejected .decimal()/like_regex panics"
	case (kind == "tree-differs" || kind == "spec-accepts-real-rejects") && reEscEnd.MatchString(in) &&
		sameAsRealWithSpace(in, tree):
		return "D1 identifier ending in an escape at end of input loses its text"
	case kind == "tree-differs" && reLevel.MatchString(in):
		return "D2 .**{level} spelled with a radix prefix or underscore becomes 0"
	case kind == "spec-rejects-real-accepts" && reBeyond.MatchString(in):
		return "D7 \\u{...} beyond U+10FFFF accepted"
	case kind == "spec-rejects-real-accepts" && reFold.MatchString(in):
		return "D8 keywords matched with Unicode case folding"
	}
	return "UNEXPLAINED"
}

var line = regexp.MustCompile(`<<"(DIS|OPQ|TREE)", (\d+), "([^"]*)">>`)

func report(dir string, showOpaque, showTrees bool) error {
	type info struct{ src, st, in, msg string }
	inputs := map[int]info{}
	f, err := os.Open(filepath.Join(dir, "inputs.tsv"))
	if err != nil {
		return err
	}
	sc := bufio.NewScanner(f)
	sc.Buffer(make([]byte, 1<<20), 1<<24)
	for sc.Scan() {
		p := strings.SplitN(sc.Text(), "\t", 5)
		id, _ := strconv.Atoi(p[0])
		inputs[id] = info{p[1], p[2], p[3], p[4]}
	}
	f.Close()
	o, err := os.Open(filepath.Join(dir, "tlc.out"))
	if err != nil {
		return err
	}
	defer o.Close()
	type dis struct {
		id   int
		kind string
	}
	var ds []dis
	opq := 0
	trees := map[int]string{}
	sc = bufio.NewScanner(o)
	sc.Buffer(make([]byte, 1<<20), 1<<26)
	for sc.Scan() {
		t := sc.Text()
		for _, m := range line.FindAllStringSubmatch(t, -1) {
			id, _ := strconv.Atoi(m[2])
			switch m[1] {
			case "DIS":
				ds = append(ds, dis{id, m[3]})
			case "OPQ":
				opq++
				if showOpaque {
					fmt.Printf("OPAQUE\t%s\t%s\n", inputs[id].in, inputs[id].st)
				}
			}
		}
		if strings.HasPrefix(t, "<<\"TREE\", ") {
			rest := strings.TrimPrefix(t, "<<\"TREE\", ")
			if i := strings.Index(rest, ","); i > 0 {
				id, _ := strconv.Atoi(rest[:i])
				trees[id] = strings.TrimSpace(rest[i+1:])
			}
		}
	}
	type row struct{ class, kind, src, in, msg, tree string }
	var rows []row
	for _, d := range ds {
		x := inputs[d.id]
		in, _ := strconv.Unquote(x.in)
		msg, _ := strconv.Unquote(x.msg)
		rows = append(rows, row{classify(d.kind, in, msg, trees[d.id]), d.kind, x.src, x.in, x.msg, trees[d.id]})
	}
	sort.SliceStable(rows, func(i, j int) bool {
		if rows[i].class != rows[j].class {
			return rows[i].class < rows[j].class
		}
		return rows[i].kind < rows[j].kind
	})
	counts := map[string]int{}
	last := ""
	for _, r := range rows {
		counts[r.class]++
		if r.class != last {
			fmt.Printf("\n== %s\n", r.class)
			last = r.class
		}
		msg := r.msg
		if len(msg) > 160 {
			msg = msg[:160] + "...\""
		}
		fmt.Printf("%s\t%s\t%s\treal: %s\n", r.kind, r.src, r.in, msg)
		if showTrees && r.tree != "" {
			fmt.Printf("\tspec tree: %s\n", r.tree)
		}
	}
	fmt.Println()
	keys := make([]string, 0, len(counts))
	for k := range counts {
		keys = append(keys, k)
	}
	sort.Strings(keys)
	for _, k := range keys {
		fmt.Printf("%5d  %s\n", counts[k], k)
	}
	fmt.Printf("disagreements=%d unexplained=%d opaque=%d records=%d\n", len(ds), counts["UNEXPLAINED"], opq, len(inputs))
	if counts["UNEXPLAINED"] > 0 {
		return fmt.Errorf("%d unexplained disagreements", counts["UNEXPLAINED"])
	}
	return nil
}

func main() {
	if len(os.Args) < 2 {
		fmt.Fprintln(os.Stderr, "usage: syntaxconf gen|report ...")
		os.Exit(2)
	}
	fs := flag.NewFlagSet(os.Args[1], flag.ExitOnError)
	dir := fs.String("dir", ".", "work directory")
	maxLit := fs.Int("maxlit", 300, "longest repository literal taken (bytes)")
	seed := fs.Int64("seed", 1, "seed of the random grammar sentences")
	nGram := fs.Int("ngram", 6000, "number of random grammar sentences (two mutants each)")
	opaque := fs.Bool("opaque", false, "report: also list the opaque inputs")
	trees := fs.Bool("trees", false, "report: print the specification's tree under each disagreement")
	_ = fs.Parse(os.Args[2:])
	var err error
	switch os.Args[1] {
	case "gen":
		err = gen(*dir, *maxLit, *seed, *nGram)
	case "report":
		err = report(*dir, *opaque, *trees)
	default:
		err = fmt.Errorf("unknown command %q", os.Args[1])
	}
	if err != nil {
		fmt.Fprintln(os.Stderr, err)
		os.Exit(1)
	}
}
