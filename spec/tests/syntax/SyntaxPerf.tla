----------------------------- MODULE SyntaxPerf -----------------------------
(* Throughput of PathSyntax!ParseStatus alone (no JSON): every string of    *)
(* length 1..3 over the harness alphabet, 31 blocks by first character.     *)
EXTENDS PathSyntax

Alpha == {36, 64, 46, 42, 91, 93, 40, 41, 63, 34, 92, 97, 101, 120, 117, 48, 49, 95, 45, 43,
          32, 47, 123, 125, 60, 61, 62, 33, 38, 44, 124}
VARIABLES a, done
Init == a \in Alpha /\ done = FALSE
Next == /\ ~done /\ done' = TRUE /\ a' = a
        /\ LET S == {<<a>>} \cup {<<a, b>> : b \in Alpha} \cup {<<a, b, c>> : b \in Alpha, c \in Alpha}
               n == Cardinality({s \in S : ParseStatus(s).st = "ok"})
           IN  PrintT(<<"PERF", a, Cardinality(S), n>>)
=============================================================================
