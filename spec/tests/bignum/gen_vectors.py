#!/usr/bin/env python3
"""Generate BigNumVectors.tla: test vectors for spec/BigNum.tla.

Every operand and expected result is already in BigNum's limb representation
(base 2^15, little-endian, odd mantissa), so TLC only compares records.
Expected values come from exact int / fractions.Fraction arithmetic and from
Python floats (IEEE-754 binary64).

usage: gen_vectors.py [--seed S] [--n N] [--out DIR]
"""
import argparse
import math
import os
import random
import struct
from fractions import Fraction as F

B = 1 << 15
MAXD = F(struct.unpack("<d", struct.pack("<Q", 0x7FEFFFFFFFFFFFFF))[0])
MIND = F(1, 1 << 1074)


# ---------------------------------------------------------------- rendering
def limbs(n):
    out = []
    while n:
        out.append(n % B)
        n //= B
    return out


def tla(v):
    if isinstance(v, bool):
        return "TRUE" if v else "FALSE"
    if isinstance(v, int):
        assert abs(v) < 2 ** 31
        return str(v)
    if isinstance(v, str):
        return '"%s"' % v
    if isinstance(v, (list, tuple)):
        return "<<" + ",".join(tla(x) for x in v) + ">>"
    if isinstance(v, dict):
        return "[" + ", ".join("%s |-> %s" % (k, tla(x)) for k, x in v.items()) + "]"
    raise TypeError(v)


def bn(x):
    """Normal-form BigNum record of a dyadic rational."""
    x = F(x)
    if x == 0:
        return {"neg": False, "m": [], "e": 0}
    n, d = abs(x.numerator), x.denominator
    assert d & (d - 1) == 0, "not dyadic"
    e = -(d.bit_length() - 1)
    while n % 2 == 0:
        n //= 2
        e += 1
    return {"neg": x < 0, "m": limbs(n), "e": e}


def inf(neg):
    return {"inf": True, "neg": neg}


# ---------------------------------------------------------------- reference
def is_double(x):
    x = F(x)
    if abs(x) > MAXD:
        return False
    return F(float(x)) == x


def to_double(x):
    """Correctly rounded double of a Fraction, as bn record or inf record."""
    x = F(x)
    try:
        f = float(x)  # Fraction -> float is correctly rounded (int/int)
    except OverflowError:
        return inf(x < 0)
    if math.isinf(f):
        return inf(x < 0)
    return bn(F(f))


def round_half_away(x):
    s = -1 if x < 0 else 1
    return s * math.floor(abs(x) + F(1, 2))


def quo_trunc(a, b):
    q = abs(a) // abs(b)
    return -q if (a < 0) != (b < 0) else q


def bits2f(u):
    return struct.unpack("<d", struct.pack("<Q", u))[0]


def f2bits(f):
    return struct.unpack("<Q", struct.pack("<d", f))[0]


# ---------------------------------------------------------------- pools
INT_EDGES = sorted(set(
    [0, 1, -1, 2, -2, 3, 7, 10, -10, 100, B - 1, B, B + 1, B * B - 1, B * B, B * B + 1]
    + [s * ((1 << k) + d) for s in (1, -1) for k in (15, 30, 31, 32, 45, 52, 53, 54, 62, 63, 64)
       for d in (-2, -1, 0, 1, 2)]
    + [10 ** k for k in (3, 9, 10, 15, 16, 18, 19)]
))

DOUBLE_EDGES = [
    0.0, 1.0, -1.0, 0.5, -0.5, 1.5, 2.5, -2.5, 3.5, 0.1, -0.1, 1 / 3, 2 / 3, 7.0, 2.0, 3.0, 10.0,
    5e-324, -5e-324, 1e-323, 1.5e-323, 2.2250738585072014e-308, 2.225073858507201e-308,
    4.450147717014403e-308, 1e-310, 1e-10, 1e308, -1e308, 1.7976931348623157e308,
    -1.7976931348623157e308, 8.98846567431158e307, 2.0 ** 53, 2.0 ** 53 - 1, 2.0 ** 53 + 2,
    -(2.0 ** 53), 2.0 ** 63, -(2.0 ** 63), 2.0 ** 31, -(2.0 ** 31), 2.0 ** 31 - 1, 9007199254740993.0,
    1e15, 1e16, 1e22, 1e23, 123456.789, -0.75, 4.35, 1e-5, 3.141592653589793, 2.0 ** -1022,
    2.0 ** -1074, 2.0 ** -1073, 3 * 2.0 ** -1074, 2.0 ** 1023, 2.0 ** -537, 2.0 ** 512,
]


class Pool:
    def __init__(self, rng):
        self.r = rng

    def small_int(self):
        return self.r.randint(-1000, 1000)

    def int_(self):
        r = self.r
        k = r.random()
        if k < 0.3:
            return self.small_int()
        if k < 0.55:
            return r.choice(INT_EDGES)
        if k < 0.8:
            return r.choice((1, -1)) * r.getrandbits(r.randint(1, 64))
        return r.choice(INT_EDGES) + r.randint(-3, 3)

    def int64(self):
        while True:
            v = self.int_()
            if -(1 << 63) <= v < (1 << 63):
                return v

    def double(self):
        """A finite Python float."""
        r = self.r
        k = r.random()
        if k < 0.25:
            return r.choice(DOUBLE_EDGES)
        if k < 0.40:
            return float(self.small_int())
        if k < 0.50:
            return self.small_int() / 2.0 + 0.5 * r.randint(0, 1)
        if k < 0.60:  # subnormal
            return r.choice((1, -1)) * bits2f(r.getrandbits(r.randint(1, 52)))
        if k < 0.70:  # moderate magnitude
            return r.choice((1, -1)) * r.uniform(0, 1) * 10.0 ** r.randint(-20, 20)
        if k < 0.75:  # few mantissa bits, any exponent
            e = r.randint(-1074, 1023)
            return r.choice((1, -1)) * math.ldexp(r.randint(1, 15), max(e - 3, -1074))
        while True:  # random bit pattern
            f = bits2f(r.getrandbits(64))
            if math.isfinite(f):
                return f

    def halfish(self):
        """Values near .5 boundaries (dyadic Fractions)."""
        r = self.r
        base = r.choice([self.small_int(), self.int_(), r.randint(-5, 5)])
        k = r.random()
        if k < 0.4:
            return F(base) + F(1, 2)
        if k < 0.7:
            return F(base) + F(1, 2) + r.choice((1, -1)) * F(1, 1 << r.randint(2, 70))
        return F(base) + F(r.getrandbits(8), 256)

    def dyadic(self):
        """Arbitrary dyadic rational, not necessarily a double."""
        r = self.r
        k = r.random()
        if k < 0.2:
            return F(self.int_())
        if k < 0.4:
            return F(self.double())
        if k < 0.6:
            return self.halfish()
        m = r.getrandbits(r.randint(1, 130)) | 1
        e = r.randint(-140, 80)
        return r.choice((1, -1)) * F(m) * (F(2) ** e)

    def wide(self):
        """Dyadics across the whole double exponent range and beyond, many
        exactly on or next to rounding boundaries."""
        r = self.r
        k = r.random()
        if k < 0.3:
            # exact tie / near tie between two adjacent doubles
            f = abs(self.double())
            g = math.nextafter(f, math.inf)
            if math.isinf(g):
                g = f
            mid = (F(f) + F(g)) / 2
            j = r.random()
            if j < 0.5:
                x = mid
            else:
                x = mid + r.choice((1, -1)) * (F(g) - F(f)) / (1 << r.randint(2, 60))
            return r.choice((1, -1)) * x
        if k < 0.5:
            m = r.getrandbits(r.randint(1, 130)) | 1
            e = r.randint(-1300, 1100)
            return r.choice((1, -1)) * F(m) * (F(2) ** e)
        if k < 0.6:
            # around the overflow threshold 2^1024 - 2^970
            thr = F(2) ** 1024 - F(2) ** 970
            return r.choice((1, -1)) * (thr + r.choice((-1, 0, 1)) * F(2) ** r.randint(0, 969))
        if k < 0.7:
            # around the underflow threshold 2^-1075
            return r.choice((1, -1)) * (F(1, 1 << 1075) + r.choice((-1, 0, 1)) * F(1, 1 << r.randint(1076, 1200)))
        return self.dyadic()


# ---------------------------------------------------------------- vectors
def gen(seed, n):
    rng = random.Random(seed)
    P = Pool(rng)
    V = []

    def add(op, **kw):
        V.append(dict(op=op, **kw))

    def many(fixed, rand):
        """fixed cases followed by random ones up to n (at least 20 random)."""
        out = list(fixed)
        for _ in range(max(n - len(out), 20)):
            out.append(rand())
        return out

    # --- BNMk on unnormalised triples
    for _ in range(n):
        k = rng.randint(0, 5)
        m = [rng.randrange(B) for _ in range(k)]
        if rng.random() < 0.4:
            m = [0] * rng.randint(0, 3) + m
        if m and rng.random() < 0.5:
            m[0] = (m[0] >> rng.randint(0, 15)) << rng.randint(0, 14) & (B - 1)
        m = m + [0] * rng.choice((0, 0, 1, 2))
        neg = rng.random() < 0.5
        e = rng.randint(-1100, 1100)
        val = sum(x * B ** i for i, x in enumerate(m))
        add("mk", neg=neg, m=m, e=e, r=bn((-1 if neg else 1) * F(val) * F(2) ** e))
    add("mk", neg=True, m=[], e=5, r=bn(0))
    add("mk", neg=True, m=[0, 0], e=-5, r=bn(0))

    # --- BN from TLC int, BNToInt
    ints31 = many([0, 1, -1, 2 ** 31 - 1, -(2 ** 31 - 1), 2 ** 30, -(2 ** 30), B, B * B, B - 1, B * B - 1, 2 ** 30 + 1],
                  lambda: rng.choice((1, -1)) * rng.getrandbits(rng.randint(1, 31)))
    for i in ints31:
        add("bn", i=i, r=bn(i))
        add("toint", a=bn(i), r=i)

    # --- unary predicates / sign ops / bitlen
    for x in many([F(0), F(1), F(-1), F(1, 2), F(-3, 4)], P.dyadic):
        add("iszero", a=bn(x), r=(x == 0))
        add("sign", a=bn(x), r=(x > 0) - (x < 0))
        add("neg", a=bn(x), r=bn(-x))
        add("abs", a=bn(x), r=bn(abs(x)))
        b = bn(x)
        mant = sum(v * B ** i for i, v in enumerate(b["m"]))
        add("bitlen", a=b, r=mant.bit_length())

    # --- compare
    cmp_fixed = [(F(1), F(1)), (F(0), F(0)), (F(1, 2), F(1, 4)), (F(3), F(2) ** 40), (F(2) ** 40 + 1, F(2) ** 40),
                 (F(-3), F(-2) ** 41), (F(2) ** 53, F(2) ** 53 + 1), (F(5e-324), F(0)), (F(-5e-324), F(0)),
                 (F(1e308), F(5e-324)), (F(3, 2), F(1)), (F(3, 2), F(2)), (F(0.1), F(1, 10 ** 0) / 8),
                 (F(2) ** 63, F(2) ** 63 - 1), (F(-2) ** 63, -(F(2) ** 63) - 1)]

    def cmp_pair():
        a = P.dyadic()
        k = rng.random()
        if k < 0.2:
            return a, a
        if k < 0.5:  # close neighbours with a different exponent
            return a, a + rng.choice((1, -1)) * F(2) ** rng.randint(-150, 60)
        if k < 0.6:
            return a, -a
        if k < 0.7:
            return a, a * 2 ** rng.randint(0, 3)
        return a, P.dyadic()

    for a, b in many(cmp_fixed, cmp_pair):
        add("cmp", a=bn(a), b=bn(b), r=(a > b) - (a < b))

    # --- add / sub / mul
    def arith_pair():
        k = rng.random()
        if k < 0.25:
            return F(P.small_int()), F(P.small_int())
        if k < 0.5:
            return F(P.int_()), F(P.int_())
        if k < 0.6:
            a = P.dyadic()
            return a, -a + rng.choice((0, 1, -1)) * F(2) ** rng.randint(-80, 80)
        if k < 0.7:
            return F(P.double()), F(P.double())
        return P.dyadic(), P.dyadic()

    arith_fixed = [(F(0), F(0)), (F(1), F(-1)), (F(2 ** 63 - 1), F(1)), (F(-2 ** 63), F(-1)), (F(2 ** 31 - 1), F(1)),
                   (F(1e308), F(1e308)), (F(1e308), F(5e-324)), (F(0.1), F(0.2)), (F(B - 1), F(B - 1)),
                   (F(B * B - 1), F(B * B - 1)), (F(2 ** 64 - 1), F(2 ** 64 - 1)), (F(3037000500), F(3037000500)),
                   (F(1, 2), F(1, 2)), (F(3, 2), F(-1, 2)), (F(B - 1), F(1)), (F(B * B * B - 1), F(1)),
                   (F(B * B * B), F(-1)), (F(B ** 5), F(-1)),
                   # edges of the native (< 2^30) fast path
                   (F(2 ** 30 - 1), F(2 ** 30 - 1)), (F(-(2 ** 30 - 1)), F(-(2 ** 30 - 1))), (F(2 ** 30 - 1), F(1)),
                   (F(2 ** 30), F(2 ** 30)), (F(2 ** 30 - 1), F(-(2 ** 30))), (F(2 ** 29), F(2 ** 29)),
                   (F(3 * 2 ** 28), F(1)), (F(3 * 2 ** 28), F(3 * 2 ** 28)), (F(2 ** 30 - 1), F(1, 2)),
                   (F(32767), F(32767, 2 ** 15)), (F(32767) * 2 ** 15, F(32767)), (F(32767) * 2 ** 16, F(1)),
                   (F(2 ** 31 - 2), F(3)), (F(2 ** 31 - 2), F(2 ** 30 - 1)), (F(-(2 ** 31 - 2)), F(-3))]
    for a, b in many(arith_fixed, arith_pair):
        add("add", a=bn(a), b=bn(b), r=bn(a + b))
    for a, b in many(arith_fixed, arith_pair):
        add("sub", a=bn(a), b=bn(b), r=bn(a - b))
    for a, b in many(arith_fixed, arith_pair):
        add("mul", a=bn(a), b=bn(b), r=bn(a * b))

    # --- mul2k
    for x in many([F(0), F(1), F(3)], P.dyadic):
        k = rng.randint(-1200, 1200)
        add("mul2k", a=bn(x), k=k, r=bn(x * F(2) ** k))

    # --- integer rounding family, isint, fits
    round_fixed = [F(0), F(1, 2), F(-1, 2), F(3, 2), F(-3, 2), F(5, 2), F(-5, 2), F(7, 2), F(1, 4), F(-1, 4),
                   F(3, 4), F(-3, 4), F(0.49999999999999994), F(-0.49999999999999994), F(4503599627370497, 2),
                   F(2 ** 53 - 1, 2), F(2 ** 63 - 1) + F(1, 2), -F(2 ** 63) - F(1, 2), F(2 ** 31 - 1) + F(1, 2),
                   -F(2 ** 31) - F(1, 2), F(5e-324), F(-5e-324), F(1e308), F(0.1), F(-0.1), F(1, 2 ** 200),
                   F(B) - F(1, 2), F(B * B) - F(1, 2), F(B * B) - F(1, 4), -F(B * B) + F(1, 4), F(B - 1) + F(1, 2)]

    def round_val():
        k = rng.random()
        if k < 0.6:
            return P.halfish()
        return P.dyadic()

    for x in many(round_fixed, round_val):
        a = bn(x)
        add("isint", a=a, r=(x.denominator == 1))
        add("trunc", a=a, r=bn(math.trunc(x)))
        add("floor", a=a, r=bn(math.floor(x)))
        add("ceil", a=a, r=bn(math.ceil(x)))
        add("rha", a=a, r=bn(round_half_away(x)))
        add("rhe", a=a, r=bn(round(x)))  # Fraction.__round__ rounds half to even

    fits_fixed = [F(v) for v in (0, 2 ** 31 - 1, 2 ** 31, -2 ** 31, -2 ** 31 - 1, 2 ** 63 - 1, 2 ** 63, -2 ** 63,
                                 -2 ** 63 - 1, 2 ** 32, -2 ** 32, 2 ** 62, 2 ** 64, -2 ** 64, 2 ** 30)] + \
                 [F(1, 2), F(2 ** 31 - 1) + F(1, 2), F(2 ** 62) + F(1, 2), F(-1, 2)]

    def fits_val():
        k = rng.random()
        if k < 0.7:
            return F(P.int_())
        return P.dyadic()

    for x in many(fits_fixed, fits_val):
        isint = x.denominator == 1
        add("fits32", a=bn(x), r=isint and -(2 ** 31) <= x <= 2 ** 31 - 1)
        add("fits64", a=bn(x), r=isint and -(2 ** 63) <= x <= 2 ** 63 - 1)

    # --- integer quotient / remainder (Go int64 / and %)
    qr_fixed = [(7, 2), (-7, 2), (7, -2), (-7, -2), (0, 5), (1, 3), (2, 3), (-(2 ** 63), -1), (-(2 ** 63), 1),
                (2 ** 63 - 1, 2), (2 ** 63 - 1, 2 ** 63 - 1), (2 ** 63 - 1, -(2 ** 63)), (-(2 ** 63), 2 ** 63 - 1),
                (10 ** 18, 10), (10 ** 18, 3), (2 ** 62, 2 ** 31), (2 ** 62 + 5, 2 ** 31), (6, 3), (B * B, B),
                (B ** 4 - 1, B ** 2 - 1), (B ** 4 - 1, B ** 2 + 1), (2 ** 63 - 1, B ** 3 + B - 1),
                (2 ** 30 - 1, 1), (2 ** 30 - 1, 2 ** 30 - 1), (2 ** 30, 3), (2 ** 30 - 1, -7), (-(2 ** 30 - 1), 2 ** 15),
                (2 ** 30 - 1, 2 ** 30), (2 ** 30, 2 ** 30 - 1), (-(2 ** 30), 2 ** 30 - 1), (3 * 2 ** 28, 2 ** 28), (2 ** 31, 2 ** 30 - 1),
                (2 ** 60, 2 ** 45 - 1), (0x7FFF7FFF7FFF7FFF, 0x7FFF0000FFFF), (0x7FFF00000000FFFF, 0x7FFF0000FFFF)]

    def qr_pair():
        a = P.int64()
        k = rng.random()
        if k < 0.3:
            b = rng.randint(1, 100) * rng.choice((1, -1))
        elif k < 0.5:
            b = rng.choice((1, -1)) * max(1, rng.getrandbits(rng.randint(1, 63)))
        else:
            b = P.int64()
        return a, (b if b != 0 else 1)

    for a, b in many(qr_fixed, qr_pair):
        q = quo_trunc(a, b)
        add("quo", a=bn(a), b=bn(b), r=bn(q))
        add("rem", a=bn(a), b=bn(b), r=bn(a - q * b))

    # --- IsDouble / RoundToDouble
    r2d_fixed = [F(0), F(2 ** 53 + 1), F(2 ** 53 + 3), F(2 ** 54 + 2), F(2 ** 54 + 6), F(2 ** 54 + 1), F(2 ** 54 + 3),
                 -F(2 ** 53 + 1), F(2 ** 63 - 1), F(2 ** 63 - 512), F(2 ** 63 - 513), F(2 ** 64 - 1),
                 F(12345678901234567890), F(10) ** 400, -F(10) ** 400, F(10) ** 308, F(10) ** 23,
                 F(2) ** 1024, F(2) ** 1024 - F(2) ** 970, F(2) ** 1024 - F(2) ** 970 - 1,
                 -(F(2) ** 1024 - F(2) ** 970), F(2) ** 1024 - F(2) ** 971, MAXD, -MAXD, MAXD + 1,
                 MIND, MIND / 2, -MIND / 2, MIND / 2 + F(1, 1 << 1200), MIND * 3 / 2, MIND * 5 / 2, MIND / 4, MIND * 3 / 4,
                 F(2) ** -1022, F(2) ** -1022 - MIND, F(2) ** -1022 - MIND / 2, F(2) ** -1022 + MIND / 2,
                 F(2) ** -1022 * 2 + MIND, F(1e308), F(5e-324), F(0.1), F(1, 2) ** 1100, F(2) ** 2000]
    for x in many(r2d_fixed, P.wide):
        add("isdouble", a=bn(x), r=is_double(x))
        add("r2d", a=bn(x), r=to_double(x))
    for f in many([], P.double):
        add("isdouble", a=bn(F(f)), r=True)
        add("r2d", a=bn(F(f)), r=bn(F(f)))

    # --- DivToDouble / IsRoundedQuotient
    div_fixed = [(1.0, 3.0), (2.0, 3.0), (7.0, 2.0), (1e308, 1e-10), (-1e308, 1e-10), (1e308, -1e-10), (5e-324, 2.0),
                 (-5e-324, 2.0), (1.5e-323, 2.0), (1e-323, 4.0), (5e-324, 3.0), (5e-324, 1.5), (1.0, 10.0), (0.0, 5.0),
                 (1.0, 5e-324), (1.7976931348623157e308, 0.9999999999999999), (1.7976931348623157e308, 1.0000000000000002),
                 (1.7976931348623157e308, 1.0), (2.2250738585072014e-308, 2.0), (2.225073858507201e-308, 0.5),
                 (1.0, 1.7976931348623157e308), (4.0, 1.7976931348623157e308), (2.0 ** 53 + 2, 2.0 ** 53),
                 (9007199254740991.0, 9007199254740990.0), (1.0, 0.1), (10.0, 4.0), (100.0, 8.0), (1e22, 1e-22),
                 (3.0, 2.0 ** 1023), (6.0, 7.0), (-6.0, 7.0), (1.0, -3.0), (1e-310, 3.0), (1e-310, 1e10),
                 (123456789.0, 1000.0), (4.35, 100.0), (2.0 ** -1074, 2.0 ** -1074), (2.0 ** 1023, 2.0 ** -1074)]

    def div_pair():
        while True:
            a, b = P.double(), P.double()
            k = rng.random()
            if k < 0.3:
                b = float(rng.randint(1, 1000)) * rng.choice((1, -1))
            elif k < 0.4:
                a = float(P.small_int())
            if b != 0.0:
                return a, b

    for a, b in many(div_fixed, div_pair):
        q = a / b  # IEEE division, correctly rounded
        exact = F(a) / F(b)
        want = inf((a < 0) != (b < 0)) if math.isinf(q) else bn(F(q))
        assert want == to_double(exact), (a, b)
        add("divd", a=bn(F(a)), b=bn(F(b)), r=want)
        if not math.isinf(q):
            add("isrq", a=bn(F(a)), b=bn(F(b)), q=bn(F(q)), r=True)
            for other in (math.nextafter(q, math.inf), math.nextafter(q, -math.inf)):
                if math.isfinite(other):
                    add("isrq", a=bn(F(a)), b=bn(F(b)), q=bn(F(other)), r=False)

    # quotients of non-double dyadics (e.g. int64 / int64) are also correctly rounded
    for _ in range(max(n // 3, 20)):
        a, b = P.wide(), P.wide()
        if rng.random() < 0.5:
            a, b = F(P.int_()), F(P.int_())
        if b == 0:
            b = F(3)
        add("divd", a=bn(a), b=bn(b), r=to_double(a / b))

    # --- fmod
    fmod_fixed = [(7.0, 2.0), (-7.0, 2.0), (7.0, -2.0), (-7.0, -2.0), (5.5, 2.0), (-5.5, 2.0), (5.5, -2.5), (1.0, 3.0),
                  (0.0, 3.0), (6.0, 3.0), (-6.0, 3.0), (1e308, 3.0), (1e308, 5e-324), (1e22, 0.1), (1e15, 0.3),
                  (0.3, 0.1), (-0.3, 0.1), (5e-324, 1.0), (1.0, 5e-324), (2.0 ** 200, 3.0), (2.0 ** 200 + 2.0 ** 150, 7.5),
                  (1.7976931348623157e308, 1.1), (10.0, 1e-60), (1e60, 10.1), (3.0, 3.0), (3.0, -3.0), (4.5, 1.5),
                  (123456789012345678.0, 1e-3)]

    def fmod_pair():
        while True:
            k = rng.random()
            if k < 0.4:
                a = rng.choice((1, -1)) * rng.uniform(0, 1) * 2.0 ** rng.randint(-50, 220)
                b = rng.choice((1, -1)) * rng.uniform(0.01, 1) * 2.0 ** rng.randint(-50, 60)
            elif k < 0.7:
                a = P.small_int() / rng.choice((1.0, 2.0, 4.0, 10.0))
                b = P.small_int() / rng.choice((1.0, 2.0, 4.0, 10.0))
            else:
                a, b = P.double(), P.double()
                if b != 0 and a != 0 and abs(math.log2(abs(a)) - math.log2(abs(b))) > 400:
                    continue
            if b != 0.0:
                return a, b

    for a, b in many(fmod_fixed, fmod_pair):
        r = math.fmod(a, b)
        fa, fb = F(a), F(b)
        exact = fa - math.trunc(fa / fb) * fb
        assert F(r) == exact, (a, b)
        add("fmod", a=bn(fa), b=bn(fb), r=bn(exact))

    # --- FromDecimal / Pow10
    dec_fixed = [("12345678901234567890", 0), ("1", 400), ("0", 0), ("0", 7), ("000", 3), ("1", 0), ("9", 0),
                 ("10", 0), ("9223372036854775807", 0), ("9223372036854775808", 0), ("2147483648", 0),
                 ("18446744073709551616", 0), ("9007199254740993", 0), ("17976931348623157", 292), ("1", 308),
                 ("0012", 2), ("5", 1), ("32768", 0), ("1073741824", 0), ("99999999999999999999999999999999999999", 0),
                 ("123", 398), ("4", 1)]

    def dec_case():
        ln = rng.randint(1, 40)
        ds = "".join(rng.choice("0123456789") for _ in range(ln))
        if rng.random() < 0.2:
            ds = "0" * rng.randint(1, 3) + ds
        return ds, rng.choice((0, 0, 0, rng.randint(0, 30), rng.randint(0, 350)))

    for ds, ex in many(dec_fixed, dec_case):
        neg = rng.random() < 0.5
        val = (-1 if neg else 1) * int(ds) * 10 ** ex
        add("fromdec", neg=neg, d=[int(c) for c in ds], x=ex, r=bn(val))

    pw = sorted(set(list(range(0, 30)) + [308, 309, 323, 324, 399, 400] +
                    [rng.randint(0, 400) for _ in range(max(n // 6, 10))]))
    for k in pw:
        add("pow10", n=k, r=bn(10 ** k))

    # --- long limb sequences (exercise the divide-and-conquer paths; TLC's
    #     Java stack does not survive 100+ levels of TLA+ recursion)
    def big(bits):
        return F(rng.getrandbits(bits) | (1 << (bits - 1)) | 1)

    long_pairs = [(F(2) ** 2000 + 1, -F(2) ** 2000), (F(2) ** 2100 - 1, F(1)), (F(2) ** 2100, F(-1)),
                  (MAXD, MIND), (MAXD, -MIND), (-MAXD, MIND), (F(2) ** 2000 + 1, F(2) ** 2000 + 3),
                  (F(10) ** 400, F(10) ** 400), (F(2) ** 1000 - 1, F(2) ** 1000 - 1), (F(2) ** 3000 + 1, F(2) ** 3000 + 1),
                  (F(10) ** 400, F(1, 2) ** 400), (F(2) ** 240 + 1, F(2) ** 240 - 1), (F(2) ** 255 + 1, F(1)),
                  (F(2) ** 255 + 1, -F(2) ** 255 + 1)]
    for _ in range(max(n // 10, 10)):
        x = big(rng.randint(200, 1500)) * F(2) ** rng.randint(-900, 200)
        y = big(rng.randint(200, 1500)) * F(2) ** rng.randint(-900, 200)
        long_pairs.append((rng.choice((1, -1)) * x, rng.choice((1, -1)) * y))
        long_pairs.append((x, -x + rng.choice((1, -1)) * F(2) ** rng.randint(-900, 900)))
    for a, b in long_pairs:
        add("add", a=bn(a), b=bn(b), r=bn(a + b))
        add("sub", a=bn(a), b=bn(b), r=bn(a - b))
        add("mul", a=bn(a), b=bn(b), r=bn(a * b))
        add("cmp", a=bn(a), b=bn(b), r=(a > b) - (a < b))
        add("cmp", a=bn(a), b=bn(-b), r=(a > -b) - (a < -b))
        add("divd", a=bn(a), b=bn(b), r=to_double(a / b))
        for x in (a, a + b, a / 2 + b / 4):
            add("r2d", a=bn(x), r=to_double(x))
            add("isdouble", a=bn(x), r=is_double(x))
            y = x / (F(2) ** rng.randint(1, 40))
            add("trunc", a=bn(y), r=bn(math.trunc(y)))
            add("floor", a=bn(y), r=bn(math.floor(y)))
            add("ceil", a=bn(y), r=bn(math.ceil(y)))
            add("rha", a=bn(y), r=bn(round_half_away(y)))
            add("rhe", a=bn(y), r=bn(round(y)))
    for a, b in [(MAXD, MIND * 3), (F(1e308), F(3e-320)), (MAXD, F(1e-300)), (-MAXD, F(7e-310)), (F(1e300), F(-1e-300)),
                 (F(2) ** 3000 + 12345, F(2) ** 900 + 7), (F(10) ** 400, F(10) ** 30 + 1), (F(10) ** 400, F(7))]:
        exact = a - math.trunc(a / b) * b
        if is_double(a) and is_double(b):
            assert F(math.fmod(float(a), float(b))) == exact
        add("fmod", a=bn(a), b=bn(b), r=bn(exact))
    for ln in [50, 100, 200, 310, 800] + [rng.randint(41, 400) for _ in range(max(n // 30, 5))]:
        ds = "".join(rng.choice("0123456789") for _ in range(ln))
        ex = rng.choice((0, 5, 100))
        add("fromdec", neg=False, d=[int(c) for c in ds], x=ex, r=bn(int(ds) * 10 ** ex))
    add("fromdec", neg=True, d=[9] * 200, x=0, r=bn(-(10 ** 200 - 1)))
    add("fromdec", neg=False, d=[], x=0, r=bn(0))

    return V


def main():
    ap = argparse.ArgumentParser()
    ap.add_argument("--seed", type=int, default=1)
    ap.add_argument("--n", type=int, default=300)
    ap.add_argument("--out", default=".")
    args = ap.parse_args()
    V = gen(args.seed, args.n)
    path = os.path.join(args.out, "BigNumVectors.tla")
    with open(path, "w") as f:
        f.write("---- MODULE BigNumVectors ----\n")
        f.write("\\* generated by gen_vectors.py --seed %d --n %d ; %d vectors\n" % (args.seed, args.n, len(V)))
        f.write("EXTENDS Integers\n\n")
        f.write("Vectors == <<\n")
        f.write(",\n".join(tla(v) for v in V))
        f.write("\n>>\n====\n")
    counts = {}
    for v in V:
        counts[v["op"]] = counts.get(v["op"], 0) + 1
    print("wrote %s: %d vectors (%s)" % (path, len(V), ", ".join("%s=%d" % kv for kv in sorted(counts.items()))))


if __name__ == "__main__":
    main()
