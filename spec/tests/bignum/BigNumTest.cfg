\* constant-level test: no behaviour specification, only ASSUMEs are evaluated
