#!/bin/sh
# Generate BigNum test vectors and check them with TLC.
# usage: run.sh [--seed S] [--n N]        (defaults: seed 1, n 300)
# exit 0 iff every vector passed.
# On failure, set BIGNUM_KEEP=<existing dir> to keep tlc.out and the vectors.
set -u
HERE=$(cd "$(dirname "$0")" && pwd)
SPEC=$(cd "$HERE/../.." && pwd)
SEED=1
N=300
while [ $# -gt 0 ]; do
    case "$1" in
        --seed) SEED=$2; shift 2 ;;
        --n) N=$2; shift 2 ;;
        *) echo "usage: $0 [--seed S] [--n N]" >&2; exit 2 ;;
    esac
done
WORK=$(mktemp -d /tmp/bignum_test.XXXXXX) || exit 2
trap 'rm -rf "$WORK"' EXIT INT TERM
cp "$SPEC/BigNum.tla" "$HERE/BigNumTest.tla" "$HERE/BigNumTest.cfg" "$WORK/" || exit 2
python3 "$HERE/gen_vectors.py" --seed "$SEED" --n "$N" --out "$WORK" || exit 2
cd "$WORK" || exit 2
START=$(date +%s)
timeout 600 tlc -metadir "$WORK/meta" -config BigNumTest.cfg BigNumTest.tla > tlc.out 2>&1
RC=$?
END=$(date +%s)
NFAIL=$(grep -c 'BIGNUM-FAIL' tlc.out)
grep -E 'BIGNUM-VECTORS|BIGNUM-ALL-PASSED' tlc.out
echo "tlc exit=$RC elapsed=$((END - START))s seed=$SEED n=$N failing_vectors=$NFAIL"
if [ $RC -eq 0 ] && [ "$NFAIL" -eq 0 ] && grep -q 'BIGNUM-ALL-PASSED' tlc.out; then
    echo PASS
    exit 0
fi
echo FAIL
# each failing vector is printed by TLC as a (multi-line) tuple
# <<"BIGNUM-FAIL", index, vector, "got", value>>; show the first few
if [ "$NFAIL" -gt 0 ]; then
    awk '/BIGNUM-FAIL/ { n++ } n >= 1 && n <= 5' tlc.out | grep -v '^Parsing' | head -80
else
    grep -v -E '^(Parsing|Semantic|Linting)' tlc.out | tail -30
fi
if [ -n "${BIGNUM_KEEP:-}" ]; then
    cp tlc.out BigNumVectors.tla "$BIGNUM_KEEP"/ 2>/dev/null && echo "kept tlc.out and BigNumVectors.tla in $BIGNUM_KEEP"
fi
exit 1
