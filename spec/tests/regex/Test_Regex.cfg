INIT Init
NEXT Step
CHECK_DEADLOCK FALSE
INVARIANT Inv
