#!/bin/sh
# Differential test of spec/Regex.tla (RegexMatch, RxPatternClass) against Go's regexp.
#   ./run.sh [gen.go options, e.g. -seed 7 -n 2000 -nt 16000 -enum 2 -wide]
# Generates cases.ndjson in a scratch directory (default options: seed 1, the
# run documented in README.md), runs TLC on Test_Regex there and prints the
# summary.  Exit status 0 = no mismatch.  Nothing is left behind.
# SPEC_DIR overrides the directory Regex.tla is taken from (default ../..).
set -e
here=$(cd "$(dirname "$0")" && pwd)
spec=${SPEC_DIR:-$here/../..}
work=$(mktemp -d /tmp/regextest.XXXXXX)
trap 'rm -rf "$work"' EXIT
export GOFLAGS=-mod=mod GOPROXY=off GOSUMDB=off GOTOOLCHAIN=local
(cd "$here" && go run gen.go -o "$work/cases.ndjson" "$@")
cp "$spec/Regex.tla" "$here/Test_Regex.tla" "$here/Test_Regex.cfg" "$work/"
cd "$work"
timeout 1800 java -XX:+UseParallelGC -Xss512m \
  -cp /opt/veriftools/tla/tla2tools.jar:/opt/veriftools/tla/CommunityModules-deps.jar \
  tlc2.TLC -continue -workers 8 -metadir "$work/md" Test_Regex > out.txt 2>&1 || true
(cd "$here" && go run gen.go -sum "$work/out.txt") || { grep -v '^<<"BLOCK"' "$work/out.txt" | tail -30; exit 1; }
