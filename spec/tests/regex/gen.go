// gen.go generates cases.ndjson, the differential test vectors for
// spec/Regex.tla (operator RegexMatch).  Every line is one JSON object
//
//	{"id":n,"pat":[bytes],"s":[bytes],"i":bool,"sf":bool,"m":bool,"q":bool,"want":"T"|"F"|"invalid"}
//
// want is what theory/sqljson computes for  s like_regex "pat" flag "..."
// (path/ast/ast.go, RegexNode.Regexp):
//
//	q set:   regexp.Compile(("(?i)" if i) + regexp.QuoteMeta(pat))
//	else:    regexp.Compile("(?" + i + s + m + ")" + pat)     (no prefix if no flag)
//
// followed by MatchString(s); "invalid" when Compile fails.  The generator
// also cross-checks that the parse-time validation of the library
// (syntax.Parse(pat, OneLine|ClassNL|PerlX|...)) accepts exactly the patterns
// that Compile accepts, and reports the number of disagreements on stderr.
//
// Usage:  go run gen.go [-seed N] [-n 6000] [-nt 1000] [-wide] [-o cases.ndjson]
//
//	go run gen.go -sum tlc-output.txt     (sums the BLOCK lines Test_Regex prints)
package main

import (
	"bufio"
	"encoding/json"
	"flag"
	"fmt"
	"math/rand"
	"os"
	"regexp"
	"regexp/syntax"
	"sort"
	"strings"
)

type flagSet struct{ i, s, m, q bool }

var (
	fNone = flagSet{}
	fI    = flagSet{i: true}
	fS    = flagSet{s: true}
	fM    = flagSet{m: true}
	fIM   = flagSet{i: true, m: true}
	fQ    = flagSet{q: true}
	fIQ   = flagSet{i: true, q: true}
	fISM  = flagSet{i: true, s: true, m: true}
	fSM   = flagSet{s: true, m: true}
)

// the flag sets of the enumerated / random part, with weights (out of 100)
var weighted = []struct {
	f flagSet
	w int
}{{fNone, 40}, {fI, 14}, {fS, 12}, {fM, 14}, {fIM, 10}, {fQ, 5}, {fIQ, 5}}

var alphabet = []byte{'a', 'b', 'A', '.', '*', '+', '?', '|', '(', ')', '[', ']', '^', '$', '\\', '-', 'd', 'w', '{', '}', '1', ',', '\n'}

var subjects = []string{"", "a", "b", "ab", "ba", "aab", "A", "a\nb", "\n", "a1", "-", "ab\n", "b\na", "aaa", "1", " "}

// -wide: the alphabet of the random byte patterns, with more escape letters,
// digits and punctuation
var wideAlphabet = []byte("abAzZ_ .*+?|()[]^$\\-dDwWsSbBntAz{}0123,:\n\t")

// the subjects of the token patterns (and of everything under -wide)
var wideSubjects = append([]string{"a b", "_", "a_b", "AB", "aa\n", "\t", "z", "Z", "ab ab", "abab", "aaaa", "12", "a-b", "\n\n", "b1 ", "bab", "\na", "[", "a.b", "a{2}"}, subjects...)

var subjAlphabet = []byte("aabbA1-_ \n")

// tokens of the structured random patterns: 2..7 of them are concatenated
var tokens = []string{
	"a", "a", "b", "b", "A", "1", "-", " ", "_", ".", ".", `\.`, `\d`, `\D`, `\w`, `\W`, `\s`, `\S`, `\n`, `\t`, "\n",
	`\b`, `\B`, `\A`, `\z`, "^", "^", "$", "$", "(", "(", "(?:", ")", ")", ")", "|", "|",
	"*", "*", "+", "+", "?", "?", "*?", "+?", "??", "{2}", "{0,1}", "{1,2}", "{2,}", "{1,3}?", "{0}", "{3,4}", "{4}",
	"[ab]", "[a-c]", "[^a]", "[^a-z]", "[^\\n]", `[\d-]`, `[\w ]`, "[A-b]", "[^b\\s]", "[]a]", "[a-]", `[\W1]`, "[^\\D]",
	`\-`, `\|`, `\(`, `\)`, `\[`, `\]`, `\{`, `\}`, `\^`, `\$`, `\*`, `\+`, `\?`, `\\`, "{", "}", "]", ",",
}

// goPattern is the translation of ast.RegexNode.Regexp.
func goPattern(pat string, f flagSet) string {
	if f.q {
		p := ""
		if f.i {
			p = "(?i)"
		}
		return p + regexp.QuoteMeta(pat)
	}
	p := ""
	if f.i {
		p += "i"
	}
	if f.s {
		p += "s"
	}
	if f.m {
		p += "m"
	}
	if p != "" {
		p = "(?" + p + ")"
	}
	return p + pat
}

// validates mirrors ast.validateRegex / regexFlags._syntaxFlags.
func validates(pat string, f flagSet) bool {
	c := syntax.OneLine | syntax.ClassNL | syntax.PerlX
	if f.i {
		c |= syntax.FoldCase
	}
	if f.q {
		c |= syntax.Literal
	} else {
		if f.m {
			c &^= syntax.OneLine
		}
		if f.s {
			c |= syntax.DotNL
		}
	}
	_, err := syntax.Parse(pat, c)
	return err == nil
}

var (
	out      *bufio.Writer
	nextID   int
	disagree int
	cache    = map[string]*regexp.Regexp{}
	bad      = map[string]bool{}
	counts   = map[string]int{}

	disagreed = map[string]bool{}
)

func bytesJSON(s string) string {
	var b strings.Builder
	b.WriteByte('[')
	for k := 0; k < len(s); k++ {
		if k > 0 {
			b.WriteByte(',')
		}
		fmt.Fprintf(&b, "%d", s[k])
	}
	b.WriteByte(']')
	return b.String()
}

func emit(pat, subj string, f flagSet) {
	gp := goPattern(pat, f)
	var want string
	re, ok := cache[gp]
	if !ok && !bad[gp] {
		r, err := regexp.Compile(gp)
		if err != nil {
			bad[gp] = true
		} else {
			cache[gp] = r
			re = r
		}
	}
	switch {
	case bad[gp]:
		want = "invalid"
	case re.MatchString(subj):
		want = "T"
	default:
		want = "F"
	}
	if validates(pat, f) != (want != "invalid") {
		disagree++
		if !disagreed[pat] {
			disagreed[pat] = true
			fmt.Fprintf(os.Stderr, "parse-time validation and Compile disagree on %q\n", pat)
		}
	}
	nextID++
	counts[want]++
	fmt.Fprintf(out, `{"id":%d,"pat":%s,"s":%s,"i":%t,"sf":%t,"m":%t,"q":%t,"want":"%s"}`+"\n",
		nextID, bytesJSON(pat), bytesJSON(subj), f.i, f.s, f.m, f.q, want)
}

func pickFlags(r *rand.Rand) flagSet {
	x := r.Intn(100)
	for _, w := range weighted {
		if x < w.w {
			return w.f
		}
		x -= w.w
	}
	return fNone
}

// six distinct subjects
func pickSubjects(r *rand.Rand, from []string) []string {
	p := r.Perm(len(from))[:6]
	res := make([]string, 0, 6)
	for _, k := range p {
		res = append(res, from[k])
	}
	return res
}

func enumerate(r *rand.Rand, prefix []byte, n int) {
	if n == 0 {
		pat := string(prefix)
		for _, s := range pickSubjects(r, subjects) {
			emit(pat, s, pickFlags(r))
		}
		return
	}
	for _, c := range alphabet {
		enumerate(r, append(prefix, c), n-1)
	}
}

// hand-written patterns; each runs against its own subjects plus a few
// common ones, under the listed flag sets.
type hand struct {
	pat   string
	subjs []string
	flags []flagSet
}

var std = []flagSet{fNone, fI}
var lines = []flagSet{fNone, fM, fS, fSM, fIM}

var common = []string{"", "a", "ab", "abc", "xay", "a\nb", "AB", "ab12 cd"}

var hands = []hand{
	{`^a.*b$`, []string{"ab", "axxb", "a\nb", "xab", "abx", "ab\n", "AB", "a.b"}, lines},
	{`^[a-c]+$`, []string{"abc", "abcd", "cab", "", "ABC", "a-c", "abc\n", "d\nabc"}, lines},
	{`(ab|ba)+`, []string{"ab", "ba", "abba", "aa", "bb", "xbax", "AB", "a b"}, std},
	{`^(ab|ba)+$`, []string{"ab", "ba", "abba", "aba", "abab", "baab", "ABBA", "ab\n"}, std},
	{`\d{2,3}`, []string{"1", "12", "123", "1234", "a12b", "1a2", "", "1 2"}, std},
	{`^\d{2,3}$`, []string{"1", "12", "123", "1234", "a12", "12\n", "", "0012"}, lines},
	{`a.b`, []string{"a\nb", "axb", "ab", "a.b", "A-B", "a\n\nb", "xa.by", "a b"}, []flagSet{fNone, fS, fI, fISM}},
	{`^b`, []string{"a\nb", "b", "ab", "a\n\nb", "\nb", "B", "a\nB", "a\n"}, lines},
	{`a$`, []string{"a\nb", "a", "ba", "a\n", "b\na", "b\na\n", "A", "a\n\n"}, lines},
	{`^$`, []string{"", "\n", "a", "a\n", "\n\n", "a\n\nb", " ", "\na"}, lines},
	{`^`, []string{"", "a", "\n"}, lines},
	{`$`, []string{"", "a", "\n"}, lines},
	{`$^`, []string{"", "a", "\n", "a\nb", "\n\n"}, lines},
	{`a$\nb`, []string{"a\nb", "ab", "a\n", "a\nb\n"}, lines},
	{`a\n^b`, []string{"a\nb", "ab", "a\n", "a\nb\n"}, lines},
	{`[^a]x`, []string{"bx", "ax", "x", "\nx", "Ax", "aax", " x", "xx"}, []flagSet{fNone, fI, fS}},
	{`a|`, []string{"", "a", "b"}, std},
	{`|a`, []string{"", "a", "b"}, std},
	{`(a|)b`, []string{"b", "ab", "a", "cb", "", "AB"}, std},
	{`^(a|)b$`, []string{"b", "ab", "a", "cb", "", "aab", "AB"}, std},
	{`x*?y`, []string{"y", "xy", "xxy", "x", "", "XY"}, std},
	{`^x+?y??$`, []string{"y", "xy", "xxy", "x", "", "XY", "xyy"}, std},
	{`\w+\s\w+`, []string{"ab cd", "ab", "a b", "a  b", "a\tb", "a\nb", "a-b", "_ 9", " a "}, std},
	{`^\w+$`, []string{"abc", "a_1", "a b", "", "a-b", "ABC", "a\n", "\na"}, lines},
	{`\W`, []string{"abc", "a b", "", "_", "-", "\n", "a1"}, std},
	{`\S+`, []string{"", " ", "a", " \t\n", "\f\r", "\v"}, std},
	{`^\s*$`, []string{"", " ", "a", " \t\n", "\f\r", "\v", " a "}, std},
	{`\D`, []string{"", "1", "12", "1a", "a", "-"}, std},
	{`^\D*$`, []string{"", "1", "12", "1a", "a", "-", "ab\n"}, std},
	{`[a-z]+[0-9]*`, []string{"abc", "abc1", "1", "ABC", "A1", ""}, std},
	{`^[a-z]+[0-9]*$`, []string{"abc", "abc1", "1", "ABC", "A1", "", "abc1x"}, std},
	{`^[A-Z][a-z]*$`, []string{"Abc", "abc", "ABC", "A", "a", "", "Ab1"}, std},
	{`[Z-a]`, []string{"Z", "a", "z", "A", "_", "^", "[", "b", "Y", "y"}, std},
	{`^[^Z-a]+$`, []string{"Z", "a", "z", "A", "_", "^", "[", "b", "Y", "y"}, std},
	{`[k]`, []string{"k", "K", "a"}, std},
	{`[^k]`, []string{"k", "K", "a"}, std},
	{`[]a]`, []string{"]", "a", "b", "[", ""}, std},
	{`[^]a]`, []string{"]", "a", "b", "[", ""}, std},
	{`[a-]`, []string{"a", "-", "b", ""}, std},
	{`[-a]`, []string{"a", "-", "b", ""}, std},
	{`[a-c-e]`, []string{"a", "b", "c", "d", "e", "-"}, std},
	{`[--a]`, []string{"-", "a", "A", "5", ",", "b"}, std},
	{`[a\-z]`, []string{"a", "-", "z", "b"}, std},
	{`[\d-z]`, []string{"1", "-", "z", "a"}, std},
	{`[a-\d]`, []string{"1", "-", "a"}, std},
	{`[\]]`, []string{"]", "\\", "a"}, std},
	{`[\\]`, []string{"]", "\\", "a"}, std},
	{`[\n\t]`, []string{"\n", "\t", "n", "t", "\\"}, std},
	{`[\w-]+`, []string{"a-b", "-", "", " ", "a_b"}, std},
	{`^[\w.-]+$`, []string{"a-b", "-", "", " ", "a_b", "a.b", "a,b"}, std},
	{`[^\d\s]`, []string{"1", " ", "a", "1 ", "", "\n"}, std},
	{`[^\D\d]`, []string{"1", " ", "a", "", "\n"}, std},
	{`[\D\d]`, []string{"1", " ", "a", "", "\n"}, std},
	{`[\W]`, []string{"a", "_", "-", "\n", ""}, std},
	{`[^\W]`, []string{"a", "_", "-", "\n", ""}, std},
	{`[[:alpha:]]`, []string{"a", ":", "["}, std},
	{`[[a]`, []string{"a", ":", "[", "]"}, std},
	{`[a`, []string{"a"}, std},
	{`[]`, []string{"a"}, std},
	{`[^]`, []string{"a"}, std},
	{`[b-a]`, []string{"a"}, std},
	{`[a-a]`, []string{"a", "b"}, std},
	{`]`, []string{"]", "a"}, std},
	{`a]`, []string{"a]", "a"}, std},
	{`}`, []string{"}", "a"}, std},
	{`{`, []string{"{", "a"}, std},
	{`a{`, []string{"a{", "a"}, std},
	{`a{1`, []string{"a{1", "a"}, std},
	{`a{1,`, []string{"a{1,", "a"}, std},
	{`a{,2}`, []string{"a{,2}", "a", "aa"}, std},
	{`a{1,2`, []string{"a{1,2", "a"}, std},
	{`a{x}`, []string{"a{x}", "a"}, std},
	{`a{1}`, []string{"a", "", "aa", "A"}, std},
	{`^a{2}$`, []string{"a", "", "aa", "aaa", "AA"}, std},
	{`^a{2,}$`, []string{"a", "", "aa", "aaa", "aaaa", "AA"}, std},
	{`^a{0,2}$`, []string{"a", "", "aa", "aaa", "aaaa", "AA"}, std},
	{`^a{0}$`, []string{"a", ""}, std},
	{`^a{0,0}b$`, []string{"ab", "b"}, std},
	{`^a{2,4}?$`, []string{"a", "aa", "aaa", "aaaa", "aaaaa"}, std},
	{`^(ab){2}$`, []string{"ab", "abab", "ababab", "aabb"}, std},
	{`^(a{2}){2}$`, []string{"aa", "aaaa", "aaa", "aaaaaa"}, std},
	{`^(a|b){3}$`, []string{"aba", "ab", "abab", "aaa", "abc"}, std},
	{`a{2,1}`, []string{"a"}, std},
	{`a{5}`, []string{"aaaaa", "aaaa"}, std},
	{`a{1001}`, []string{"a"}, std},
	{`a{1000}`, []string{"a"}, std},
	{`a{01}`, []string{"a", "a{01}"}, std},
	{`a{1}{2}`, []string{"aa"}, std},
	{`a**`, []string{"a"}, std},
	{`a*+`, []string{"a"}, std},
	{`a+*`, []string{"a"}, std},
	{`a??`, []string{"a", ""}, std},
	{`a???`, []string{"a"}, std},
	{`a*?*`, []string{"a"}, std},
	{`a*{2}`, []string{"a"}, std},
	{`a*{`, []string{"a{", "{", "a"}, std},
	{`(a*)*`, []string{"a", "", "b"}, std},
	{`^(a*)*$`, []string{"a", "", "b", "aaa"}, std},
	{`^(a*)+$`, []string{"a", "", "b", "aaa"}, std},
	{`^(a|b*)*$`, []string{"a", "", "abba", "abc"}, std},
	{`^(|a)+$`, []string{"a", "", "aa", "b"}, std},
	{`^(|a)*$`, []string{"a", "", "aa", "b"}, std},
	{`(^)*a`, []string{"a", "ba"}, lines},
	{`^*a`, []string{"a", "ba", "b\na"}, lines},
	{`^+a`, []string{"a", "ba", "b\na"}, lines},
	{`a$*`, []string{"a", "ab"}, lines},
	{`a$+`, []string{"a", "ab", "a\nb"}, lines},
	{`\b*a`, []string{"a", "ba"}, std},
	{`*`, []string{"a"}, std},
	{`+a`, []string{"a"}, std},
	{`?`, []string{"a"}, std},
	{`(*a)`, []string{"a"}, std},
	{`a|*`, []string{"a"}, std},
	{`()`, []string{"", "a"}, std},
	{`()*`, []string{"", "a"}, std},
	{`(?:)`, []string{"", "a"}, std},
	{`(?:a|b)c`, []string{"ac", "bc", "c", "abc"}, std},
	{`^(?:a|b)c$`, []string{"ac", "bc", "c", "abc"}, std},
	{`(?i)a`, []string{"a", "A"}, std},
	{`(?i:a)b`, []string{"ab", "Ab", "AB"}, std},
	{`(?P<n>a)`, []string{"a"}, std},
	{`(?<n>a)`, []string{"a"}, std},
	{`(?=a)`, []string{"a"}, std},
	{`(?`, []string{"a"}, std},
	{`(a`, []string{"a"}, std},
	{`a)`, []string{"a"}, std},
	{`)`, []string{"a"}, std},
	{`(`, []string{"a"}, std},
	{`((a)`, []string{"a"}, std},
	{`((a))`, []string{"a", "b"}, std},
	{`\`, []string{"a", "\\"}, std},
	{`a\`, []string{"a", "\\"}, std},
	{`\\`, []string{"a", "\\", "\\\\"}, std},
	{`\.`, []string{".", "a"}, std},
	{`a\.b`, []string{"a.b", "axb"}, std},
	{`\*\+\?`, []string{"*+?", "a"}, std},
	{`\(\)\[\]\{\}`, []string{"()[]{}", "()"}, std},
	{`\|\^\$\-`, []string{"|^$-", "|"}, std},
	{`\_\ \,\:\/`, []string{"_ ,:/", "_"}, std},
	{"a\\\nb", []string{"a\nb", "a\\\nb", "ab"}, lines},
	{`\n`, []string{"\n", "n", "a\nb"}, lines},
	{`\t\r\f\v\a`, []string{"\t\r\f\v\a", "t"}, std},
	{`\A`, []string{"", "a"}, lines},
	{`\Aa`, []string{"a", "ba", "b\na"}, lines},
	{`a\z`, []string{"a", "ab", "a\n", "a\nb"}, lines},
	{`a\Z`, []string{"a"}, std},
	{`\Ab*\z`, []string{"", "b", "bb", "ab", "b\n"}, lines},
	{`\ba`, []string{"a", "ba", "b a", "-a", "_a", "1a", "\na"}, std},
	{`a\b`, []string{"a", "ab", "a b", "a-", "a_", "a1", "a\n"}, std},
	{`\Ba`, []string{"a", "ba", "b a", "-a", "_a", "1a", "\na"}, std},
	{`a\B`, []string{"a", "ab", "a b", "a-", "a_", "a1", "a\n"}, std},
	{`\b`, []string{"", "a", " ", "-"}, std},
	{`\B`, []string{"", "a", " ", "-", "ab"}, std},
	{`\b\b`, []string{"", "a", " "}, std},
	{`\bab\b`, []string{"ab", "xab", "x ab y", "ab_", "ab-"}, std},
	{`[\b]`, []string{"b", "\b"}, std},
	{`[\A]`, []string{"A"}, std},
	{`\1`, []string{"a"}, std},
	{`(a)\1`, []string{"aa"}, std},
	{`\8`, []string{"8"}, std},
	{`\0`, []string{"\x00", "0"}, std},
	{`\101`, []string{"A", "a"}, std},
	{`\x41`, []string{"A", "a"}, std},
	{`\x{41}`, []string{"A", "a"}, std},
	{`\pL`, []string{"A", "1"}, std},
	{`\p{Lu}`, []string{"A", "a"}, std},
	{`\Qa.b\E`, []string{"a.b", "axb"}, std},
	{`\Q`, []string{"", "Q"}, std},
	{`\C`, []string{"a"}, std},
	{`\e`, []string{"a"}, std},
	{`\h`, []string{" "}, std},
	{`\R`, []string{"\n"}, std},
	{`\i`, []string{"i"}, std},
	{`.`, []string{"", "a", "\n", "\r", "\x00"}, []flagSet{fNone, fS, fM}},
	{`^.*$`, []string{"", "a", "\n", "a\nb", "ab", "\n\n"}, lines},
	{`^.+$`, []string{"", "a", "\n", "a\nb", "ab", "\n\n"}, lines},
	{`a.*b.*c`, []string{"abc", "axbxc", "acb", "a\nb\nc", "ab\nc"}, lines},
	{`^(a+)+$`, []string{"aaaa", "aaab", "", "a"}, std},
	{`^(a|aa)+$`, []string{"aaaa", "aaab", "", "a", "aaa"}, std},
	{`^(a?){3}a{3}$`, []string{"aaa", "aaaa", "aaaaaa", "aa", "aaaaaaa"}, std},
	{`^[a-z]+@[a-z]+\.[a-z]{2,3}$`, []string{"ab@cd.com", "ab@cd.c", "ab@cd.comm", "@cd.com", "AB@CD.COM", "ab@cd,com"}, std},
	{`^\d+(\.\d+)?$`, []string{"1", "1.5", "1.", ".5", "12.34", "1.2.3", ""}, std},
	{`^-?\d+$`, []string{"1", "-1", "--1", "-", "12", ""}, std},
	{`^[+-]?\d*\.?\d+$`, []string{"1", "-1", "+.5", "1.", "1.5", "", "."}, std},
	{`^(true|false|null)$`, []string{"true", "false", "null", "TRUE", "truefalse", "nul"}, std},
	{`^\s+|\s+$`, []string{" a", "a ", "a", " ", "", "a b", "a\n"}, lines},
	{`^a|b$`, []string{"a", "b", "ab", "ba", "xb", "ax", "xax", "c\nb\nc", "c\na\nc"}, lines},
	{`^(a|b)$`, []string{"a", "b", "ab", "ba", ""}, lines},
	{`ab|cd|`, []string{"ab", "cd", "", "x"}, std},
	{`a||b`, []string{"a", "b", "", "x"}, std},
	{`^(a||b)$`, []string{"a", "b", "", "x", "ab"}, std},
	{"\u212a", []string{"k", "K", "\u212a"}, std},
	{`k`, []string{"k", "K", "\u212a"}, std},
	{`[k-l]`, []string{"k", "K", "\u212a", "L"}, std},
	{`s`, []string{"s", "S", "\u017f"}, std},
	{`\w`, []string{"\u212a", "\u017f", "\u00e9", "a"}, std},
	{`.`, []string{"\u00e9", "\xff", "\xc3"}, std},
	{`^.$`, []string{"\u00e9", "\xff", "\xc3", "\u00e9\u00e9"}, std},
	{"\u00e9", []string{"\u00e9", "e", "\u00c9", "x\u00e9x", "\xc3", "\xa9"}, []flagSet{fNone, fI, fQ, fIQ}},
	{"\u00e9+", []string{"\u00e9", "e", "\u00c9", "\u00e9\u00e9"}, std},
	{"[\u00e9]", []string{"\u00e9", "e", "\xc3"}, std},
	{"\ufffd", []string{"\xff", "\ufffd", "a", "a\xff"}, []flagSet{fNone, fI, fQ, fIQ}},
	{"a\ufffd", []string{"a\xff", "a\ufffd", "a"}, []flagSet{fNone, fI, fQ, fIQ}},
	{"a\xffb", []string{"a\xffb", "a"}, []flagSet{fNone, fQ}},
	{`a.b*c+d?`, []string{"axc", "axbbccd", "axd", "a.c", "AXC"}, []flagSet{fNone, fI, fQ, fIQ}},
	{`a.b`, []string{"a.b", "axb", "A.B", "xa.by", ""}, []flagSet{fQ, fIQ}},
	{`a\b`, []string{`a\b`, "a", `A\B`}, []flagSet{fQ, fIQ}},
	{`[a]`, []string{"[a]", "a", "[A]"}, []flagSet{fQ, fIQ}},
	{`(`, []string{"(", "a("}, []flagSet{fQ, fIQ}},
	{``, []string{"", "a", "\n"}, []flagSet{fNone, fI, fS, fM, fQ, fIQ}},
	{`abc`, []string{"abc", "xabcx", "ab", "ABC", "aBc", "a\nbc"}, []flagSet{fNone, fI, fS, fM, fQ, fIQ}},
	{`a b`, []string{"a b", "ab", "A B"}, []flagSet{fNone, fI, fQ}},
	{`a#b`, []string{"a#b", "ab"}, []flagSet{fNone, fI, fQ}},
	{strings.Repeat("a?", 24), []string{"aaa", "b"}, std},
	{strings.Repeat("a?", 24) + "b", []string{"aaa", "b"}, std},
	{strings.Repeat("a", 60), []string{"aaa", strings.Repeat("a", 60), strings.Repeat("A", 61)}, []flagSet{fNone, fI, fQ}},
	{`^(a|b)*$`, []string{strings.Repeat("ab", 64), strings.Repeat("ab", 64) + "c", strings.Repeat("ab", 64) + "a"}, std},
	{`(((a{4}){4}){4}){4}`, []string{strings.Repeat("a", 128)}, std},
	{`((((a{4}){4}){4}){4}){3}`, []string{"a"}, std},
	{`((((a{4}){4}){4}){4}){4}`, []string{"a"}, std},
	{`((((a{2}){2}){2}){2}){2}`, []string{"a", strings.Repeat("a", 32), strings.Repeat("a", 31)}, std},
	{`^(((a{2}){2}){2}){2}$`, []string{"a", strings.Repeat("a", 16), strings.Repeat("a", 17)}, std},
}

func main() {
	seed := flag.Int64("seed", 1, "random seed")
	n := flag.Int("n", 6000, "number of random patterns of length 4..7")
	maxEnum := flag.Int("enum", 3, "enumerate all patterns up to this length")
	nt := flag.Int("nt", 1000, "number of random patterns made of 2..7 tokens")
	wide := flag.Bool("wide", false, "random byte patterns over a wider alphabet and subject set")
	path := flag.String("o", "cases.ndjson", "output file")
	sum := flag.String("sum", "", "summarise this TLC output instead of generating")
	flag.Parse()
	if *sum != "" {
		summarise(*sum)
		return
	}

	f, err := os.Create(*path)
	if err != nil {
		panic(err)
	}
	out = bufio.NewWriterSize(f, 1<<20)
	r := rand.New(rand.NewSource(*seed))

	// (b) hand-written
	for _, h := range hands {
		seen := map[string]bool{}
		ss := append(append([]string{}, h.subjs...), common...)
		k := 0
		for _, s := range ss {
			if seen[s] || k >= 12 {
				continue
			}
			seen[s] = true
			k++
			for _, fl := range h.flags {
				emit(h.pat, s, fl)
			}
		}
	}
	nHand := nextID

	// (a) exhaustive part
	for l := 0; l <= *maxEnum; l++ {
		enumerate(r, nil, l)
	}
	nEnum := nextID - nHand

	// (a) random part
	alpha, subj := alphabet, subjects
	if *wide {
		alpha, subj = wideAlphabet, wideSubjects
	}
	seenPat := map[string]bool{}
	for k := 0; k < *n; {
		l := 4 + r.Intn(4)
		b := make([]byte, l)
		for j := range b {
			b[j] = alpha[r.Intn(len(alpha))]
		}
		if seenPat[string(b)] {
			continue
		}
		seenPat[string(b)] = true
		k++
		for _, s := range pickSubjects(r, subj) {
			emit(string(b), s, pickFlags(r))
		}
	}
	nRand := nextID - nHand - nEnum

	// (c) random token patterns
	for k := 0; k < *nt; {
		var b strings.Builder
		depth := 0
		balance := r.Intn(10) > 0 // mostly balanced parentheses
		for j := 2 + r.Intn(6); j > 0; j-- {
			t := tokens[r.Intn(len(tokens))]
			if balance && t == ")" {
				if depth == 0 {
					continue
				}
				depth--
			}
			if t[0] == '(' {
				depth++
			}
			b.WriteString(t)
		}
		for ; balance && depth > 0; depth-- {
			b.WriteString(")")
		}
		if seenPat[b.String()] {
			continue
		}
		seenPat[b.String()] = true
		k++
		fl := pickFlags(r)
		ss := pickSubjects(r, wideSubjects)
		// replace up to three of the subjects by random strings the pattern
		// matches under fl, so that enough cases want "T"
		if re, err := regexp.Compile(goPattern(b.String(), fl)); err == nil {
			found := 0
			for try := 0; try < 300 && found < 3; try++ {
				x := make([]byte, r.Intn(7))
				for j := range x {
					x[j] = subjAlphabet[r.Intn(len(subjAlphabet))]
				}
				if re.MatchString(string(x)) && len(x) > 0 {
					ss[found] = string(x)
					found++
				}
			}
		}
		for j, s := range ss {
			if j < 3 {
				emit(b.String(), s, fl)
			} else {
				emit(b.String(), s, pickFlags(r))
			}
		}
	}
	nTok := nextID - nHand - nEnum - nRand

	if err := out.Flush(); err != nil {
		panic(err)
	}
	if err := f.Close(); err != nil {
		panic(err)
	}
	fmt.Fprintf(os.Stderr, "cases: %d (hand %d, enumerated %d, random %d, token %d); want T %d, F %d, invalid %d; validate/compile disagreements: %d\n",
		nextID, nHand, nEnum, nRand, nTok, counts["T"], counts["F"], counts["invalid"], disagree)
}

// summarise adds up the <<"BLOCK", "{json}">> lines of a Test_Regex run and
// lists the mismatch lines.  Exit status 1 if anything is wrong.
func summarise(path string) {
	f, err := os.Open(path)
	if err != nil {
		panic(err)
	}
	defer f.Close()
	tot := map[string]int{}
	blocks, mism := 0, 0
	okLine := false
	sc := bufio.NewScanner(f)
	sc.Buffer(make([]byte, 1<<20), 1<<20)
	for sc.Scan() {
		l := strings.TrimSpace(sc.Text())
		switch {
		case strings.Contains(l, "MISMATCH"):
			mism++
			fmt.Println(l)
		case strings.HasPrefix(l, `<<"BLOCK", `):
			var js string
			var m map[string]int
			if err := json.Unmarshal([]byte(strings.TrimSuffix(strings.TrimPrefix(l, `<<"BLOCK", `), ">>")), &js); err != nil {
				panic(err)
			}
			if err := json.Unmarshal([]byte(js), &m); err != nil {
				panic(err)
			}
			blocks++
			for k, v := range m {
				if k != "blk" {
					tot[k] += v
				}
			}
		case strings.Contains(l, "Model checking completed. No error has been found."):
			okLine = true
		}
	}
	all, valid, invalid := 0, 0, 0
	keys := make([]string, 0, len(tot))
	for k, v := range tot {
		keys = append(keys, k)
		all += v
		if strings.HasPrefix(k, "inv:") {
			invalid += v
		} else if k != "bad" {
			valid += v
		}
	}
	sort.Strings(keys)
	fmt.Printf("blocks %d, cases %d, mismatch lines %d, bad %d, TLC finished without error: %t\n", blocks, all, mism, tot["bad"], okLine)
	fmt.Printf("patterns Go compiles: %d cases, decided %d (%.2f%%), opaque %d\n", valid, tot["decided"],
		100*float64(tot["decided"])/float64(max(valid, 1)), valid-tot["decided"])
	fmt.Printf("patterns Go rejects:  %d cases, all answered opaque; recognised as invalid by RxPatternClass %d (%.2f%%)\n", invalid, tot["inv:invalid"],
		100*float64(tot["inv:invalid"])/float64(max(invalid, 1)))
	for _, k := range keys {
		fmt.Printf("  %-14s %d\n", k, tot[k])
	}
	if mism > 0 || tot["bad"] > 0 || !okLine || blocks == 0 {
		os.Exit(1)
	}
}
