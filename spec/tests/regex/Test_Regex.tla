----------------------------- MODULE Test_Regex -----------------------------
(* Differential test of Regex!RegexMatch against Go's regexp (the vectors   *)
(* of cases.ndjson, written by gen.go).  One initial state per block of     *)
(* cases; the single step of a block evaluates all its cases, prints every  *)
(* disagreement and a summary line, and records the number of               *)
(* disagreements in bad, which the invariant requires to stay 0.            *)
(*                                                                          *)
(* A case is fine when RegexMatch answers want or "opaque"; for a pattern   *)
(* Go rejects (want = "invalid") it must answer "opaque".  RxPatternClass   *)
(* is checked too: never "invalid" for a pattern Go compiles, never "valid" *)
(* for one it rejects.                                                      *)
EXTENDS Regex, Json, TLC, Sequences, Integers, FiniteSets

Cases   == ndJsonDeserialize("cases.ndjson")
NBlocks == 64

VARIABLES blk, bad

CaseFlags(c) == [i |-> c.i, s |-> c.sf, m |-> c.m, q |-> c.q, x |-> FALSE]

\* the outcome of one case: "bad", "decided", "inv:invalid" (rejected by Go and
\* known to be), "inv:<reason>", or "opq:<reason>" (valid for Go, not decided)
Outcome(c) ==
  LET fl  == CaseFlags(c)
      got == RegexMatch(c.pat, fl, c.s)
      cls == RxPatternClass(c.pat, fl)
      why == RxWhyOpaque(c.pat, fl, c.s)
  IN IF got # "opaque" /\ got # c.want
       THEN IF PrintT(<<"MISMATCH", c.id, got, c.want>>) THEN "bad" ELSE "bad"
     ELSE IF (c.want = "invalid" /\ cls = "valid") \/ (c.want # "invalid" /\ cls = "invalid")
       THEN IF PrintT(<<"CLASSMISMATCH", c.id, cls, c.want>>) THEN "bad" ELSE "bad"
     ELSE IF (got = "opaque") # (why # "none")
       THEN IF PrintT(<<"WHYMISMATCH", c.id, got, why>>) THEN "bad" ELSE "bad"
     ELSE IF c.want = "invalid" THEN "inv:" \o why
     ELSE IF got = "opaque" THEN "opq:" \o why
     ELSE "decided"

Reasons == {"invalid", "nonascii", "utf8", "escape", "group", "count", "posix", "depth", "flagx", "long"}
Kinds   == {"bad", "decided"} \cup {"inv:" \o r : r \in Reasons} \cup {"opq:" \o r : r \in Reasons}

BlockIdx(k) == {j \in 1..Len(Cases) : j % NBlocks = k % NBlocks}

\* evaluates the block; prints "BLOCK" and the JSON object [blk |-> k, kind |-> count ...]
BlockBad(k) ==
  LET res == {<<j, Outcome(Cases[j])>> : j \in BlockIdx(k)}
      cnt == [kd \in Kinds |-> Cardinality({t \in res : t[2] = kd})]
  IN IF PrintT(<<"BLOCK", ToJson([kd \in {x \in Kinds : cnt[x] > 0} \cup {"blk"} |->
                                     IF kd = "blk" THEN k ELSE cnt[kd]])>>)
     THEN cnt["bad"] ELSE cnt["bad"]

Init == blk \in 1..NBlocks /\ bad = 0
Step == /\ blk > 0
        /\ bad' = BlockBad(blk)
        /\ blk' = 0
Inv == bad = 0
=============================================================================
