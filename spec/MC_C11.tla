------------------------------- MODULE MC_C11 -------------------------------
\* C11: boolean connectives follow three-valued (Kleene) logic.
\* Universe: every ordered pair (p, q) of conditions drawn from a set that
\* realises each outcome -- true, false, unknown by type mismatch, unknown by
\* a suppressed error, non-suppressible error -- as constants and as
\* document-dependent conditions, x documents x modes; for each pair the 13
\* predicate checks p, q, p && q, p || q, !p, (p) is unknown, !!p,
\* !(p && q), !p || !q, !(p || q), !p && !q, q && p, q || p.
\* Law (on PathSem here, on the implementation in Trace_Group): the observed
\* outcome of each compound equals the Kleene table of the observed outcomes
\* of p and q (a non-suppressible error in an evaluated operand is returned,
\* never a value); commutativity, double negation and De Morgan hold; is
\* unknown is never itself unknown; Match tells the same story as Query; and
\* exists(e) is true/false by the emptiness of e and unknown only when e fails.
EXTENDS GroupUniverse, SequencesExt, Json

KM == <<109>>
Rt(a) == <<NRoot>> \o a
Conds ==
  { NBin("eq", Lit(1), Lit(1)), NBin("eq", Lit(1), Lit(2)), NBin("eq", Lit(1), <<NStr(KA)>>),
    NBin("gt", <<NBin("div", Lit(1), Lit(0))>>, Lit(0)),              \* unknown by suppressed error
    NBin("eq", <<NVar(KM)>>, Lit(1)),                                 \* non-suppressible
    NBin("eq", Rt(<<NKey(KA)>>), Lit(1)), NBin("gt", Rt(<<NKey(KA)>>), Lit(1)), NBin("gt", Rt(<<NAnyArr>>), Lit(1)),
    NUn("exists", Rt(<<NKey(KA)>>)), NBin("eq", Rt(<<NKey(KB)>>), <<NNull>>),
    NBin("starts", Rt(<<NKey(KA)>>), <<NStr(KX)>>), NRegex(Rt(<<NAnyArr>>), KA, NoFlags),
    NBin("lt", Rt(<<NKey(KA), NMethod("double")>>), Lit(2)),
    NUn("isunknown", <<NBin("eq", Rt(<<NKey(KA)>>), Lit(1))>>),
    NUn("not", <<NUn("exists", Rt(<<NKey(KB)>>))>>) }
CondSeq == SetToSeq(Conds)
Exprs ==
  { Rt(<<NKey(KA)>>), Rt(<<NAnyArr>>), Rt(<<NKey(KA), NKey(KB)>>), Rt(<<NAnyArr, NKey(KA)>>), <<NUn("minus", Rt(<<NAnyArr>>))>>,
    <<NVar(KM)>>, <<NBin("div", Rt(<<NKey(KA)>>), Lit(0))>>, Rt(<<NAnyArr, NFilter(NBin("gt", <<NCur>>, Lit(1)))>>), Lit(1),
    Rt(<<NAny(0, -1), NKey(KA)>>), Rt(<<NAnyArr, NMethod("integer")>>), Rt(<<NIdx(<<Sub1(Lit(5))>>)>>),
    (* subscript lists / ranges followed by a step: a hit on an earlier subscript and a miss on the last one *)
    Rt(<<NIdx(<<Sub1(Lit(0)), Sub1(Lit(1))>>), NKey(KA)>>), Rt(<<NIdx(<<Sub1(Lit(1)), Sub1(Lit(0))>>), NKey(KA)>>),
    Rt(<<NIdx(<<Sub1(Lit(0)), Sub1(<<NLast>>)>>), NFilter(NBin("gt", <<NCur>>, Lit(1)))>>),
    Rt(<<NIdx(<<Sub2(Lit(0), Lit(1))>>), NFilter(NBin("lt", <<NCur>>, Lit(1)))>>) }
ExprSeq == SetToSeq(Exprs)
DocSeq == SetToSeq(
  { VObj(<<>>), VObj(<<[k |-> KA, v |-> VFlt(1)]>>), VObj(<<[k |-> KA, v |-> VFlt(2)]>>), VObj(<<[k |-> KA, v |-> VStr(KX)]>>),
    VObj(<<[k |-> KA, v |-> VNull], [k |-> KB, v |-> VNull]>>), VObj(<<[k |-> KA, v |-> VArr(<<VFlt(1), VFlt(2)>>)]>>),
    VArr(<<VFlt(0), VFlt(1), VFlt(2)>>), VArr(<<VFlt(1), VStr(KA)>>), VArr(<<VStr(KA), VFlt(2)>>), VArr(<<>>),
    VArr(<<VObj(<<[k |-> KA, v |-> VFlt(2)]>>), VFlt(3)>>), VArr(<<VFlt(2), VFlt(0)>>), VFlt(1), VFlt(2), VStr(KA), VNull, VTrue })

(* conditions over @ for the in-filter form; several rebind @ in a nested   *)
(* filter before the other operand reads the outer @                         *)
At(a) == <<NCur>> \o a
FConds ==
  { NUn("exists", At(<<NKey(KA), NFilter(NBin("gt", At(<<>>), Lit(5)))>>)),
    NUn("exists", At(<<NKey(KA), NFilter(NBin("gt", At(<<>>), Lit(0)))>>)),
    NUn("exists", At(<<NKey(KA), NFilter(NBin("gt", At(<<>>), <<NStr(KX)>>))>>)),
    NBin("eq", At(<<NKey(KB)>>), Lit(1)), NBin("eq", At(<<NKey(KA)>>), Lit(1)), NBin("gt", At(<<NKey(KA)>>), <<NStr(KX)>>),
    NBin("gt", <<NBin("div", At(<<NKey(KB)>>), Lit(0))>>, Lit(0)),
    NUn("not", <<NUn("exists", At(<<NKey(KA), NAnyArr, NFilter(NBin("eq", At(<<>>), Lit(9)))>>))>>) }
FCondSeq == SetToSeq(FConds)
Obj2(a, b) == VObj(<<[k |-> KA, v |-> a], [k |-> KB, v |-> b]>>)
FDocSeq == SetToSeq({ VArr(<<Obj2(x, y)>>) : x \in {VFlt(1), VFlt(9), VStr(KX), VArr(<<VFlt(9), VFlt(1)>>)}, y \in {VFlt(1), VFlt(2)} }
                    \cup { VArr(<<Obj2(VFlt(1), VFlt(1)), Obj2(VFlt(9), VFlt(2)), Obj2(VStr(KX), VFlt(1))>>) })
C11FilterPreds(p, q) ==
  << NBin("and", <<p>>, <<q>>), NBin("and", <<q>>, <<p>>), NBin("or", <<p>>, <<q>>), NBin("or", <<q>>, <<p>>),
     NUn("not", <<NUn("not", <<p>>)>>), p >>
SpecC11Filter(p, q, doc, lx) ==
  LET ps == C11FilterPreds(p, q)
  IN [id |-> 0, kind |-> "C11filter", lax |-> lx, names |-> <<>>,
      runs |-> [i \in 1..Len(ps) |-> SpecGRun(<<NRoot, NAnyArr, NFilter(ps[i])>>, FALSE, doc, <<>>, lx)]]
ASSUME \A a \in 1..Len(FCondSeq), b \in 1..Len(FCondSeq), d \in 1..Len(FDocSeq), lx \in BOOLEAN :
          GroupOK(SpecC11Filter(FCondSeq[a], FCondSeq[b], FDocSeq[d], lx))
ASSUME ndJsonSerialize("fconds.ndjson", [i \in 1..Len(FCondSeq) |-> [p |-> FCondSeq[i]]])
ASSUME ndJsonSerialize("fdocs.ndjson", [i \in 1..Len(FDocSeq) |-> [doc |-> FDocSeq[i]]])
ASSUME ndJsonSerialize("conds.ndjson", [i \in 1..Len(CondSeq) |-> [p |-> CondSeq[i]]])
ASSUME ndJsonSerialize("exprs.ndjson", [i \in 1..Len(ExprSeq) |-> [chain |-> ExprSeq[i]]])
ASSUME ndJsonSerialize("docs.ndjson", [i \in 1..Len(DocSeq) |-> [doc |-> DocSeq[i]]])
ASSUME ndJsonSerialize("names.ndjson", <<[names |-> C11Names]>>)
ASSUME PrintT(<<"UNIVERSE", Len(CondSeq), Len(ExprSeq), Len(DocSeq)>>)

VARIABLES pi, qi, di, lax
Init == pi \in 1..Len(CondSeq) /\ qi \in 1..Len(CondSeq) /\ di = 0 /\ lax \in BOOLEAN
Step == di = 0 /\ di' \in 1..Len(DocSeq) /\ UNCHANGED <<pi, qi, lax>>
Inv == di = 0
       \/ ( /\ GroupOK(SpecC11(CondSeq[pi], CondSeq[qi], DocSeq[di], <<>>, lax))
            /\ (qi > Len(ExprSeq) \/ pi > 1 \/ GroupOK(SpecC11Exists(ExprSeq[qi], DocSeq[di], <<>>, lax))) )
       \/ (PrintT(<<"LAWFAIL", CondSeq[pi], CondSeq[qi], DocSeq[di], lax,
                    JudgeGroup(SpecC11(CondSeq[pi], CondSeq[qi], DocSeq[di], <<>>, lax))>>) /\ FALSE)

(* the complete truth tables themselves, independent of any document *)
Vals4 == {"T", "F", "U", "H"}
ASSUME \A a \in {"T", "F", "U"}, b \in {"T", "F", "U"} :
          /\ KAnd(a, b) = KAnd(b, a) /\ KOr(a, b) = KOr(b, a)
          /\ KNot(KNot(a)) = a
          /\ KNot(KAnd(a, b)) = KOr(KNot(a), KNot(b)) /\ KNot(KOr(a, b)) = KAnd(KNot(a), KNot(b))
=============================================================================
