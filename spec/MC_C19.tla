------------------------------- MODULE MC_C19 -------------------------------
\* C19 on the specification: every interleaving of the executor steps of NG
\* goroutines making NC calls each on ONE shared Path object, over a pool of
\* calls whose results depend on the innermost-array-size register ($.a[last],
\* nested [*][last], last - 1 in both modes) and of calls that do not.
\* With Hazard = "none" RetSolo and ObjImmutable hold; with the two hazard
\* designs TLC must find a counterexample (the driver checks that it does).
EXTENDS PathObject

D1 == VObj(<<[k |-> KA, v |-> VArr(<<VFlt(1), VFlt(2), VFlt(3)>>)]>>)                              \* {"a":[1,2,3]}
D2 == VObj(<<[k |-> KA, v |-> VArr(<<VArr(<<VFlt(1)>>), VArr(<<VFlt(2), VFlt(3)>>)>>)]>>)          \* {"a":[[1],[2,3]]}
D3 == VArr(<<VObj(<<[k |-> KA, v |-> VFlt(1)]>>), VObj(<<[k |-> KA, v |-> VArr(<<VFlt(5), VFlt(6)>>)]>>)>>)
P1 == <<NRoot, NKey(KA), NIdx(<<Sub1(<<NLast>>)>>)>>                       \* $.a[last]
P2 == <<NRoot, NKey(KA), NAnyArr, NIdx(<<Sub1(<<NLast>>)>>)>>              \* $.a[*][last]
P3 == <<NRoot, NAnyArr, NKey(KA)>>                                         \* $[*].a
P4 == <<NRoot, NKey(KA), NIdx(<<Sub1(LastMinus(1))>>)>>                    \* $.a[last - 1]
P5 == <<NRoot, NKey(KA), NIdx(<<Sub1(Lit(0))>>), NIdx(<<Sub1(<<NLast>>)>>)>>   \* $.a[0][last]
MCCalls ==
  << [chain |-> P1, doc |-> D1, lax |-> TRUE],  [chain |-> P2, doc |-> D2, lax |-> TRUE],
     [chain |-> P3, doc |-> D3, lax |-> TRUE],  [chain |-> P4, doc |-> D2, lax |-> FALSE],
     [chain |-> P5, doc |-> D2, lax |-> TRUE],  [chain |-> P1, doc |-> D3, lax |-> FALSE],
     [chain |-> P5, doc |-> D1, lax |-> FALSE], [chain |-> P2, doc |-> D1, lax |-> TRUE] >>
=============================================================================
