------------------------------- MODULE MC_C19 -------------------------------
\* C19 on the specification: every interleaving of the executor steps of NG
\* goroutines making NC calls each on ONE shared Path object, over a pool of
\* calls whose results depend on the innermost-array-size register ($.a[last],
\* nested [*][last], last - 1 in both modes) and of calls that do not.
\* With Hazard = "none" RetSolo and ObjImmutable hold; with the two hazard
\* designs TLC must find a counterexample (the driver checks that it does).
EXTENDS PathObject, PathPool, SequencesExt, Json

D1 == VObj(<<[k |-> KA, v |-> VArr(<<VFlt(1), VFlt(2), VFlt(3)>>)]>>)                              \* {"a":[1,2,3]}
D2 == VObj(<<[k |-> KA, v |-> VArr(<<VArr(<<VFlt(1)>>), VArr(<<VFlt(2), VFlt(3)>>)>>)]>>)          \* {"a":[[1],[2,3]]}
D3 == VArr(<<VObj(<<[k |-> KA, v |-> VFlt(1)]>>), VObj(<<[k |-> KA, v |-> VArr(<<VFlt(5), VFlt(6)>>)]>>)>>)
P1 == <<NRoot, NKey(KA), NIdx(<<Sub1(<<NLast>>)>>)>>                       \* $.a[last]
P2 == <<NRoot, NKey(KA), NAnyArr, NIdx(<<Sub1(<<NLast>>)>>)>>              \* $.a[*][last]
P3 == <<NRoot, NAnyArr, NKey(KA)>>                                         \* $[*].a
P4 == <<NRoot, NKey(KA), NIdx(<<Sub1(LastMinus(1))>>)>>                    \* $.a[last - 1]
P5 == <<NRoot, NKey(KA), NIdx(<<Sub1(Lit(0))>>), NIdx(<<Sub1(<<NLast>>)>>)>>   \* $.a[0][last]
MCCalls ==
  << [chain |-> P1, doc |-> D1, lax |-> TRUE],  [chain |-> P2, doc |-> D2, lax |-> TRUE],
     [chain |-> P3, doc |-> D3, lax |-> TRUE],  [chain |-> P4, doc |-> D2, lax |-> FALSE],
     [chain |-> P5, doc |-> D2, lax |-> TRUE],  [chain |-> P1, doc |-> D3, lax |-> FALSE],
     [chain |-> P5, doc |-> D1, lax |-> FALSE], [chain |-> P2, doc |-> D1, lax |-> TRUE] >>

(* --- the pool the real driver runs (exported) ----------------------------- *)
(* every node kind and every consumer of an operand's status (PathPool), the *)
(* chains of the step machine above, datetime methods, keyvalue ids          *)
ObjExtra ==
  { P1, P2, P3, P4, P5,
    Rt(<<NAnyArr, NDT("datetime"), NMethod("string")>>), Rt(<<NAnyArr, NDT("date")>>),
    Rt(<<NAnyArr, NFilter(NBin("lt", At(<<NDT("datetime")>>), <<NStr(<<50,48,49,54,45,48,49,45,48,49>>), NDT("datetime")>>))>>),
    Rt(<<NAny(0, -1), NMethod("keyvalue")>>), Rt(<<NAnyArr, NMethod("keyvalue"), NKey(<<105,100>>)>>),
    Rt(<<NAnyArr, NFilter(NRegex(At(<<>>), <<94,50>>, [NoFlags EXCEPT !.i = TRUE]))>>),
    Rt(<<NAnyArr, NFilter(NRegex(At(<<>>), <<50,46>>, [NoFlags EXCEPT !.q = TRUE]))>>),          \* like_regex "2." flag "q"
    Rt(<<NAnyArr, NFilter(NRegex(At(<<>>), <<50>>, [NoFlags EXCEPT !.q = TRUE, !.i = TRUE]))>>),
    (* texts that differ only in the white space inside a string literal / a quoted key *)
    Rt(<<NAnyArr, NFilter(NBin("eq", At(<<>>), <<NStr(<<97,32,32,98>>)>>))>>), Rt(<<NAnyArr, NFilter(NBin("eq", At(<<>>), <<NStr(<<97,32,98>>)>>))>>),
    Rt(<<NKey(<<120,32,32,121>>)>>), Rt(<<NKey(<<120,32,121>>)>>),
    (* text that is printed with \u escapes: parsed again concurrently *)
    Rt(<<NKey(<<1,2,3,4>>)>>), Rt(<<NAnyArr, NFilter(NBin("eq", At(<<>>), <<NStr(<<7,8,1,31>>)>>))>>),
    (* a comparison whose left operand yields an item and then fails (strict), on documents where it does and does not *)
    Rt(<<NAnyArr, NFilter(NBin("ne", At(<<NKey(KA), NAnyArr, NKey(KB)>>), Lit(5)))>>),
    (* ids of nested .keyvalue(): stable from call to call, also for keys that differ only in case *)
    Rt(<<NMethod("keyvalue"), NMethod("keyvalue")>>), Rt(<<NAny(0, -1), NMethod("keyvalue"), NKey(<<105,100>>)>>) }
PathRows == SetToSeq({[pred |-> FALSE, chain |-> p] : p \in ExprPaths \cup ObjExtra} \cup {[pred |-> TRUE, chain |-> <<q>>] : q \in PredPaths})
DocSeq == SetToSeq(
  { D1, D2, D3,
    VArr(<<VFlt(1), VFlt(2), VFlt(3)>>), VObj(<<[k |-> KA, v |-> VFlt(1)], [k |-> KB, v |-> VFlt(2)]>>),
    VArr(<<VObj(<<[k |-> KA, v |-> VFlt(1)]>>), VObj(<<[k |-> KA, v |-> VStr(KX)]>>), VFlt(2)>>),
    VObj(<<[k |-> KA, v |-> VArr(<<VFlt(1), VFlt(2)>>)], [k |-> KB, v |-> VFlt(0)]>>),
    VArr(<<VArr(<<VObj(<<[k |-> KA, v |-> VFlt(1)]>>), VObj(<<[k |-> KA, v |-> VFlt(2)]>>)>>), VStr(KX)>>),
    VArr(<<VStr(<<50,48,49,53,45,48,56,45,48,50>>), VStr(<<50,48,49,54,45,48,50,45,50,57,84,49,50,58,51,52,58,53,54>>), VStr(<<49,50,58,51,52,58,53,54,43,48,53,58,51,48>>), VStr(<<50,48,49,55,45,48,49,45,48,49,84,48,48,58,48,48,58,48,48,90>>)>>) ,
    VObj(<<[k |-> <<65>>, v |-> VFlt(2)], [k |-> KA, v |-> VFlt(1)], [k |-> KB, v |-> VObj(<<[k |-> <<66>>, v |-> VFlt(1)], [k |-> KB, v |-> VFlt(2)]>>)]>>),   \* {"A":2,"a":1,"b":{"B":1,"b":2}}
    VArr(<<VStr(<<97,32,32,98>>), VStr(<<97,32,98>>), VObj(<<[k |-> <<120,32,32,121>>, v |-> VFlt(1)], [k |-> <<120,32,121>>, v |-> VFlt(2)]>>)>>) ,
    VArr(<<VObj(<<[k |-> KA, v |-> VArr(<<VObj(<<[k |-> KB, v |-> VFlt(9)]>>), VObj(<<[k |-> KC, v |-> VFlt(1)]>>)>>)]>>)>>),   \* [{"a":[{"b":9},{"c":1}]}]
    VArr(<<VObj(<<[k |-> KA, v |-> VArr(<<VObj(<<[k |-> KB, v |-> VFlt(5)]>>)>>)]>>)>>) })                                        \* [{"a":[{"b":5}]}]
VarRow == [vars |-> <<[k |-> KX, v |-> VArr(<<VFlt(1), VFlt(2)>>)]>>]
ASSUME ndJsonSerialize("paths.ndjson", PathRows)
ASSUME ndJsonSerialize("docs.ndjson", [i \in 1..Len(DocSeq) |-> [doc |-> DocSeq[i]]])
ASSUME ndJsonSerialize("vars.ndjson", <<VarRow>>)
ASSUME PrintT(<<"UNIVERSE", Len(PathRows), Len(DocSeq)>>)
=============================================================================
