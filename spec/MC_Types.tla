------------------------------ MODULE MC_Types ------------------------------
\* U_types (C05, also C12/C13/C16): every operator and every item method
\* applied to every kind of value, as document, as array element and as
\* variable, including json.Number texts outside the float64 / int64 ranges
\* (those documents are added by the runner: "1e400", "-1e400", "1e-400",
\* "92233720368547758070"; the specification does not decide their numeric
\* comparisons but does decide that nothing panics, nothing non-finite comes
\* back and every error is classified).
\* Invariant: PathSem's own outcomes satisfy the laws of ExecLaws.
EXTENDS ExecLaws, Universe, SequencesExt, Json

Subj == { <<NRoot>>, <<NRoot, NAnyArr>>, <<NRoot, NKey(KA)>>, <<NVar(KX)>> }
Ops  == {"add", "sub", "mul", "div", "mod"}
Cmps == {"eq", "ne", "lt", "gt", "le", "ge"}
LitsT == {Lit(0), Lit(1), Lit(2), <<NNum(VHalf(3))>>, <<NStr(KA)>>, <<NTrue>>, <<NNull>>}
Methods == {"abs", "floor", "ceiling", "double", "number", "integer", "bigint", "boolean", "string", "type", "size", "keyvalue"}

ExprPaths ==
  {<<NBin(op, s, l)>> : op \in Ops, s \in Subj, l \in LitsT}
  \cup {<<NBin(op, l, s)>> : op \in Ops, s \in Subj, l \in {Lit(1), Lit(0), <<NStr(KA)>>}}
  \cup {<<NBin(op, s, t)>> : op \in Ops, s \in Subj, t \in Subj}
  \cup {<<NUn(u, s)>> : u \in {"plus", "minus"}, s \in Subj}
  \cup {s \o <<NMethod(m)>> : s \in Subj, m \in Methods}
  \cup {s \o <<NDecimal0>> : s \in Subj} \cup {s \o <<NDecimal2(VInt(3), VInt(1))>> : s \in Subj}
  \cup {s \o <<NDecimal1(VInt(0))>> : s \in Subj}
  \cup {s \o <<d>> : s \in {<<NRoot>>, <<NRoot, NAnyArr>>}, d \in {NDecimal2(VInt(3), VInt(1001)), NDecimal2(VInt(1001), VInt(0)), NDecimal2(VInt(3), VInt(-1001))}}
  (* the non-suppressible argument errors of .decimal() where errors are otherwise suppressed *)
  \cup {<<NRoot, NAnyArr, NFilter(NBin("gt", <<NCur, d>>, Lit(1)))>> : d \in {NDecimal1(VInt(0)), NDecimal2(VInt(3), VInt(1001)), NDecimal2(VInt(3), VInt(1))}}
  \cup {<<NRoot, NIdx(<<Sub1(s)>>)>> : s \in Subj}
  \cup {<<NUn(u, s), NMethod(m)>> : u \in {"minus"}, s \in {<<NRoot>>}, m \in {"ceiling", "string", "double"}}
PredPaths ==
  {NBin(c, s, l) : c \in Cmps, s \in Subj, l \in LitsT} \cup {NBin(c, s, t) : c \in {"eq", "lt"}, s \in Subj, t \in Subj}
  \cup {NBin("starts", s, <<NStr(KA)>>) : s \in Subj} \cup {NRegex(s, KA, NoFlags) : s \in Subj}
  \cup {NUn("exists", <<NRoot, NAnyArr, d>>) : d \in {NDecimal1(VInt(0)), NDecimal2(VInt(3), VInt(1001))}}
PathRows == SetToSeq({[pred |-> FALSE, chain |-> p] : p \in ExprPaths} \cup {[pred |-> TRUE, chain |-> <<q>>] : q \in PredPaths})

Vals == { VNull, VTrue, VFalse, VFlt(0), VFlt(1), VFlt(-1), VHalf(3), VHalf(-5), VStr(KA), VStr(<<49>>), VStr(<<>>),
          VArr(<<>>), VObj(<<>>) }
DocSet == Vals \cup {VArr(<<v>>) : v \in Vals} \cup {VObj(<<[k |-> KA, v |-> v]>>) : v \in Vals}
          \cup {VArr(<<VFlt(1), v>>) : v \in Vals}
          \cup {VArr(<<VArr(<<VHalf(3)>>)>>), VArr(<<VHalf(3), VArr(<<VHalf(5)>>)>>), VArr(<<VArr(<<VStr(<<49>>), VTrue>>)>>)}    \* nested arrays: one level of unwrapping only
DocSeq == SetToSeq(DocSet)
VarRow == [vars |-> <<[k |-> KX, v |-> VStr(KA)]>>]

ASSUME ndJsonSerialize("paths.ndjson", PathRows)
ASSUME ndJsonSerialize("docs.ndjson", [i \in 1..Len(DocSeq) |-> [doc |-> DocSeq[i]]])
ASSUME ndJsonSerialize("vars.ndjson", <<VarRow>>)
ASSUME PrintT(<<"UNIVERSE", Len(PathRows), Len(DocSeq)>>)

VARIABLES pi, di, lax
CaseAt(p, d, lx) ==
  [path |-> [lax |-> lx, pred |-> PathRows[p].pred, chain |-> PathRows[p].chain], doc |-> DocSeq[d],
   vars |-> VarRow.vars, silent |-> FALSE, useTZ |-> FALSE, zone |-> "UTC"]
Init == pi \in 1..Len(PathRows) /\ di = 0 /\ lax \in BOOLEAN
Step == di = 0 /\ di' \in 1..Len(DocSeq) /\ UNCHANGED <<pi, lax>>
Inv == di = 0 \/ SpecSatisfiesLaws(CaseAt(pi, di, lax))
       \/ (PrintT(<<"LAWFAIL", PathRows[pi], DocSeq[di], lax, JudgeExec(SpecRec(CaseAt(pi, di, lax)))>>) /\ FALSE)
=============================================================================
