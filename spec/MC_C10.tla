------------------------------- MODULE MC_C10 -------------------------------
\* C10: a filter keeps exactly the items for which its condition is true.
\* Universe: prefix paths x conditions (comparisons, exists, starts with,
\* like_regex, connectives, is unknown, nested filters, conditions that fail
\* suppressibly or not, conditions that look at the root) x documents x modes.
\* Law (checked here on PathSem, and by Trace_Group on the implementation):
\* the result of P ? (C) is the order-preserving subsequence of P's items
\* (after one level of array unwrapping in lax mode) whose condition, rewritten
\* as a predicate check over the item, yields true; in strict mode two
\* consecutive filters equal one filter on the conjunction.
EXTENDS GroupUniverse, SequencesExt, Json

CONSTANTS MaxNodes, Wide

KM == <<109>>
KP == <<112>>      \* $p: an array of strings
KS == <<115>>      \* $s: a string
VarsC10 == << [k |-> KP, v |-> VArr(<<VStr(KX), VStr(KA)>>)], [k |-> KS, v |-> VStr(KA)] >>
At(a) == <<NCur>> \o a
PrefixSet ==
  IF Wide THEN { <<NRoot>>, <<NRoot, NAnyArr>>, <<NRoot, NKey(KA)>>, <<NRoot, NAnyKey>>, <<NRoot, NAny(0, -1)>>,
                 <<NRoot, NIdx(<<Sub2(Lit(0), Lit(1))>>)>>, <<NRoot, NKey(KA), NAnyArr>>, <<NRoot, NAnyArr, NKey(KA)>>,
                 <<NRoot, NAny(1, 1)>>, <<NRoot, NKey(KB)>>, <<NRoot, NAnyArr, NAnyArr>>, <<NRoot, NIdx(<<Sub1(<<NLast>>)>>)>> }
  ELSE { <<NRoot>>, <<NRoot, NAnyArr>>, <<NRoot, NKey(KA)>>, <<NRoot, NAnyKey>>, <<NRoot, NAny(0, -1)>>,
         <<NRoot, NIdx(<<Sub2(Lit(0), Lit(1))>>)>> }

Lits == {Lit(1), Lit(2), <<NStr(KA)>>, <<NTrue>>, <<NNull>>}
Subjects == {At(<<>>), At(<<NKey(KA)>>), At(<<NAnyArr>>), At(<<NMethod("size")>>)}
Cmp == {NBin(op, s, l) : op \in {"eq", "lt", "ge", "ne"}, s \in Subjects, l \in Lits}
Others ==
  { NUn("exists", At(<<NKey(KA)>>)), NUn("exists", At(<<NAnyArr>>)), NUn("exists", At(<<NKey(KB), NKey(KA)>>)),
    NBin("starts", At(<<>>), <<NStr(KA)>>), NBin("starts", At(<<NKey(KA)>>), <<NStr(<<>>)>>),
    NRegex(At(<<>>), KA, NoFlags), NRegex(At(<<NAnyArr>>), KA, [NoFlags EXCEPT !.i = TRUE]),
    NBin("and", <<NBin("gt", At(<<>>), Lit(0))>>, <<NBin("lt", At(<<>>), Lit(2))>>),
    NBin("or", <<NBin("eq", At(<<NKey(KA)>>), Lit(1))>>, <<NBin("eq", At(<<>>), Lit(2))>>),
    NUn("not", <<NBin("eq", At(<<>>), Lit(1))>>),
    NUn("isunknown", <<NBin("eq", At(<<NKey(KA)>>), Lit(1))>>),
    NUn("isunknown", <<NBin("gt", At(<<>>), <<NStr(KA)>>)>>),
    NBin("gt", <<NCur, NFilter(NBin("gt", At(<<>>), Lit(1)))>>, Lit(0)),                 \* nested filter: @ ? (@ > 1) > 0
    NBin("gt", <<NBin("div", At(<<>>), Lit(0))>>, Lit(1)),                              \* suppressible failure
    NBin("eq", <<NBin("add", At(<<NKey(KA)>>), Lit(1))>>, Lit(2)),
    NBin("eq", At(<<NKey(KX)>>), Lit(1)),                                               \* strict: missing key inside C
    NBin("eq", At(<<>>), <<NRoot, NKey(KB)>>),                                          \* looks at the root
    NBin("eq", At(<<NKey(KA)>>), <<NRoot, NIdx(<<Sub1(Lit(0))>>), NKey(KA)>>),
    NBin("eq", At(<<>>), <<NVar(KM)>>),                                                 \* non-suppressible
    NBin("or", <<NBin("eq", At(<<>>), Lit(1))>>, <<NBin("eq", At(<<>>), <<NVar(KM)>>)>>),
    NBin("lt", <<NUn("minus", At(<<>>))>>, Lit(0)),
    NBin("eq", At(<<NMethod("type")>>), <<NStr(<<110,117,109,98,101,114>>)>>),
    (* right operands: a variable holding an array or a string; a failing right operand next to an empty left one *)
    NBin("starts", At(<<>>), <<NVar(KP)>>), NBin("starts", At(<<NKey(KA)>>), <<NVar(KS)>>),
    NUn("isunknown", <<NBin("starts", At(<<>>), <<NVar(KP)>>)>>),
    NBin("eq", At(<<>>), <<NVar(KP)>>), NBin("eq", At(<<NKey(KA)>>), <<NVar(KS)>>),
    NBin("eq", At(<<NKey(KX)>>), At(<<NKey(KB), NMethod("integer")>>)),
    NUn("not", <<NBin("eq", At(<<NKey(KX)>>), At(<<NKey(KB), NMethod("integer")>>))>>),
    NUn("isunknown", <<NBin("eq", At(<<NKey(KX)>>), At(<<NMethod("integer")>>))>>),
    NBin("eq", At(<<NKey(KX)>>), <<NVar(KM)>>),
    NBin("lt", At(<<NKey(KX)>>), <<NBin("div", Lit(1), Lit(0))>>),
    (* @ used again after a nested filter that accepted / rejected its last candidate *)
    NBin("or", <<NUn("exists", At(<<NKey(KA), NAnyArr, NFilter(NBin("eq", At(<<>>), Lit(1)))>>))>>, <<NBin("eq", At(<<NKey(KB)>>), Lit(2))>>),
    NBin("and", <<NUn("not", <<NUn("exists", At(<<NKey(KA), NAnyArr, NFilter(NBin("eq", At(<<>>), Lit(2)))>>))>>)>>, <<NBin("eq", At(<<NKey(KB)>>), Lit(2))>>),
    NBin("and", <<NBin("gt", At(<<NAnyArr, NFilter(NBin("gt", At(<<>>), Lit(1)))>>), Lit(0))>>, <<NBin("gt", At(<<NMethod("size")>>), Lit(1))>>),
    NBin("or", <<NBin("eq", At(<<NAnyArr, NFilter(NBin("eq", At(<<>>), <<NStr(KA)>>))>>), <<NStr(KA)>>)>>, <<NBin("eq", At(<<NMethod("type")>>), <<NStr(<<97,114,114,97,121>>)>>)>>),
    (* subscripts inside the condition: a hit followed by a miss and a miss followed by a hit (the status of *)
    (* the last element must not decide), a failure on an earlier element, a bound that fails suppressibly  *)
    NUn("exists", At(<<NIdx(<<Sub2(Lit(0), Lit(1))>>), NFilter(NBin("gt", At(<<>>), Lit(1)))>>)),
    NUn("exists", At(<<NIdx(<<Sub1(Lit(0)), Sub1(Lit(1))>>), NFilter(NBin("gt", At(<<>>), Lit(1)))>>)),
    NUn("exists", At(<<NAny(0, -1), NFilter(NBin("eq", At(<<>>), Lit(1)))>>)),
    NUn("not", <<NUn("exists", At(<<NIdx(<<Sub2(Lit(0), Lit(1))>>), NFilter(NBin("gt", At(<<>>), Lit(1)))>>))>>),
    NBin("eq", At(<<NIdx(<<Sub1(Lit(0)), Sub1(Lit(1))>>), NKey(KA)>>), Lit(1)),
    NUn("isunknown", <<NBin("eq", At(<<NIdx(<<Sub1(Lit(0)), Sub1(Lit(1))>>), NKey(KA)>>), Lit(1))>>),
    NBin("gt", At(<<NIdx(<<Sub1(Lit(0)), Sub1(Lit(1))>>), NMethod("double")>>), Lit(1)),
    NBin("eq", At(<<NKey(KA), NIdx(<<Sub1(At(<<NKey(KB)>>))>>)>>), Lit(2)),
    NUn("isunknown", <<NBin("eq", At(<<NKey(KA), NIdx(<<Sub1(At(<<NKey(KB)>>))>>)>>), Lit(2))>>),
    NUn("not", <<NBin("eq", At(<<NKey(KA), NIdx(<<Sub1(At(<<NKey(KX)>>))>>)>>), Lit(2))>>) }
Conds == Cmp \cup Others
CondSeq == SetToSeq(Conds)
PrefSeq == SetToSeq(PrefixSet)

Special == { VArr(<<VArr(<<VFlt(2)>>), VFlt(3), VArr(<<VFlt(0), VFlt(5)>>), VArr(<<VArr(<<VFlt(9)>>)>>)>>),
             VArr(<<VObj(<<[k |-> KA, v |-> VFlt(1)]>>), VObj(<<[k |-> KA, v |-> VFlt(2)]>>), VFlt(1), VStr(KA)>>),
             VObj(<<[k |-> KA, v |-> VArr(<<VFlt(1), VFlt(2)>>)], [k |-> KB, v |-> VFlt(2)]>>),
             VArr(<<VFlt(1), VFlt(2), VFlt(1)>>),
             VArr(<<VStr(<<97, 98>>), VStr(KX), VStr(<<120, 121>>), VFlt(12)>>),
             VArr(<<VObj(<<[k |-> KA, v |-> VArr(<<VFlt(2), VFlt(1)>>)], [k |-> KB, v |-> VFlt(2)]>>),
                    VObj(<<[k |-> KA, v |-> VArr(<<VFlt(1), VFlt(2)>>)], [k |-> KB, v |-> VFlt(2)]>>),
                    VObj(<<[k |-> KA, v |-> VArr(<<>>)], [k |-> KB, v |-> VFlt(2)]>>),
                    VObj(<<[k |-> KA, v |-> VStr(KA)], [k |-> KB, v |-> VStr(KX)]>>)>>),
             (* an array among the items an operand yields, before and after a scalar (lax unwraps it in place) *)
             VArr(<<VArr(<<VArr(<<VFlt(1), VFlt(1)>>), VFlt(2)>>), VArr(<<VFlt(2), VArr(<<VFlt(1), VFlt(1)>>)>>),
                    VArr(<<VArr(<<VFlt(1), VFlt(1)>>), VFlt(1)>>), VArr(<<VArr(<<VFlt(1), VFlt(1), VFlt(1)>>), VStr(KA), VFlt(2)>>)>>),
             (* rows for the subscripted conditions: hit-miss, miss-hit, miss-miss; member present first / second / never *)
             VArr(<<VArr(<<VFlt(2), VFlt(1)>>), VArr(<<VFlt(1), VFlt(2)>>), VArr(<<VFlt(1), VFlt(1)>>), VArr(<<VFlt(2)>>)>>),
             VArr(<<VArr(<<VObj(<<[k |-> KB, v |-> VFlt(1)]>>), VObj(<<[k |-> KA, v |-> VFlt(1)]>>)>>),
                    VArr(<<VObj(<<[k |-> KA, v |-> VFlt(1)]>>), VObj(<<[k |-> KB, v |-> VFlt(1)]>>)>>),
                    VArr(<<VObj(<<[k |-> KA, v |-> VFlt(1)]>>), VObj(<<[k |-> KA, v |-> VFlt(2)]>>)>>),
                    VArr(<<VTrue, VFlt(5)>>), VArr(<<VFlt(5), VTrue>>)>>),
             VArr(<<VObj(<<[k |-> KA, v |-> VArr(<<VFlt(1), VFlt(2)>>)], [k |-> KB, v |-> VFlt(1)]>>),
                    VObj(<<[k |-> KA, v |-> VArr(<<VFlt(2), VFlt(1)>>)]>>),
                    VObj(<<[k |-> KA, v |-> VArr(<<VFlt(2), VFlt(3)>>)], [k |-> KB, v |-> VFlt(0)]>>),
                    VObj(<<[k |-> KA, v |-> VArr(<<VFlt(2)>>)], [k |-> KB, v |-> VStr(KA)]>>)>>) }
DocSeq == SetToSeq(TreesUpTo({VFlt(1), VFlt(2), VStr(KA), VTrue, VNull}, <<KA, KB>>, MaxNodes) \cup Special)

ASSUME ndJsonSerialize("c10.ndjson",
         [i \in 1..Len(CondSeq) |-> [c |-> CondSeq[i], cr |-> RwNode(CondSeq[i], 0)]])
ASSUME ndJsonSerialize("vars.ndjson", <<[vars |-> VarsC10]>>)
ASSUME ndJsonSerialize("prefixes.ndjson", [i \in 1..Len(PrefSeq) |-> [chain |-> PrefSeq[i]]])
ASSUME ndJsonSerialize("docs.ndjson", [i \in 1..Len(DocSeq) |-> [doc |-> DocSeq[i]]])
ASSUME PrintT(<<"UNIVERSE", Len(PrefSeq), Len(CondSeq), Len(DocSeq)>>)

VARIABLES pi, ci, di, lax

ConjOK(P, C1, C2, doc) ==      \* strict: P ? (C1) ? (C2) = P ? (C1 && C2)
  GroupOK([id |-> 0, kind |-> "C10conj", lax |-> FALSE, names |-> <<>>,
           runs |-> <<SpecGRun(P \o <<NFilter(C1), NFilter(C2)>>, FALSE, doc, VarsC10, FALSE),
                      SpecGRun(Append(P, NFilter(NBin("and", <<C1>>, <<C2>>))), FALSE, doc, VarsC10, FALSE)>>])

Init == pi \in 1..Len(PrefSeq) /\ ci \in 1..Len(CondSeq) /\ di = 0 /\ lax \in BOOLEAN
Step == di = 0 /\ di' \in 1..Len(DocSeq) /\ UNCHANGED <<pi, ci, lax>>
Bad1 == JudgeGroup(SpecC10(PrefSeq[pi], CondSeq[ci], DocSeq[di], VarsC10, lax))
C2i == ((ci * 7) % Len(CondSeq)) + 1
Inv == di = 0
       \/ ( /\ GroupOK(SpecC10(PrefSeq[pi], CondSeq[ci], DocSeq[di], VarsC10, lax))
            /\ (lax \/ ConjOK(PrefSeq[pi], CondSeq[ci], CondSeq[C2i], DocSeq[di])) )
       \/ (PrintT(<<"LAWFAIL", PrefSeq[pi], CondSeq[ci], CondSeq[C2i], DocSeq[di], lax, Bad1>>) /\ FALSE)
=============================================================================
