------------------------------ MODULE DateTime ------------------------------
(* The five SQL/JSON datetime types of path/types and the rules of the      *)
(* datetime item methods (properties C17, C18).                             *)
(*                                                                          *)
(* A datetime item is                                                       *)
(*   [t |-> "dt", ty |-> "date" | "time" | "timetz" | "ts" | "tstz",        *)
(*    y, mo, d, h, mi, sec, ns, off, txt]                                   *)
(* with the civil fields as the value prints them (date: time fields 0;     *)
(* time / timetz: y = 0, mo = 1, d = 1), off the UTC offset in seconds      *)
(* (0 for the zone-less types) and txt the ISO-8601 text (bytes) String()   *)
(* prints -- every value this module builds carries txt = Format(value), so *)
(* that equality with a value the implementation returned also checks its   *)
(* printed form.                                                            *)
(*                                                                          *)
(* Zones: "UTC", fixed offsets "+HH:MM" / "-HH:MM", and "America/New_York"  *)
(* (US rule since 2007: daylight time from the second Sunday of March 02:00 *)
(* to the first Sunday of November 02:00).  Local times inside a transition *)
(* gap or overlap are not decided ("opaque").                               *)
EXTENDS Integers, Sequences, BigNum

Dig(n) == 48 + n
Two(n) == <<Dig(n \div 10), Dig(n % 10)>>
Four(n) == <<Dig(n \div 1000), Dig((n \div 100) % 10), Dig((n \div 10) % 10), Dig(n % 10)>>

IsLeap(y) == (y % 4 = 0 /\ y % 100 # 0) \/ y % 400 = 0
DaysInMonth(y, m) ==
  IF m = 2 THEN (IF IsLeap(y) THEN 29 ELSE 28) ELSE IF m \in {4, 6, 9, 11} THEN 30 ELSE 31
DaysBeforeYear(y) == LET p == y - 1 IN 365 * p + p \div 4 - p \div 100 + p \div 400
RECURSIVE DaysBeforeMonth(_, _)
DaysBeforeMonth(y, m) == IF m = 1 THEN 0 ELSE DaysBeforeMonth(y, m - 1) + DaysInMonth(y, m - 1)
(* days since 0001-01-01 (day 0 is a Monday) *)
DayNumber(y, m, d) == DaysBeforeYear(y) + DaysBeforeMonth(y, m) + (d - 1)
Weekday(n) == n % 7          \* 0 = Monday ... 6 = Sunday

RECURSIVE YearOfDay(_, _), MonthOfDay(_, _, _)
YearOfDay(n, y) == IF DaysBeforeYear(y + 1) > n THEN y ELSE YearOfDay(n, y + 1)
MonthOfDay(y, rem, m) == IF rem < DaysInMonth(y, m) THEN m ELSE MonthOfDay(y, rem - DaysInMonth(y, m), m + 1)
CivilOfDay(n) ==
  LET y0 == (n \div 366) + 1          \* never above the true year
      y  == YearOfDay(n, y0)
      r  == n - DaysBeforeYear(y)
      m  == MonthOfDay(y, r, 1)
  IN [y |-> y, mo |-> m, d |-> r - DaysBeforeMonth(y, m) + 1]

(* --- printing ------------------------------------------------------------ *)
RECURSIVE TrimZeros(_)
TrimZeros(s) == IF Len(s) > 0 /\ s[Len(s)] = 48 THEN TrimZeros(SubSeq(s, 1, Len(s) - 1)) ELSE s
Nine(ns) ==      \* 9 digits of the nanoseconds
  << Dig(ns \div 100000000), Dig((ns \div 10000000) % 10), Dig((ns \div 1000000) % 10), Dig((ns \div 100000) % 10),
     Dig((ns \div 10000) % 10), Dig((ns \div 1000) % 10), Dig((ns \div 100) % 10), Dig((ns \div 10) % 10), Dig(ns % 10) >>
Frac(ns) == IF ns = 0 THEN <<>> ELSE <<46>> \o TrimZeros(Nine(ns))
DateText(v) == Four(v.y) \o <<45>> \o Two(v.mo) \o <<45>> \o Two(v.d)
ClockText(v) == Two(v.h) \o <<58>> \o Two(v.mi) \o <<58>> \o Two(v.sec) \o Frac(v.ns)
OffText(off) ==
  LET a == IF off < 0 THEN -off ELSE off
  IN <<IF off < 0 THEN 45 ELSE 43>> \o Two(a \div 3600) \o <<58>> \o Two((a \div 60) % 60)
     \* the output layout is -07:00: the seconds of an offset such as New York's local mean time (-04:56:02)
     \* are not printed (such values are outside the domain of the print / parse round trip, C18)
Format(v) ==
  CASE v.ty = "date"   -> DateText(v)
    [] v.ty = "time"   -> ClockText(v)
    [] v.ty = "timetz" -> ClockText(v) \o OffText(v.off)
    [] v.ty = "ts"     -> DateText(v) \o <<84>> \o ClockText(v)
    [] v.ty = "tstz"   -> DateText(v) \o <<84>> \o ClockText(v) \o OffText(v.off)

Mk(ty, y, mo, d, h, mi, sec, ns, off) ==
  LET v == [t |-> "dt", ty |-> ty, y |-> y, mo |-> mo, d |-> d, h |-> h, mi |-> mi, sec |-> sec, ns |-> ns, off |-> off]
  IN [t |-> "dt", ty |-> ty, y |-> y, mo |-> mo, d |-> d, h |-> h, mi |-> mi, sec |-> sec, ns |-> ns, off |-> off,
      txt |-> Format(v)]
MkDate(y, mo, d) == Mk("date", y, mo, d, 0, 0, 0, 0, 0)
MkTime(h, mi, sec, ns) == Mk("time", 0, 1, 1, h, mi, sec, ns, 0)
MkTimeTZ(h, mi, sec, ns, off) == Mk("timetz", 0, 1, 1, h, mi, sec, ns, off)
MkTS(y, mo, d, h, mi, sec, ns) == Mk("ts", y, mo, d, h, mi, sec, ns, 0)
MkTSTZ(y, mo, d, h, mi, sec, ns, off) == Mk("tstz", y, mo, d, h, mi, sec, ns, off)

DTTypeName(v) ==
  CASE v.ty = "date" -> "date" [] v.ty = "time" -> "time without time zone"
    [] v.ty = "timetz" -> "time with time zone" [] v.ty = "ts" -> "timestamp without time zone"
    [] v.ty = "tstz" -> "timestamp with time zone"

(* --- arithmetic on (day, second of day) ---------------------------------- *)
SecOfDay(v) == v.h * 3600 + v.mi * 60 + v.sec
FloorDiv(a, b) == IF a >= 0 THEN a \div b ELSE -(((-a) + b - 1) \div b)
(* shift civil fields by delta seconds: [day, sod] normalised *)
Shift(day, sod, delta) ==
  LET s == sod + delta  q == FloorDiv(s, 86400)
  IN [day |-> day + q, sod |-> s - q * 86400]
(* the UTC instant of a zone-aware value as [day, sod, ns] *)
Instant(v) ==
  LET p == Shift(DayNumber(v.y, v.mo, v.d), SecOfDay(v), -v.off) IN [day |-> p.day, sod |-> p.sod, ns |-> v.ns]
CmpInt(a, b) == IF a < b THEN -1 ELSE IF a > b THEN 1 ELSE 0
CmpTriple(a, b) ==
  IF a.day # b.day THEN CmpInt(a.day, b.day) ELSE IF a.sod # b.sod THEN CmpInt(a.sod, b.sod) ELSE CmpInt(a.ns, b.ns)
FieldsTriple(v) == [day |-> DayNumber(v.y, v.mo, v.d), sod |-> SecOfDay(v), ns |-> v.ns]
OfDaySod(ty, day, sod, ns, off) ==
  LET c == CivilOfDay(day)
  IN Mk(ty, c.y, c.mo, c.d, sod \div 3600, (sod \div 60) % 60, sod % 60, ns, off)

(* --- zones ---------------------------------------------------------------- *)
OPQ == 99999999      \* "not decided" as an offset
DigitAt(s, i) == IF SubSeq(s, i, i) = "0" THEN 0 ELSE IF SubSeq(s, i, i) = "1" THEN 1 ELSE IF SubSeq(s, i, i) = "2" THEN 2
  ELSE IF SubSeq(s, i, i) = "3" THEN 3 ELSE IF SubSeq(s, i, i) = "4" THEN 4 ELSE IF SubSeq(s, i, i) = "5" THEN 5
  ELSE IF SubSeq(s, i, i) = "6" THEN 6 ELSE IF SubSeq(s, i, i) = "7" THEN 7 ELSE IF SubSeq(s, i, i) = "8" THEN 8 ELSE 9
FixedOffset(zone) ==      \* "+HH:MM" / "-HH:MM"
  LET a == (DigitAt(zone, 2) * 10 + DigitAt(zone, 3)) * 3600 + (DigitAt(zone, 5) * 10 + DigitAt(zone, 6)) * 60
  IN IF SubSeq(zone, 1, 1) = "-" THEN -a ELSE a
IsFixed(zone) == zone = "UTC" \/ SubSeq(zone, 1, 1) \in {"+", "-"}

(* n-th Sunday (n >= 1) of a month as a day number *)
NthSunday(y, m, n) ==
  LET first == DayNumber(y, m, 1)
      toSun == (6 - Weekday(first) + 7) % 7
  IN first + toSun + 7 * (n - 1)
(* America/New_York: local mean time until 1883-11-18, the US rule since 2007, not modelled in between *)
NYLMT == -(4 * 3600 + 56 * 60 + 2)
(* UTC instants of the two transitions of year y, as [day, sod] *)
NYStart(y) == [day |-> NthSunday(y, 3, 2), sod |-> 7 * 3600]     \* 02:00 EST = 07:00 UTC
NYEnd(y)   == [day |-> NthSunday(y, 11, 1), sod |-> 6 * 3600]    \* 02:00 EDT = 06:00 UTC
Before(a, b) == a.day < b.day \/ (a.day = b.day /\ a.sod < b.sod)
NYOffsetAtInstant(day, sod) ==
  LET y == CivilOfDay(day).y  p == [day |-> day, sod |-> sod]
  IN IF y < 1883 THEN NYLMT
     ELSE IF y < 2007 THEN OPQ
     ELSE IF ~Before(p, NYStart(y)) /\ Before(p, NYEnd(y)) THEN -4 * 3600 ELSE -5 * 3600
(* offset for a LOCAL wall clock time; OPQ inside the gap or the overlap *)
NYOffsetAtLocal(day, sod) ==
  LET y == CivilOfDay(day).y  p == [day |-> day, sod |-> sod]
      s == [day |-> NthSunday(y, 3, 2), sod |-> 2 * 3600]     \* local 02:00: gap until 03:00
      e == [day |-> NthSunday(y, 11, 1), sod |-> 1 * 3600]    \* local 01:00-02:00 happens twice
  IN IF y < 1883 THEN NYLMT
     ELSE IF y < 2007 THEN OPQ
     ELSE IF p.day = s.day /\ p.sod >= 2 * 3600 /\ p.sod < 3 * 3600 THEN OPQ
     ELSE IF p.day = e.day /\ p.sod >= 1 * 3600 /\ p.sod < 2 * 3600 THEN OPQ
     ELSE IF ~Before(p, s) /\ Before(p, [day |-> e.day, sod |-> 2 * 3600]) THEN -4 * 3600 ELSE -5 * 3600
OffsetAtInstant(zone, day, sod) ==
  IF zone = "UTC" THEN 0 ELSE IF IsFixed(zone) THEN FixedOffset(zone)
  ELSE IF zone = "America/New_York" THEN NYOffsetAtInstant(day, sod) ELSE OPQ
OffsetAtLocal(zone, day, sod) ==
  IF zone = "UTC" THEN 0 ELSE IF IsFixed(zone) THEN FixedOffset(zone)
  ELSE IF zone = "America/New_York" THEN NYOffsetAtLocal(day, sod) ELSE OPQ

(* --- parsing the documented ISO-8601 forms -------------------------------- *)
IsD(b) == b >= 48 /\ b <= 57
Num2(s, i) == (s[i] - 48) * 10 + (s[i + 1] - 48)
Num4(s, i) == (s[i] - 48) * 1000 + (s[i + 1] - 48) * 100 + (s[i + 2] - 48) * 10 + (s[i + 3] - 48)
DigitsAt(s, i, n) == i + n - 1 <= Len(s) /\ \A k \in i..(i + n - 1) : IsD(s[k])

(* YYYY-MM-DD at position i: [ok, y, mo, d] *)
DateAt(s, i) ==
  IF ~(DigitsAt(s, i, 4) /\ Len(s) >= i + 9 /\ s[i + 4] = 45 /\ DigitsAt(s, i + 5, 2) /\ s[i + 7] = 45 /\ DigitsAt(s, i + 8, 2))
  THEN [ok |-> FALSE]
  ELSE LET y == Num4(s, i)  m == Num2(s, i + 5)  d == Num2(s, i + 8)
       IN IF y >= 1 /\ m >= 1 /\ m <= 12 /\ d >= 1 /\ d <= DaysInMonth(y, m) THEN [ok |-> TRUE, y |-> y, mo |-> m, d |-> d]
          ELSE [ok |-> FALSE]

RECURSIVE FracEnd(_, _)
FracEnd(s, i) == IF i <= Len(s) /\ IsD(s[i]) THEN FracEnd(s, i + 1) ELSE i
RECURSIVE NsOf(_, _, _, _)
NsOf(s, i, n, acc) ==          \* first 9 fractional digits, padded
  IF n = 9 THEN acc ELSE NsOf(s, i + 1, n + 1, acc * 10 + (IF i <= Len(s) /\ IsD(s[i]) THEN s[i] - 48 ELSE 0))
(* hh:mm:ss[.f...] at i: [ok, h, mi, sec, ns, next] *)
ClockAt(s, i) ==
  IF ~(DigitsAt(s, i, 2) /\ Len(s) >= i + 7 /\ s[i + 2] = 58 /\ DigitsAt(s, i + 3, 2) /\ s[i + 5] = 58 /\ DigitsAt(s, i + 6, 2))
  THEN [ok |-> FALSE]
  ELSE LET h == Num2(s, i)  m == Num2(s, i + 3)  sc == Num2(s, i + 6)
           hasF == Len(s) >= i + 9 /\ s[i + 8] = 46 /\ IsD(s[i + 9])
           fe == IF hasF THEN FracEnd(s, i + 9) ELSE i + 8
           nd == fe - (i + 9)
       IN IF h > 23 \/ m > 59 \/ sc > 59 THEN [ok |-> FALSE]
          ELSE [ok |-> TRUE, h |-> h, mi |-> m, sec |-> sc, next |-> fe,
                ns |-> IF hasF THEN NsOf(SubSeq(s, i + 9, IF nd > 9 THEN i + 17 ELSE fe - 1), 1, 0, 0) ELSE 0]
(* zone designator at i to the end: Z | +hh | -hh | +hh:mm | -hh:mm  ->  [ok, off] *)
ZoneAt(s, i) ==
  IF i = Len(s) /\ s[i] = 90 THEN [ok |-> "y", off |-> 0]
  ELSE IF i > Len(s) \/ s[i] \notin {43, 45} \/ ~DigitsAt(s, i + 1, 2) THEN [ok |-> "n"]
  ELSE LET hh == Num2(s, i + 1)
           sign == IF s[i] = 45 THEN -1 ELSE 1
       IN IF Len(s) = i + 2 THEN (IF hh <= 15 THEN [ok |-> "y", off |-> sign * hh * 3600] ELSE [ok |-> "opaque"])
          ELSE IF Len(s) = i + 5 /\ s[i + 3] = 58 /\ DigitsAt(s, i + 4, 2)
               THEN LET mm == Num2(s, i + 4)
                    IN IF hh <= 15 /\ mm <= 59 THEN [ok |-> "y", off |-> sign * (hh * 3600 + mm * 60)] ELSE [ok |-> "opaque"]
          ELSE [ok |-> "n"]

(* rounding to p fractional digits (p in 0..6), half up, with carry *)
RECURSIVE Pow10I(_)
Pow10I(n) == IF n = 0 THEN 1 ELSE 10 * Pow10I(n - 1)
RoundNs(ns, p) ==        \* [ns, carry]
  LET unit == Pow10I(9 - p)
      q == (ns + unit \div 2) \div unit
      r == q * unit
  IN IF r >= 1000000000 THEN [ns |-> r - 1000000000, carry |-> 1] ELSE [ns |-> r, carry |-> 0]

(* ParseISO(s, p): p = -1 keeps the digits.  [ok |-> "y", v] | [ok |-> "n"] | [ok |-> "opaque"] *)
WithPrecision(ty, day, sod, ns, off, p) ==
  IF p < 0 THEN [day |-> day, sod |-> sod, ns |-> ns]
  ELSE LET r == RoundNs(ns, p)  sh == Shift(day, sod, r.carry)
       IN [day |-> sh.day, sod |-> sh.sod, ns |-> r.ns]
ParseISO(s, p) ==
  LET d == DateAt(s, 1)
  IN IF d.ok /\ Len(s) = 10 THEN [ok |-> "y", v |-> MkDate(d.y, d.mo, d.d)]
     ELSE IF d.ok /\ Len(s) > 10 /\ s[11] \in {84, 32} THEN
          LET c == ClockAt(s, 12)
          IN IF ~c.ok THEN [ok |-> "n"]
             ELSE IF c.next > Len(s) THEN
                  LET w == WithPrecision("ts", DayNumber(d.y, d.mo, d.d), c.h * 3600 + c.mi * 60 + c.sec, c.ns, 0, p)
                  IN IF w.day >= DaysBeforeYear(10000) THEN [ok |-> "opaque"] ELSE [ok |-> "y", v |-> OfDaySod("ts", w.day, w.sod, w.ns, 0)]
             ELSE LET z == ZoneAt(s, c.next)
                  IN IF z.ok = "opaque" THEN [ok |-> "opaque"] ELSE IF z.ok = "n" THEN [ok |-> "n"]
                     ELSE LET w == WithPrecision("tstz", DayNumber(d.y, d.mo, d.d), c.h * 3600 + c.mi * 60 + c.sec, c.ns, z.off, p)
                          IN IF w.day >= DaysBeforeYear(10000) THEN [ok |-> "opaque"]
                             ELSE [ok |-> "y", v |-> OfDaySod("tstz", w.day, w.sod, w.ns, z.off)]
     ELSE LET c == ClockAt(s, 1)
          IN IF ~c.ok THEN [ok |-> "n"]
             ELSE LET r == IF p < 0 THEN [ns |-> c.ns, carry |-> 0] ELSE RoundNs(c.ns, p)
                      sod == (c.h * 3600 + c.mi * 60 + c.sec + r.carry) % 86400       \* a time of day wraps
                  IN IF c.next > Len(s) THEN [ok |-> "y", v |-> MkTime(sod \div 3600, (sod \div 60) % 60, sod % 60, r.ns)]
                     ELSE LET z == ZoneAt(s, c.next)
                          IN IF z.ok = "opaque" THEN [ok |-> "opaque"] ELSE IF z.ok = "n" THEN [ok |-> "n"]
                             ELSE [ok |-> "y", v |-> MkTimeTZ(sod \div 3600, (sod \div 60) % 60, sod % 60, r.ns, z.off)]

(* --- casts ---------------------------------------------------------------- *)
(* Results: [ok |-> TRUE, v] | [ok |-> FALSE, err |-> "verbose" (format not  *)
(* recognized) | "hard" (needs WithTZ)] | [ok |-> FALSE, err |-> "opaque"]   *)
COk(v) == [ok |-> TRUE, v |-> v]
CErr(e) == [ok |-> FALSE, err |-> e]

(* zone-less wall clock -> zone-aware, in the context zone.  A local time    *)
(* inside a spring-forward gap or a fall-back overlap has no unique         *)
(* offset; the casts build the value with Go's time.Date, whose rule is     *)
(* deterministic: guess the offset in force at the wall clock read as UTC,  *)
(* keep it if the resulting instant lies in the same zone period, else take *)
(* the offset in force at that instant (overlap -> first occurrence, gap -> *)
(* the wall clock moves back by the width of the gap).                      *)
LocalExistsOnce(zone, day, sod) == OffsetAtLocal(zone, day, sod) # OPQ
ToAware(ty, y, mo, d, h, mi, sec, ns, zone) ==
  LET day == DayNumber(y, mo, d)  sod == h * 3600 + mi * 60 + sec
  IN IF ~IsFixed(zone) /\ (zone # "America/New_York" \/ (y > 1881 /\ y < 2008) \/ y > 9998) THEN CErr("opaque")
     ELSE LET g   == OffsetAtInstant(zone, day, sod)
              u   == Shift(day, sod, -g)
              g2  == OffsetAtInstant(zone, u.day, u.sod)
              off == IF g2 = g THEN g ELSE g2
              i   == Shift(day, sod, -off)
              o2  == OffsetAtInstant(zone, i.day, i.sod)
              p   == Shift(i.day, i.sod, o2)
          IN IF IsFixed(zone) THEN COk(Mk(ty, y, mo, d, h, mi, sec, ns, off))
             ELSE COk(OfDaySod(ty, p.day, p.sod, ns, o2))
(* zone-aware -> fields in the context zone: [ok, day, sod, off] *)
InZone(v, zone) ==
  LET i == Instant(v)
      off == OffsetAtInstant(zone, i.day, i.sod)
  IN IF off = OPQ THEN [ok |-> FALSE]
     ELSE LET p == Shift(i.day, i.sod, off)
          IN IF p.day < 0 \/ p.day >= DaysBeforeYear(10000) THEN [ok |-> FALSE]     \* leaves the years 1..9999: not decided
             ELSE [ok |-> TRUE, day |-> p.day, sod |-> p.sod, off |-> off]

Cast(v, to, useTZ, zone) ==
  LET need(r) == IF useTZ THEN r ELSE CErr("hard")
  IN
  CASE v.ty = to -> COk(v)
    [] v.ty = "date" /\ to = "ts"   -> COk(MkTS(v.y, v.mo, v.d, 0, 0, 0, 0))
    [] v.ty = "date" /\ to = "tstz" -> need(ToAware("tstz", v.y, v.mo, v.d, 0, 0, 0, 0, zone))
    [] v.ty = "time" /\ to = "timetz" ->
         need(IF IsFixed(zone) THEN COk(MkTimeTZ(v.h, v.mi, v.sec, v.ns, OffsetAtLocal(zone, 0, 0))) ELSE CErr("opaque"))
    [] v.ty = "timetz" /\ to = "time" -> need(COk(MkTime(v.h, v.mi, v.sec, v.ns)))
    [] v.ty = "ts" /\ to = "date" -> COk(MkDate(v.y, v.mo, v.d))
    [] v.ty = "ts" /\ to = "time" -> COk(MkTime(v.h, v.mi, v.sec, v.ns))
    [] v.ty = "ts" /\ to = "tstz" -> need(ToAware("tstz", v.y, v.mo, v.d, v.h, v.mi, v.sec, v.ns, zone))
    [] v.ty = "tstz" /\ to \in {"date", "time", "ts", "timetz"} ->
         LET z == InZone(v, zone)
             c == CivilOfDay(z.day)
             r == IF ~z.ok THEN CErr("opaque")
                  ELSE CASE to = "date" -> COk(MkDate(c.y, c.mo, c.d))
                         [] to = "time" -> COk(MkTime(z.sod \div 3600, (z.sod \div 60) % 60, z.sod % 60, v.ns))
                         [] to = "ts"   -> COk(OfDaySod("ts", z.day, z.sod, v.ns, 0))
                         [] to = "timetz" -> COk(MkTimeTZ(z.sod \div 3600, (z.sod \div 60) % 60, z.sod % 60, v.ns, z.off))
         IN IF to = "timetz" THEN r ELSE need(r)       \* timestamptz -> timetz needs no WithTZ
    [] OTHER -> CErr("verbose")                         \* "format is not recognized"

(* --- comparison ------------------------------------------------------------ *)
(* [err, comparable, cmp]; the common type of two comparable values is the  *)
(* more zone-aware one; zone-less values are interpreted in the context zone *)
DTCompare(l, r, useTZ, zone) ==
  LET res(c) == [err |-> "none", comparable |-> TRUE, cmp |-> c]
      no == [err |-> "none", comparable |-> FALSE, cmp |-> 0]
      errR(e) == [err |-> e, comparable |-> FALSE, cmp |-> 0]
      isT(v) == v.ty \in {"time", "timetz"}
      TimeTzCmp(a, b) ==     \* instant of the day, then larger offset first
        LET ia == SecOfDay(a) - a.off  ib == SecOfDay(b) - b.off
        IN IF ia # ib THEN CmpInt(ia, ib) ELSE IF a.ns # b.ns THEN CmpInt(a.ns, b.ns) ELSE CmpInt(b.off, a.off)
      viaCast(a, b, to) ==   \* compare after casting both to `to`
        LET ca == Cast(a, to, useTZ, zone)  cb == Cast(b, to, useTZ, zone)
        IN IF ~ca.ok THEN errR(ca.err) ELSE IF ~cb.ok THEN errR(cb.err)
           ELSE IF to = "timetz" THEN res(TimeTzCmp(ca.v, cb.v))
           ELSE res(CmpTriple(Instant(ca.v), Instant(cb.v)))
  IN IF isT(l) # isT(r) THEN no                                \* a time of day against a date or timestamp
     ELSE IF isT(l) THEN
          (IF l.ty = "time" /\ r.ty = "time" THEN res(CmpTriple([day |-> 0, sod |-> SecOfDay(l), ns |-> l.ns], [day |-> 0, sod |-> SecOfDay(r), ns |-> r.ns]))
           ELSE IF l.ty = "timetz" /\ r.ty = "timetz" THEN res(TimeTzCmp(l, r))
           ELSE viaCast(l, r, "timetz"))
     ELSE IF l.ty = "tstz" \/ r.ty = "tstz" THEN
          (IF l.ty = "tstz" /\ r.ty = "tstz" THEN res(CmpTriple(Instant(l), Instant(r))) ELSE viaCast(l, r, "tstz"))
     ELSE res(CmpTriple(FieldsTriple(l), FieldsTriple(r)))    \* date / timestamp: by fields

(* --- the item methods ------------------------------------------------------ *)
(* n = [k |-> "dt", op, hasArg, arg]; v the item.  [ok, v] | [ok |-> FALSE, err] *)
TargetOf(op) ==
  CASE op = "date" -> "date" [] op = "time" -> "time" [] op = "time_tz" -> "timetz"
    [] op = "timestamp" -> "ts" [] op = "timestamp_tz" -> "tstz" [] OTHER -> "any"
DTMethod(n, v, useTZ, zone) ==
  IF v.t # "str" THEN CErr("verbose")
  ELSE IF n.op = "datetime" /\ n.hasArg THEN CErr("hard")              \* .datetime(template) is not supported
  ELSE LET p0 == IF n.hasArg /\ n.op \notin {"datetime", "date"} THEN n.arg ELSE [k |-> "none"]
           pInt == IF p0.k # "num" THEN -1
                   ELSE IF ~BNFitsInt32(p0.v.n) THEN 7                 \* beyond int32: an error the properties do not classify
                   ELSE IF BNCmp(p0.v.n, BN(6)) > 0 THEN 6             \* capped at 6
                   ELSE BNToInt(p0.v.n)
       IN IF pInt = 7 THEN CErr("opaque")
          ELSE LET r == ParseISO(v.s, pInt)
               IN IF r.ok = "opaque" THEN CErr("opaque")
                  ELSE IF r.ok = "n" THEN CErr("verbose")
                  ELSE IF n.op = "datetime" THEN COk(r.v)
                  ELSE Cast(r.v, TargetOf(n.op), useTZ, zone)
=============================================================================
