------------------------------ MODULE DateTime ------------------------------
(* Datetime items (stub; the rules are added with C17/C18).                 *)
EXTENDS Integers, Sequences
DTTypeName(v) ==
  CASE v.ty = "date" -> "date" [] v.ty = "time" -> "time without time zone"
    [] v.ty = "timetz" -> "time with time zone" [] v.ty = "ts" -> "timestamp without time zone"
    [] v.ty = "tstz" -> "timestamp with time zone"
DTCompare(l, r, useTZ, zone) == [err |-> "opaque", comparable |-> FALSE, cmp |-> 0]
DTMethod(n, v, useTZ, zone) == [ok |-> FALSE, err |-> "opaque"]
=============================================================================
