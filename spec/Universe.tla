----------------------------- MODULE Universe -----------------------------
(* Constructors for path nodes and generators for the bounded universes     *)
(* the MC_* models enumerate.  Everything here is derivable by the grammar  *)
(* of path/parser/grammar.y (universes contain parser-producible paths      *)
(* only).                                                                   *)
EXTENDS Integers, Sequences, FiniteSets, JsonValue

(* --- nodes --------------------------------------------------------------- *)
NRoot   == [k |-> "root"]
NCur    == [k |-> "cur"]
NLast   == [k |-> "last"]
NNull   == [k |-> "null"]
NTrue   == [k |-> "true"]
NFalse  == [k |-> "false"]
NStr(s) == [k |-> "str", s |-> s]
NVar(s) == [k |-> "var", s |-> s]
NNum(v) == [k |-> "num", v |-> v]
NInt(i) == NNum(VInt(i))
NKey(s) == [k |-> "key", s |-> s]
NAnyKey == [k |-> "anykey"]
NAnyArr == [k |-> "anyarr"]
NAny(f, l) == [k |-> "any", first |-> f, last |-> l]
NBin(op, l, r) == [k |-> "bin", op |-> op, l |-> l, r |-> r]
NUn(op, x) == [k |-> "un", op |-> op, x |-> x]
NFilter(p) == [k |-> "filter", p |-> p]
NMethod(nm) == [k |-> "method", name |-> nm]
Sub1(f) == [from |-> f, hasTo |-> FALSE, to |-> <<>>]
Sub2(f, t) == [from |-> f, hasTo |-> TRUE, to |-> t]
NIdx(subs) == [k |-> "idx", subs |-> subs]
NoFlags == [i |-> FALSE, s |-> FALSE, m |-> FALSE, q |-> FALSE, x |-> FALSE]
NRegex(x, pat, fl) == [k |-> "regex", x |-> x, pat |-> pat, flags |-> fl]
NDecimal0 == [k |-> "decimal", np |-> 0, p |-> VInt(0), s |-> VInt(0)]
NDecimal1(p) == [k |-> "decimal", np |-> 1, p |-> p, s |-> VInt(0)]
NDecimal2(p, s) == [k |-> "decimal", np |-> 2, p |-> p, s |-> s]
NDT(op) == [k |-> "dt", op |-> op, hasArg |-> FALSE, arg |-> NNull]
NDTArg(op, a) == [k |-> "dt", op |-> op, hasArg |-> TRUE, arg |-> a]

KA == <<97>>     \* "a"
KB == <<98>>     \* "b"
KC == <<99>>     \* "c"
KX == <<120>>    \* "x"

Lit(i)     == <<NInt(i)>>                         \* chain: integer literal
LastMinus(i) == <<NBin("sub", <<NLast>>, Lit(i))>>
LastPlus(i)  == <<NBin("add", <<NLast>>, Lit(i))>>

(* --- sequences over an alphabet ------------------------------------------ *)
RECURSIVE SeqsOfLen(_, _)
SeqsOfLen(A, n) ==
  IF n = 0 THEN {<<>>} ELSE {Append(s, a) : s \in SeqsOfLen(A, n - 1), a \in A}
SeqsUpTo(A, n) == UNION {SeqsOfLen(A, k) : k \in 0..n}

(* --- JSON trees by node count -------------------------------------------- *)
(* TreesN(S, K, n): all items with exactly n nodes whose scalars come from   *)
(* the set S and whose keys come from the sorted key sequence K (every       *)
(* sub-sequence of K is a possible key set).                                 *)
RECURSIVE SubSeqsOfLen(_, _)
SubSeqsOfLen(K, k) ==       \* order-preserving sub-sequences of K of length k
  IF k = 0 THEN {<<>>}
  ELSE IF Len(K) < k THEN {}
  ELSE {<<Head(K)>> \o t : t \in SubSeqsOfLen(Tail(K), k - 1)} \cup SubSeqsOfLen(Tail(K), k)

RECURSIVE TreesN(_, _, _), ForestN(_, _, _, _)
ForestN(S, K, n, k) ==
  IF k = 0 THEN (IF n = 0 THEN {<<>>} ELSE {})
  ELSE UNION { { <<t>> \o f : t \in TreesN(S, K, m), f \in ForestN(S, K, n - m, k - 1) }
               : m \in 1..(n - (k - 1)) }
TreesN(S, K, n) ==
  IF n = 1 THEN S \cup {VArr(<<>>), VObj(<<>>)}
  ELSE UNION { {VArr(f) : f \in ForestN(S, K, n - 1, k)} : k \in 1..(n - 1) }
       \cup UNION { { VObj([i \in 1..k |-> [k |-> ks[i], v |-> f[i]]]) :
                        f \in ForestN(S, K, n - 1, k), ks \in SubSeqsOfLen(K, k) }
                    : k \in 1..(IF n - 1 < Len(K) THEN n - 1 ELSE Len(K)) }
TreesUpTo(S, K, n) == UNION {TreesN(S, K, m) : m \in 1..n}

(* arrays of length 0..n over an element set *)
ArraysUpTo(E, n) == {VArr(s) : s \in SeqsUpTo(E, n)}

(* a deterministic enumeration of a finite set *)
RECURSIVE SetAsSeq(_)
SetAsSeq(S) == IF S = {} THEN <<>> ELSE LET x == CHOOSE y \in S : TRUE IN <<x>> \o SetAsSeq(S \ {x})
=============================================================================
