------------------------------ MODULE PathSem ------------------------------
(* Evaluation rules of SQL/JSON path expressions as theory/sqljson is       *)
(* documented to implement them (README, package docs, the property file).  *)
(*                                                                          *)
(* A path is [lax, pred, chain]; a chain is a non-empty sequence of nodes:  *)
(* a head (root, cur, last, literal, variable, or an expression node) and   *)
(* accessor nodes.  Node records (field k is the kind):                     *)
(*   heads     root cur last null true false                                *)
(*             [k|->"str", s]  [k|->"num", v]  [k|->"var", s]               *)
(*             [k|->"bin", op, l, r]   op: add sub mul div mod  and or      *)
(*                                         eq ne lt gt le ge  starts        *)
(*             [k|->"un", op, x]       op: plus minus not isunknown exists  *)
(*             [k|->"regex", x, pat, flags]                                 *)
(*   accessors [k|->"key", s] anykey anyarr                                 *)
(*             [k|->"any", first, last]   (-1 = the keyword last)           *)
(*             [k|->"idx", subs]  subs: seq of [from, hasTo, to] (chains)   *)
(*             [k|->"filter", p]          p is one predicate node           *)
(*             [k|->"method", name]  [k|->"decimal", np, p, s]              *)
(*             [k|->"dt", op, hasArg, arg]                                  *)
(*                                                                          *)
(* Evaluation is continuation style, like the executor: every item a step   *)
(* produces is pushed through the rest of the chain before the step         *)
(* produces its next item, because WithSilent makes the items found before  *)
(* a suppressed failure observable.  It is a function of an environment     *)
(* that is passed down and never mutated -- so "@, last and $ are intact    *)
(* after a nested construct" holds here by construction -- and of a small   *)
(* threaded state st = [polls, ci]:                                         *)
(*   polls  number of item evaluations so far (the executor polls the       *)
(*          context once per item evaluation); env.cancelAt = k > 0 makes   *)
(*          the k-th poll observe a done context;                           *)
(* env.exm is TRUE while only existence is asked of the chain being         *)
(* evaluated (the executor's found == nil): the evaluation then stops at    *)
(* the first item, which matters to the number of polls (C20) and to one    *)
(* named deviation.                                                         *)
(*   ci     index into env.choice, the prophecy of the member order used at *)
(*          each expansion of an object with two or more members.           *)
(* Results are [items, err, st]: the items produced, in order, before the   *)
(* evaluation stopped, and why it stopped:                                  *)
(*   "none" | "verbose" (suppressible) | "hard" (not suppressible) | "ctx"  *)
(*   | "opaque" (the specification declines to decide; never a verdict).    *)
EXTENDS Integers, Sequences, FiniteSets, TLC, JsonValue, Num, Methods, Regex, DateTime

INF == 1000000000
Lvl(x) == IF x < 0 THEN INF ELSE x

R(items, err, st) == [items |-> items, err |-> err, st |-> st]
Failed(r) == r.err # "none"

(* Resolve an unclassified raise site with the policy.                      *)
Unc(env) == env.pol.vh
ErrOf(c, env) == IF c = "unc" THEN Unc(env) ELSE c

Suppressible(e) == e = "verbose"

(* Members of a container in the order this evaluation uses.                *)
Children(v, env, st) ==
  IF v.t = "arr" THEN [xs |-> v.a, st |-> st]
  ELSE IF Len(v.o) < 2 THEN [xs |-> MemberValues(v.o), st |-> st]
  ELSE LET c == IF st.ci < Len(env.choice) THEN env.choice[st.ci + 1] ELSE 0
       IN [xs |-> PermK(MemberValues(v.o), c), st |-> [st EXCEPT !.ci = @ + 1]]

RECURSIVE VarFind(_, _, _)
VarFind(vars, name, i) ==
  IF i > Len(vars) THEN 0 ELSE IF vars[i].k = name THEN i ELSE VarFind(vars, name, i + 1)

PredVal(p) == IF p = "T" THEN VTrue ELSE IF p = "F" THEN VFalse ELSE VNull

IsBoolNode(n) ==
  \/ n.k = "regex"
  \/ n.k = "un"  /\ n.op \in {"not", "isunknown", "exists"}
  \/ n.k = "bin" /\ n.op \in {"and", "or", "eq", "ne", "lt", "gt", "le", "ge", "starts"}

TypeName(v) ==
  CASE v.t = "null" -> "null" [] v.t = "bool" -> "boolean" [] v.t = "num" -> "number"
    [] v.t = "str" -> "string" [] v.t = "arr" -> "array" [] v.t = "obj" -> "object"
    [] v.t = "dt" -> DTTypeName(v)
    [] OTHER -> "number"   \* anyid

-----------------------------------------------------------------------------
(* In exists mode (only existence is asked: lax Exists, lax exists()) the   *)
(* evaluation of the chain stops at its first item.                         *)
Found(env, r) == env.exm /\ r.items # <<>>

RECURSIVE Exec(_, _, _, _, _, _), Cont(_, _, _, _, _),
          EachSame(_, _, _, _, _, _, _), EachNext(_, _, _, _, _, _, _),
          Subs(_, _, _, _, _, _, _, _), GetIndex(_, _, _, _),
          AnyItems(_, _, _, _, _, _, _, _, _, _),
          Bool(_, _, _, _), Operand(_, _, _, _, _), Pairs(_, _, _, _, _, _, _, _, _),
          UnaryEach(_, _, _, _, _, _, _, _), KeyValues(_, _, _, _, _, _, _),
          Method(_, _, _, _, _, _)

(* Continue with the rest of the chain, or emit the item.                   *)
Cont(ch, i, x, env, st) ==
  IF i < Len(ch) THEN Exec(ch, i + 1, x, env, st, env.lax) ELSE R(<<x>>, "none", st)

(* Apply the same node ch[i] to each of xs[j..] without unwrapping (lax      *)
(* auto-unwrapping of an array target is exactly one level).                *)
EachSame(ch, i, xs, j, env, st, acc) ==
  IF j > Len(xs) THEN R(acc, "none", st)
  ELSE LET r == Exec(ch, i, xs[j], env, st, FALSE)
       IN IF Failed(r) THEN R(acc \o r.items, r.err, r.st)
          ELSE IF Found(env, r) THEN R(acc \o r.items, "none", r.st)
          ELSE EachSame(ch, i, xs, j + 1, env, r.st, acc \o r.items)

(* Push each of xs[j..] through the rest of the chain after ch[i].          *)
EachNext(ch, i, xs, j, env, st, acc) ==
  IF j > Len(xs) THEN R(acc, "none", st)
  ELSE LET r == Cont(ch, i, xs[j], env, st)
       IN IF Failed(r) THEN R(acc \o r.items, r.err, r.st)
          ELSE IF Found(env, r) THEN R(acc \o r.items, "none", r.st)
          ELSE EachNext(ch, i, xs, j + 1, env, r.st, acc \o r.items)

Structural(env, st) ==      \* a structural mismatch: skipped when lenient
  IF env.lenient THEN R(<<>>, "none", st) ELSE R(<<>>, "verbose", st)

(* One operand of a predicate or of an arithmetic operator: a whole chain   *)
(* evaluated from its own head; in lax mode arrays in the result sequence   *)
(* are unwrapped one level when unwrap is TRUE.                             *)
RECURSIVE Flatten(_, _, _)
Flatten(xs, j, acc) ==
  IF j > Len(xs) THEN acc
  ELSE Flatten(xs, j + 1, IF xs[j].t = "arr" THEN acc \o xs[j].a ELSE Append(acc, xs[j]))

Operand(chain, v, env0, st, unwrap) ==
  LET env == [env0 EXCEPT !.exm = FALSE]     \* operands are collected into a list
      r == Exec(chain, 1, v, env, st, env.lax)
  IN IF Failed(r) THEN r
     ELSE IF unwrap /\ env.lax THEN R(Flatten(r.items, 1, <<>>), "none", r.st) ELSE r

-----------------------------------------------------------------------------
(* Comparison of two items: [val |-> "T"|"F"|"U", err]                      *)

ApplyCmp(op, c) ==
  LET b == CASE op = "eq" -> c = 0 [] op = "ne" -> c # 0 [] op = "lt" -> c < 0
             [] op = "gt" -> c > 0 [] op = "le" -> c <= 0 [] op = "ge" -> c >= 0
  IN IF b THEN "T" ELSE "F"

PV(val) == [val |-> val, err |-> "none"]

CompareItems(op, l, r, env) ==
  IF l.t = "anyid" \/ r.t = "anyid" THEN [val |-> "U", err |-> "opaque"]
  ELSE IF (l.t = "null") # (r.t = "null") THEN PV(IF op = "ne" THEN "T" ELSE "F")
  ELSE CASE l.t = "null" -> PV(ApplyCmp(op, 0))
         [] l.t = "bool" -> IF r.t # "bool" THEN PV("U")
                            ELSE PV(ApplyCmp(op, IF l.b = r.b THEN 0 ELSE IF l.b THEN 1 ELSE -1))
         [] l.t = "num"  -> IF r.t # "num" THEN PV("U")
                            ELSE IF IsBadJNum(l) \/ IsBadJNum(r) THEN [val |-> "U", err |-> "opaque"]
                            ELSE PV(ApplyCmp(op, NumCmp(l, r)))
         [] l.t = "str"  -> IF r.t # "str" THEN PV("U") ELSE PV(ApplyCmp(op, BytesCmp(l.s, r.s)))
         [] l.t = "dt"   -> IF r.t # "dt" THEN PV("U")
                            ELSE LET c == DTCompare(l, r, env.useTZ, env.zone)
                                 IN IF c.err # "none" THEN [val |-> "U", err |-> c.err]
                                    ELSE IF ~c.comparable THEN PV("U") ELSE PV(ApplyCmp(op, c.cmp))
         [] OTHER -> PV("U")        \* arrays and objects

StartsWith(l, r) ==
  IF l.t = "str" /\ r.t = "str" THEN PV(IF BytesPrefix(r.s, l.s) THEN "T" ELSE "F") ELSE PV("U")

LikeRegex(n, l) ==
  IF l.t # "str" THEN PV("U")
  ELSE LET m == RegexMatch(n.pat, n.flags, l.s)
       IN IF m = "opaque" THEN [val |-> "U", err |-> "opaque"] ELSE PV(m)

PairOutcome(n, l, r, env) ==
  IF n.k = "regex" THEN LikeRegex(n, l)
  ELSE IF n.op = "starts" THEN StartsWith(l, r)
  ELSE CompareItems(n.op, l, r, env)

(* The pairs loop: left-major; lax answers true at the first true pair,     *)
(* strict answers unknown at the first unknown pair.                        *)
Pairs(n, ls, rs, i, j, env, st, sawU, sawT) ==
  IF i > Len(ls) THEN
    [val |-> IF sawT THEN "T" ELSE IF sawU THEN "U" ELSE "F", err |-> "none", st |-> st]
  ELSE IF j > Len(rs) THEN Pairs(n, ls, rs, i + 1, 1, env, st, sawU, sawT)
  ELSE LET p == PairOutcome(n, ls[i], rs[j], env)
       IN IF p.err # "none" THEN [val |-> "U", err |-> p.err, st |-> st]
          ELSE IF p.val = "U" THEN
                 IF ~env.lax THEN [val |-> "U", err |-> "none", st |-> st]
                 ELSE Pairs(n, ls, rs, i, j + 1, env, st, TRUE, sawT)
          ELSE IF p.val = "T" THEN
                 IF env.lax THEN [val |-> "T", err |-> "none", st |-> st]
                 ELSE Pairs(n, ls, rs, i, j + 1, env, st, sawU, TRUE)
          ELSE Pairs(n, ls, rs, i, j + 1, env, st, sawU, sawT)

KAnd(a, b) == IF a = "F" \/ b = "F" THEN "F" ELSE IF a = "T" /\ b = "T" THEN "T" ELSE "U"
KOr(a, b)  == IF a = "T" \/ b = "T" THEN "T" ELSE IF a = "F" /\ b = "F" THEN "F" ELSE "U"
KNot(a)    == IF a = "T" THEN "F" ELSE IF a = "F" THEN "T" ELSE "U"

(* A predicate: [val, err, st]; err is "none" or a non-suppressible class   *)
(* (which aborts the whole evaluation).  Operand failures that are          *)
(* suppressible make the predicate unknown.                                 *)
BV(val, st)  == [val |-> val, err |-> "none", st |-> st]
BE(err, st)  == [val |-> "U", err |-> err, st |-> st]
OperandFail(r) == IF Suppressible(r.err) THEN BV("U", r.st) ELSE BE(r.err, r.st)

Bool(n, v, env, st) ==
  CASE n.k = "bin" /\ n.op = "and" ->
         LET a == Bool(n.l[1], v, env, st)
         IN IF a.err # "none" \/ a.val = "F" THEN a
            ELSE LET b == Bool(n.r[1], v, env, a.st)
                 IN IF b.err # "none" THEN b ELSE BV(KAnd(a.val, b.val), b.st)
    [] n.k = "bin" /\ n.op = "or" ->
         LET a == Bool(n.l[1], v, env, st)
         IN IF a.err # "none" \/ a.val = "T" THEN a
            ELSE LET b == Bool(n.r[1], v, env, a.st)
                 IN IF b.err # "none" THEN b ELSE BV(KOr(a.val, b.val), b.st)
    [] n.k = "un" /\ n.op = "not" ->
         LET a == Bool(n.x[1], v, env, st)
         IN IF a.err # "none" THEN a ELSE BV(KNot(a.val), a.st)
    [] n.k = "un" /\ n.op = "isunknown" ->
         LET a == Bool(n.x[1], v, env, st)
         IN IF a.err # "none"
            THEN (IF "isunknown-swallows-hard" \in env.dev /\ a.err = "hard" THEN BV("T", a.st) ELSE a)
            ELSE BV(IF a.val = "U" THEN "T" ELSE "F", a.st)
    [] n.k = "un" /\ n.op = "exists" ->
         LET r == Exec(n.x, 1, v, [env EXCEPT !.exm = env.lax], st, env.lax)
         IN IF env.lax
            THEN (* the first event decides: an item, or the failure *)
                 IF r.items # <<>> THEN BV("T", r.st)
                 ELSE IF Failed(r) THEN OperandFail(r) ELSE BV("F", r.st)
            ELSE IF Failed(r) THEN OperandFail(r)
                 ELSE BV(IF r.items # <<>> THEN "T" ELSE "F", r.st)
    [] n.k = "regex" ->
         LET l == Operand(n.x, v, env, st, TRUE)
         IN IF Failed(l) THEN OperandFail(l)
            ELSE Pairs(n, l.items, <<VNull>>, 1, 1, env, l.st, FALSE, FALSE)
    [] OTHER ->        \* comparison or starts with
         LET l == Operand(n.l, v, env, st, TRUE)
         IN IF Failed(l) THEN OperandFail(l)
            ELSE LET r == Operand(n.r, v, env, l.st, n.op # "starts")
                 IN IF Failed(r) THEN OperandFail(r)
                    ELSE Pairs(n, l.items, r.items, 1, 1, env, r.st, FALSE, FALSE)

-----------------------------------------------------------------------------
(* Array subscripts *)

GetIndex(chain, v, env0, st) ==
  LET env == [env0 EXCEPT !.exm = FALSE]
      r == Exec(chain, 1, v, env, st, env.lax)
  IN IF Failed(r) THEN [err |-> r.err, st |-> r.st, idx |-> 0]
     ELSE IF Len(r.items) # 1 THEN [err |-> "verbose", st |-> r.st, idx |-> 0]
     ELSE IF r.items[1].t = "anyid" THEN [err |-> "opaque", st |-> r.st, idx |-> 0]
     ELSE LET x == IndexOf(r.items[1])
          IN IF x.ok THEN [err |-> "none", st |-> r.st, idx |-> x.idx]
             ELSE [err |-> "verbose", st |-> r.st, idx |-> 0]

IMax(a, b) == IF a > b THEN a ELSE b
IMin(a, b) == IF a < b THEN a ELSE b

Subs(ch, i, subs, j, v, arr, env, stacc) ==
  LET st == stacc.st  acc == stacc.acc IN
  IF j > Len(subs) THEN R(acc, "none", st)
  ELSE LET s    == subs[j]
           envL == [env EXCEPT !.last = Len(arr)]   \* last = size of this array, in the bounds only
           f    == GetIndex(s.from, v, envL, st)
       IN IF f.err # "none" THEN R(acc, f.err, f.st)
          ELSE LET t == IF s.hasTo THEN GetIndex(s.to, v, envL, f.st) ELSE f
               IN IF t.err # "none" THEN R(acc, t.err, t.st)
                  ELSE IF ~env.lenient /\ (f.idx < 0 \/ f.idx > t.idx \/ t.idx >= Len(arr))
                       THEN R(acc, "verbose", t.st)
                  ELSE LET lo == IMax(f.idx, 0)
                           hi == IMin(t.idx, Len(arr) - 1)
                           sel == SubSeq(arr, lo + 1, hi + 1)
                           r  == EachNext(ch, i, IF "idx-drops-null" \in env.dev
                                                 THEN SelectSeq(sel, LAMBDA x : x.t # "null") ELSE sel,
                                          1, env, t.st, <<>>)
                       IN IF Failed(r) THEN R(acc \o r.items, r.err, r.st)
                          ELSE IF Found(env, r) THEN R(acc \o r.items, "none", r.st)
                          ELSE Subs(ch, i, subs, j + 1, v, arr, env,
                                    [st |-> r.st, acc |-> acc \o r.items])

-----------------------------------------------------------------------------
(* .**{first to last}: pre-order, each node once; level 0 is the item       *)

AnyItems(ch, i, xs, j, level, first, last, env, st, acc) ==
  IF level > last \/ j > Len(xs) THEN R(acc, "none", st)
  ELSE LET v   == xs[j]
           sel == level >= first \/ (first = INF /\ last = INF /\ IsScalar(v))
           r0  == IF sel THEN Cont(ch, i, v, env, st) ELSE R(<<>>, "none", st)
       IN IF Failed(r0) THEN R(acc \o r0.items, r0.err, r0.st)
          ELSE IF Found(env, r0) THEN R(acc \o r0.items, "none", r0.st)
          ELSE LET r1 == IF level < last /\ IsContainer(v)
                         THEN LET c == Children(v, env, r0.st)
                              IN AnyItems(ch, i, c.xs, 1, level + 1, first, last, env, c.st, <<>>)
                         ELSE R(<<>>, "none", r0.st)
               IN IF Failed(r1) THEN R(acc \o r0.items \o r1.items, r1.err, r1.st)
                  ELSE IF Found(env, r1) THEN R(acc \o r0.items \o r1.items, "none", r1.st)
                  ELSE AnyItems(ch, i, xs, j + 1, level, first, last, env, r1.st,
                                acc \o r0.items \o r1.items)

-----------------------------------------------------------------------------
(* Unary + and -: every numeric item of the (lax-unwrapped) operand         *)

UnaryEach(ch, i, op, xs, j, env, st, acc) ==
  IF j > Len(xs) THEN R(acc, "none", st)
  ELSE IF xs[j].t = "anyid" THEN R(acc, "opaque", st)
  ELSE IF xs[j].t # "num" \/ IsBadJNum(xs[j]) THEN     \* not a number, or a json.Number no float64 holds
         IF "unary-nonnum-exists" \in env.dev /\ env.exm /\ i = Len(ch)
         THEN R(Append(acc, xs[j]), "none", st)       \* counted as found (deviation)
         ELSE R(acc, "verbose", st)
  ELSE LET u == NumUnary(op, xs[j])
       IN IF ~u.ok THEN R(acc, ErrOf(u.err, env), st)
          ELSE LET r == Cont(ch, i, MarkZ(u.v), env, st)
               IN IF Failed(r) THEN R(acc \o r.items, r.err, r.st)
                  ELSE IF Found(env, r) THEN R(acc \o r.items, "none", r.st)
                  ELSE UnaryEach(ch, i, op, xs, j + 1, env, r.st, acc \o r.items)

-----------------------------------------------------------------------------
(* .keyvalue(): one {key, value, id} per member in key order                *)

KeyBytes == <<107, 101, 121>>            \* "key"
ValBytes == <<118, 97, 108, 117, 101>>   \* "value"
IdBytes  == <<105, 100>>                 \* "id"
KVTriple(m) ==
  VObj(<< [k |-> IdBytes, v |-> VAnyId], [k |-> KeyBytes, v |-> VStr(m.k)],
          [k |-> ValBytes, v |-> m.v] >>)

KeyValues(ch, i, o, j, env, st, acc) ==
  IF j > Len(o) THEN R(acc, "none", st)
  ELSE LET r == Cont(ch, i, KVTriple(o[j]), env, st)
       IN IF Failed(r) THEN R(acc \o r.items, r.err, r.st)
          ELSE IF Found(env, r) THEN R(acc \o r.items, "none", r.st)
          ELSE KeyValues(ch, i, o, j + 1, env, r.st, acc \o r.items)

-----------------------------------------------------------------------------
(* Item methods *)

Method(ch, i, name, v, env, st) ==
  CASE name = "type" -> Cont(ch, i, VStr(TypeNameBytes(TypeName(v))), env, st)
    [] name = "size" ->
         IF v.t = "arr" THEN Cont(ch, i, VInt(Len(v.a)), env, st)
         ELSE IF env.lax \/ env.lenient THEN Cont(ch, i, VInt(1), env, st)
         ELSE R(<<>>, "verbose", st)
    [] name = "keyvalue" ->
         IF v.t # "obj" THEN R(<<>>, "verbose", st)
         ELSE KeyValues(ch, i, v.o, 1, env, st, <<>>)
    [] name \in {"abs", "floor", "ceiling"} ->
         IF v.t = "anyid" THEN R(<<>>, "opaque", st)
         ELSE IF v.t # "num" THEN R(<<>>, "verbose", st)
         ELSE LET u == NumUnary(name, v)
              IN IF u.ok THEN Cont(ch, i, MarkZ(u.v), env, st) ELSE R(<<>>, ErrOf(u.err, env), st)
    [] OTHER ->
         IF v.t = "anyid" THEN R(<<>>, "opaque", st)
         ELSE IF name = "string" /\ IsMarkedZero(v) THEN R(<<>>, "opaque", st)     \* "0" or "-0": the sign of a computed zero is not tracked
         ELSE LET u == ConvMethod(name, v)
              IN IF u.ok THEN Cont(ch, i, MarkZ(u.v), env, st) ELSE R(<<>>, ErrOf(u.err, env), st)

-----------------------------------------------------------------------------
Exec(ch, i, v, env, st0, unwrap) ==
  LET st == [st0 EXCEPT !.polls = @ + 1]
      n  == ch[i]
  IN
  IF env.cancelAt > 0 /\ st.polls >= env.cancelAt THEN R(<<>>, "ctx", st)
  ELSE CASE
    n.k = "root"  -> Cont(ch, i, env.root, env, st)
 [] n.k = "cur"   -> Cont(ch, i, env.cur, env, st)
 [] n.k = "last"  -> IF env.last < 0 THEN R(<<>>, "hard", st)
                     ELSE Cont(ch, i, VInt(env.last - 1), env, st)
 [] n.k = "null"  -> Cont(ch, i, VNull, env, st)
 [] n.k = "true"  -> Cont(ch, i, VTrue, env, st)
 [] n.k = "false" -> Cont(ch, i, VFalse, env, st)
 [] n.k = "str"   -> Cont(ch, i, VStr(n.s), env, st)
 [] n.k = "num"   -> Cont(ch, i, n.v, env, st)
 [] n.k = "var"   ->
      LET p == VarFind(env.vars, n.s, 1)
      IN IF p = 0 THEN R(<<>>, "hard", st) ELSE Cont(ch, i, env.vars[p].v, env, st)
 [] n.k = "key"   ->
      IF v.t = "obj" THEN
        IF ObjHas(v, n.s) THEN Cont(ch, i, ObjGet(v, n.s), env, st) ELSE Structural(env, st)
      ELSE IF v.t = "arr" /\ unwrap THEN EachSame(ch, i, v.a, 1, env, st, <<>>)
      ELSE Structural(env, st)
 [] n.k = "anykey" ->
      IF v.t = "obj" THEN
        LET c == Children(v, env, st) IN EachNext(ch, i, c.xs, 1, env, c.st, <<>>)
      ELSE IF v.t = "arr" /\ unwrap THEN EachSame(ch, i, v.a, 1, env, st, <<>>)
      ELSE Structural(env, st)
 [] n.k = "anyarr" ->
      IF v.t = "arr" THEN EachNext(ch, i, v.a, 1, env, st, <<>>)
      ELSE IF env.lax THEN Cont(ch, i, v, env, st)
      ELSE Structural(env, st)
 [] n.k = "idx" ->
      IF v.t = "arr" \/ env.lax
      THEN Subs(ch, i, n.subs, 1, v, IF v.t = "arr" THEN v.a ELSE <<v>>, env,
                [st |-> st, acc |-> <<>>])
      ELSE IF env.lenient THEN R(<<>>, "opaque", st)   \* below strict .**: not pinned (PostgreSQL skips)
      ELSE R(<<>>, "verbose", st)
 [] n.k = "any" ->
      LET envL == [env EXCEPT !.lenient = TRUE]
          r0   == IF n.first = 0 THEN Cont(ch, i, v, envL, st) ELSE R(<<>>, "none", st)
      IN IF Failed(r0) \/ ~IsContainer(v) \/ Found(env, r0) THEN r0
         ELSE LET c  == Children(v, env, r0.st)
                  r1 == AnyItems(ch, i, c.xs, 1, 1, Lvl(n.first), Lvl(n.last), envL, c.st, <<>>)
              IN R(r0.items \o r1.items, r1.err, r1.st)
 [] n.k = "filter" ->
      IF unwrap /\ v.t = "arr" THEN EachSame(ch, i, v.a, 1, env, st, <<>>)
      ELSE LET p == Bool(n.p, v, [env EXCEPT !.cur = v], st)
           IN IF p.err # "none" THEN R(<<>>, p.err, p.st)
              ELSE IF p.val = "T" THEN Cont(ch, i, v, env, p.st)
              ELSE R(<<>>, "none", p.st)
 [] n.k = "method" ->
      IF v.t = "arr" /\ unwrap /\ n.name \notin {"type", "size"}
      THEN EachSame(ch, i, v.a, 1, env, st, <<>>)
      ELSE Method(ch, i, n.name, v, env, st)
 [] n.k = "decimal" ->
      IF v.t = "arr" /\ unwrap THEN EachSame(ch, i, v.a, 1, env, st, <<>>)
      ELSE IF v.t = "anyid" THEN R(<<>>, "opaque", st)
      ELSE LET u == DecimalMethod(n, v)
           IN IF u.ok THEN Cont(ch, i, MarkZ(u.v), env, st) ELSE R(<<>>, ErrOf(u.err, env), st)
 [] n.k = "dt" ->
      IF v.t = "arr" /\ unwrap THEN EachSame(ch, i, v.a, 1, env, st, <<>>)
      ELSE LET u == DTMethod(n, v, env.useTZ, env.zone)
           IN IF u.ok THEN Cont(ch, i, u.v, env, st) ELSE R(<<>>, ErrOf(u.err, env), st)
 [] n.k = "bin" /\ n.op \in {"add", "sub", "mul", "div", "mod"} ->
      LET l == Operand(n.l, v, env, st, TRUE)
      IN IF Failed(l) THEN R(<<>>, l.err, l.st)
         ELSE IF Len(l.items) # 1 THEN R(<<>>, "verbose", l.st)
         ELSE LET r == Operand(n.r, v, env, l.st, TRUE)
              IN IF Failed(r) THEN R(<<>>, r.err, r.st)
                 ELSE IF Len(r.items) # 1 THEN R(<<>>, "verbose", r.st)
                 ELSE IF l.items[1].t = "anyid" \/ r.items[1].t = "anyid"
                      THEN R(<<>>, "opaque", r.st)
                 ELSE LET m == MathOp(n.op, l.items[1], r.items[1], env.pol.quot)
                      IN IF m.ok THEN Cont(ch, i, MarkZ(m.v), env, r.st)
                         ELSE R(<<>>, ErrOf(m.err, env), r.st)
 [] n.k = "un" /\ n.op \in {"plus", "minus"} ->
      LET s == Operand(n.x, v, env, st, TRUE)
      IN IF Failed(s) THEN R(<<>>, s.err, s.st)
         ELSE UnaryEach(ch, i, n.op, s.items, 1, env, s.st, <<>>)
 [] OTHER ->      \* a predicate used as a path item
      LET p == Bool(n, v, env, st)
      IN IF p.err # "none" THEN R(<<>>, p.err, p.st)
         ELSE Cont(ch, i, PredVal(p.val), env, p.st)

-----------------------------------------------------------------------------
(* Entry points.  A case is [path, doc, vars, silent, useTZ, zone] and the  *)
(* evaluation parameters par = [cancelAt, choice, pol].                     *)

St0 == [polls |-> 0, ci |-> 0]
Pol0 == [vh |-> "verbose", quot |-> "trunc"]
Par0 == [cancelAt |-> 0, choice |-> <<>>, pol |-> Pol0, dev |-> {}, exm |-> FALSE]

(* Named deviations: behaviours of the implementation that contradict a    *)
(* property, are recorded in /verif/known-findings.jsonl, and are modelled  *)
(* here so that exactly these -- and nothing else -- can be recognised.     *)
(*   idx-drops-null   an array subscript skips JSON null elements (C14);    *)
(*                    pinned by the repository test TestExecArrayIndex/     *)
(*                    skip_nil, so it cannot be repaired under the rules.   *)
(*   isunknown-swallows-hard   (p) is unknown answers true when p raises a  *)
(*                    non-suppressible error other than cancellation (C08,  *)
(*                    C11); pinned by TestExecuteUnaryBoolItem/             *)
(*                    unary_is_unknown_true.                                *)
(*   unary-nonnum-exists   when unary + or - is the last step and only      *)
(*                    existence is asked (lax Exists, lax exists()), a      *)
(*                    non-numeric operand (or a json.Number outside the     *)
(*                    float64 range) counts as a found item instead of      *)
(*                    raising the operand error (C06, C13); pinned by       *)
(*                    TestExecUnaryMathExpr/nan (okNoList) and /json_bad.   *)
DevNames == {"idx-drops-null", "isunknown-swallows-hard", "unary-nonnum-exists"}
Policies == [vh : {"verbose", "hard"}, quot : {"trunc", "exact"}]

EnvOf(c, par) ==
  [root |-> c.doc, cur |-> c.doc, last |-> -1, vars |-> c.vars, lax |-> c.path.lax,
   lenient |-> c.path.lax, cancelAt |-> par.cancelAt, choice |-> par.choice,
   pol |-> par.pol, dev |-> par.dev, exm |-> par.exm, useTZ |-> c.useTZ, zone |-> c.zone]

Eval(c, par) == Exec(c.path.chain, 1, c.doc, EnvOf(c, par), St0, c.path.lax)

(* What Query returns: [items, err]; items are dropped with any error;      *)
(* with WithSilent a suppressible failure returns the items found so far.   *)
QueryOf(c, r) ==
  IF r.err = "none" THEN [items |-> r.items, err |-> "none"]
  ELSE IF c.silent /\ Suppressible(r.err) THEN [items |-> r.items, err |-> "none"]
  ELSE [items |-> <<>>, err |-> r.err]

(* First: [has, item, err] *)
FirstOf(c, r) ==
  LET q == QueryOf(c, r)
  IN IF q.err # "none" THEN [has |-> FALSE, err |-> q.err]
     ELSE IF q.items = <<>> THEN [has |-> FALSE, err |-> "none"]
     ELSE [has |-> TRUE, item |-> q.items[1], err |-> "none"]

(* Exists: [val, err] with err "none" | "NULL" | a class.  Lax mode answers *)
(* at the first event; strict mode needs the complete evaluation.  r may be *)
(* the complete evaluation (its first event is the same) or, when the       *)
(* number of polls matters, EvalExists(c, par).                             *)
EvalExists(c, par) == Eval(c, [par EXCEPT !.exm = c.path.lax])
ExistsOf(c, r) ==
  IF c.path.lax /\ r.items # <<>> THEN [val |-> TRUE, err |-> "none"]
  ELSE IF r.err = "none" THEN [val |-> r.items # <<>>, err |-> "none"]
  ELSE IF c.silent /\ Suppressible(r.err) THEN [val |-> FALSE, err |-> "NULL"]
  ELSE [val |-> FALSE, err |-> r.err]

(* Match: the sole boolean / NULL for a sole null / else the                *)
(* single-boolean-expected error (NULL when silent).                        *)
MatchOf(c, r) ==
  LET q == QueryOf(c, r)
  IN IF q.err # "none" THEN [val |-> FALSE, err |-> q.err]
     ELSE IF Len(q.items) = 1 /\ q.items[1].t = "bool" THEN [val |-> q.items[1].b, err |-> "none"]
     ELSE IF Len(q.items) = 1 /\ q.items[1].t = "null" THEN [val |-> FALSE, err |-> "NULL"]
     ELSE [val |-> FALSE, err |-> IF c.silent THEN "NULL" ELSE "verbose"]
=============================================================================
