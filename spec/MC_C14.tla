------------------------------- MODULE MC_C14 -------------------------------
(* C14: array subscripts select by position, with last, ranges and lists.   *)
(* Universe: all arrays of length 0..MaxLen over {null, 1, "x", [2],        *)
(* {"a":1}} (and a few non-arrays) x subscript lists built from abstract    *)
(* bounds.  Law on the specification: PathSem agrees with a positional      *)
(* oracle computed directly from the abstract bounds (truncation toward     *)
(* zero, last = n-1, clipping in lax mode, out-of-bounds error in strict    *)
(* mode, an error in both modes for a subscript that is not a single number *)
(* within int32).                                                           *)
EXTENDS ExecLaws, Universe, Oracles, SequencesExt, Json

CONSTANTS MaxLen, Wide

(* abstract bounds: [k |-> "lit", h |-> twice the value] | [k |-> "last",   *)
(* off |-> Int] | [k |-> "bad", which |-> ...]                              *)
BLit(h)  == [k |-> "lit", h |-> h]
BLast(o) == [k |-> "last", off |-> o]
BBad(w)  == [k |-> "bad", which |-> w]

Two31Lit == NNum(VNum("i", BNMul2k(BNOne, 31)))

ChainOfBound(b) ==
  CASE b.k = "lit" -> IF b.h % 2 = 0 THEN <<NInt(b.h \div 2)>> ELSE <<NNum(VHalf(b.h))>>
    [] b.k = "last" -> IF b.off = 0 THEN <<NLast>>
                       ELSE IF b.off > 0 THEN LastPlus(b.off) ELSE LastMinus(-b.off)
    [] b.k = "bad" ->
         CASE b.which = "str"   -> <<NStr(KX)>>                       \* not a number
           [] b.which = "multi" -> <<NRoot, NAnyArr>>                 \* $[*]: not a single item (unless one element)
           [] b.which = "none"  -> <<NRoot, NKey(KC)>>                \* lax: no item; strict: structural error
           [] b.which = "big"   -> <<Two31Lit>>                       \* 2^31: out of int32
           [] b.which = "null"  -> <<NNull>>
           [] b.which = "bool"  -> <<NTrue>>

SmallPosB(t) == IF BNCmp(t, BN(1000)) > 0 THEN 1000 ELSE IF BNCmp(t, BN(-1000)) < 0 THEN -1000 ELSE BNToInt(t)
(* position a bound denotes on an array of n elements; ok = FALSE for an    *)
(* erroneous bound.  doc is needed for the $-relative bad bounds.           *)
PosOfBound(b, n, doc, lax) ==
  CASE b.k = "lit"  -> [ok |-> TRUE, pos |-> TruncHalf(b.h)]
    [] b.k = "last" -> [ok |-> TRUE, pos |-> (n - 1) + b.off]
    [] b.k = "bad"  ->
         IF b.which = "multi" /\ doc.t = "arr" /\ Len(doc.a) = 1 /\ doc.a[1].t = "num"
         THEN (IF BNFitsInt32(BNTrunc(doc.a[1].n)) THEN [ok |-> TRUE, pos |-> SmallPosB(BNTrunc(doc.a[1].n))]
               ELSE [ok |-> FALSE, pos |-> 0])                        \* $[*] of a one-number array
         ELSE IF b.which = "multi" /\ doc.t = "num" /\ lax
         THEN [ok |-> TRUE, pos |-> SmallPosB(BNTrunc(doc.n))]
         ELSE [ok |-> FALSE, pos |-> 0]

SubOf(s) == IF s.range THEN Sub2(ChainOfBound(s.f), ChainOfBound(s.t)) ELSE Sub1(ChainOfBound(s.f))
Single(b)   == [range |-> FALSE, f |-> b, t |-> b]
Rng(f, t) == [range |-> TRUE, f |-> f, t |-> t]

Bounds1 == {BLit(h) : h \in {-2, -1, 0, 1, 2, 3, 4, 6}} \cup {BLast(0), BLast(-1), BLast(1)}
BoundsW == {BLit(h) : h \in -4..12} \cup {BLast(o) : o \in -2..1}
Bnds == IF Wide THEN BoundsW ELSE Bounds1
Bads == {BBad(w) : w \in {"str", "multi", "none", "big", "null", "bool"}}

Singles == {Single(b) : b \in Bnds \cup Bads}
Ranges  == {Rng(f, t) : f \in Bnds, t \in Bnds} \cup {Rng(BLit(0), b) : b \in Bads} \cup {Rng(b, BLit(1)) : b \in Bads}
ListElems == {Single(BLit(0)), Single(BLit(2)), Single(BLast(0)), Single(BLit(10)), Single(BBad("str")),
              Rng(BLit(0), BLit(2)), Rng(BLit(2), BLit(0)), Rng(BLast(-1), BLast(0))}
SubLists == {<<s>> : s \in Singles \cup Ranges} \cup {<<a, b>> : a \in ListElems, b \in ListElems}
            \cup {<<Single(BLit(2)), Single(BLit(0)), Single(BLit(2))>>}

AbsSeq == SetToSeq(SubLists)
(* nested subscripts: bounds that are themselves subscripted paths          *)
Nested == { <<NRoot, NIdx(<<Sub1(<<NRoot, NIdx(<<Sub1(Lit(0))>>)>>)>>)>>,                  \* $[$[0]]
            <<NRoot, NIdx(<<Sub1(<<NLast>>)>>), NIdx(<<Sub1(<<NLast>>)>>)>>,               \* $[last][last]
            <<NRoot, NIdx(<<Sub1(<<NRoot, NIdx(<<Sub1(<<NLast>>)>>), NIdx(<<Sub1(<<NLast>>)>>)>>)>>)>>,  \* $[$[last][last]]
            <<NRoot, NIdx(<<Sub1(<<NRoot, NIdx(<<Sub1(<<NLast>>)>>), NIdx(<<Sub1(<<NLast>>)>>)>>), Sub1(<<NLast>>)>>)>> } \* $[$[last][last], last]
(* bounds taken from the document itself (float64 and json.Number spellings  *)
(* of negative, fractional and out-of-int32 numbers reach the subscript only *)
(* this way)                                                                 *)
FromDoc == { <<NRoot, NIdx(<<Sub1(<<NRoot, NIdx(<<Sub1(Lit(0))>>)>>)>>)>>,                      \* $[$[0]]
             <<NRoot, NIdx(<<Sub2(<<NRoot, NIdx(<<Sub1(Lit(0))>>)>>, <<NRoot, NIdx(<<Sub1(Lit(1))>>)>>)>>)>>,   \* $[$[0] to $[1]]
             <<NRoot, NIdx(<<Sub1(<<NRoot, NIdx(<<Sub1(<<NLast>>)>>)>>), Sub1(Lit(0))>>)>> }    \* $[$[last], 0]
(* a step after the subscript (asked for existence too: a hit on an earlier subscript and a miss on the   *)
(* last one), and bounds whose own evaluation yields one item and then fails                              *)
Gt1 == NFilter(NBin("gt", <<NCur>>, Lit(1)))
More == { <<NRoot, NIdx(<<Sub1(Lit(0)), Sub1(Lit(1))>>), Gt1>>, <<NRoot, NIdx(<<Sub1(Lit(1)), Sub1(Lit(0))>>), Gt1>>,
          <<NRoot, NIdx(<<Sub2(Lit(0), Lit(1))>>), Gt1>>, <<NRoot, NIdx(<<Sub1(Lit(0)), Sub1(<<NLast>>)>>), Gt1>>,
          <<NRoot, NIdx(<<Sub1(Lit(0)), Sub1(Lit(1))>>), NKey(KA)>>, <<NRoot, NIdx(<<Sub1(Lit(0)), Sub1(Lit(2))>>), NMethod("floor")>>,
          <<NRoot, NIdx(<<Sub1(<<NRoot, NIdx(<<Sub1(Lit(0)), Sub1(Lit(5))>>)>>)>>)>>,                       \* $[$[0, 5]]
          <<NRoot, NIdx(<<Sub1(<<NRoot, NAnyArr, NMethod("floor")>>)>>)>>,                                \* $[$[*].floor()]
          <<NRoot, NIdx(<<Sub2(Lit(0), <<NRoot, NIdx(<<Sub1(Lit(1)), Sub1(Lit(7))>>)>>)>>)>>,             \* $[0 to $[1, 7]]
          (* a bound that starts with an integer literal and goes on: the accessors count *)
          <<NRoot, NIdx(<<Sub1(<<NInt(-2), NMethod("abs")>>)>>)>>, <<NRoot, NIdx(<<Sub1(<<NInt(0), NMethod("size")>>)>>)>>,
          <<NRoot, NIdx(<<Sub1(<<NInt(2), NMethod("type")>>)>>)>>, <<NRoot, NIdx(<<Sub1(<<NInt(1), Gt1>>)>>)>>,
          <<NRoot, NIdx(<<Sub2(<<NInt(0), NMethod("size")>>, <<NInt(-2), NMethod("abs")>>)>>)>> }
NestedSeq == SetToSeq(Nested \cup FromDoc \cup More)

PathOfAbs(sl) == <<NRoot, NIdx([j \in 1..Len(sl) |-> SubOf(sl[j])])>>
PathSeq == [i \in 1..Len(AbsSeq) |-> PathOfAbs(AbsSeq[i])] \o NestedSeq

Elems == {VNull, VFlt(1), VStr(KX), VArr(<<VFlt(2)>>), VObj(<<[k |-> KA, v |-> VFlt(1)]>>)}
NonArrays == {VFlt(1), VNull, VObj(<<[k |-> KA, v |-> VFlt(1)]>>)}
Nums == {VHalf(h) : h \in {-3, -1, 1, 3, 5}} \cup {VFlt(i) : i \in {-1, 0, 1, 2, 3}}
        \cup {VNum("f", BNMul2k(BNOne, 31)), VNum("f", BNNeg(BNAdd(BNMul2k(BNOne, 31), BNOne)))}
        \* fractions in the last unit inside int32: they truncate to a valid position
        \cup {VNum("f", BNSub(BNMul2k(BNOne, 31), BNMk(FALSE, <<1>>, -1))), VNum("f", BNNeg(BNAdd(BNMul2k(BNOne, 31), BNMk(FALSE, <<1>>, -1))))}
NumDocs == {VArr(<<a, b, VStr(KX)>>) : a \in Nums, b \in Nums} \cup {VArr(<<a>>) : a \in Nums}
DocSeq == SetToSeq(ArraysUpTo(Elems, MaxLen) \cup NonArrays \cup NumDocs
                   \cup {VArr(<<VFlt(0), VFlt(1), VArr(<<VFlt(0), VFlt(1)>>)>>), VArr(<<VFlt(5), VFlt(6), VArr(<<VFlt(0), VFlt(1)>>)>>),
                         VArr(<<VFlt(1), VStr(KX)>>), VArr(<<VFlt(0), VStr(KX), VFlt(5)>>), VArr(<<VFlt(5), VFlt(1)>>), VArr(<<VFlt(1), VFlt(5)>>)})

ASSUME ndJsonSerialize("paths.ndjson", [i \in 1..Len(PathSeq) |-> [pred |-> FALSE, chain |-> PathSeq[i]]])
ASSUME ndJsonSerialize("docs.ndjson", [i \in 1..Len(DocSeq) |-> [doc |-> DocSeq[i]]])
ASSUME PrintT(<<"UNIVERSE", Len(PathSeq), Len(DocSeq)>>)

(* --- the positional oracle ------------------------------------------------ *)
RECURSIVE SliceOracle(_, _, _, _, _)
SliceOracle(sl, j, arr, doc, lax) ==      \* [items, err]: sequential over the list
  IF j > Len(sl) THEN [items |-> <<>>, err |-> "none"]
  ELSE LET s == sl[j]
           n == Len(arr)
           f == PosOfBound(s.f, n, doc, lax)
           t == IF s.range THEN PosOfBound(s.t, n, doc, lax) ELSE f
       IN IF ~f.ok \/ ~t.ok THEN [items |-> <<>>, err |-> "verbose"]
          ELSE IF ~lax /\ (f.pos < 0 \/ f.pos > t.pos \/ t.pos >= n) THEN [items |-> <<>>, err |-> "verbose"]
          ELSE LET lo == OMax(f.pos, 0)  hi == OMin(t.pos, n - 1)
                   here == IF lo <= hi THEN SubSeq(arr, lo + 1, hi + 1) ELSE <<>>
                   rest == SliceOracle(sl, j + 1, arr, doc, lax)
               IN [items |-> here \o rest.items, err |-> rest.err]

VARIABLES pi, di, lax

CaseAt(p, d, lx) ==
  [path |-> [lax |-> lx, pred |-> FALSE, chain |-> PathSeq[p]], doc |-> DocSeq[d], vars |-> <<>>,
   silent |-> FALSE, useTZ |-> FALSE, zone |-> "UTC"]

(* $[$[0]] on an array of numbers: the element at trunc(a[0]), by the rules *)
(* positions far outside any array of the universe are clamped (BNToInt is for small values) *)
SmallPos(t) == IF BNCmp(t, BN(1000)) > 0 THEN 1000 ELSE IF BNCmp(t, BN(-1000)) < 0 THEN -1000 ELSE BNToInt(t)
NumPos(v) == IF v.t = "num" /\ BNFitsInt32(BNTrunc(v.n)) THEN [ok |-> TRUE, pos |-> SmallPos(BNTrunc(v.n))] ELSE [ok |-> FALSE, pos |-> 0]
FromDocLaw(d, lx) ==
  LET doc == DocSeq[d]
      c   == [path |-> [lax |-> lx, pred |-> FALSE, chain |-> <<NRoot, NIdx(<<Sub1(<<NRoot, NIdx(<<Sub1(Lit(0))>>)>>)>>)>>],
              doc |-> doc, vars |-> <<>>, silent |-> FALSE, useTZ |-> FALSE, zone |-> "UTC"]
      r   == Eval(c, Par0)
  IN IF doc.t # "arr" \/ Len(doc.a) = 0 \/ doc.a[1].t # "num" THEN TRUE
     ELSE LET p == NumPos(doc.a[1])
          IN IF ~p.ok THEN r.err = "verbose"
             ELSE IF p.pos < 0 \/ p.pos >= Len(doc.a) THEN (IF lx THEN r.err = "none" /\ r.items = <<>> ELSE r.err = "verbose")
             ELSE r.err = "none" /\ r.items = <<doc.a[p.pos + 1]>>

Law_C14(p, d, lx) ==
  IF p > Len(AbsSeq) THEN FromDocLaw(d, lx)   \* nested forms: fixed expectations below and the from-document law
  ELSE LET c   == CaseAt(p, d, lx)
           r   == Eval(c, Par0)
           doc == DocSeq[d]
       IN IF doc.t # "arr" /\ ~lx THEN r.err = "verbose" /\ r.items = <<>>
          ELSE LET o == SliceOracle(AbsSeq[p], 1, IF doc.t = "arr" THEN doc.a ELSE <<doc>>, doc, lx)
               IN r.err = o.err /\ r.items = o.items

(* fixed expectations for the nested forms (rule: last is n-1 of the        *)
(* innermost enclosing subscripted array, restored afterwards)              *)
D56 == VArr(<<VFlt(5), VFlt(6), VArr(<<VFlt(0), VFlt(1)>>)>>)
NestedLaw ==
  LET c(ch) == [path |-> [lax |-> TRUE, pred |-> FALSE, chain |-> ch], doc |-> D56, vars |-> <<>>,
                silent |-> FALSE, useTZ |-> FALSE, zone |-> "UTC"]
  IN /\ Eval(c(<<NRoot, NIdx(<<Sub1(<<NRoot, NIdx(<<Sub1(<<NLast>>)>>), NIdx(<<Sub1(<<NLast>>)>>)>>)>>)>>), Par0).items = <<VFlt(6)>>
     /\ Eval(c(<<NRoot, NIdx(<<Sub1(<<NRoot, NIdx(<<Sub1(<<NLast>>)>>), NIdx(<<Sub1(<<NLast>>)>>)>>), Sub1(<<NLast>>)>>)>>), Par0).items
          = <<VFlt(6), VArr(<<VFlt(0), VFlt(1)>>)>>
ASSUME NestedLaw

Init == pi \in 1..Len(PathSeq) /\ di = 0 /\ lax \in BOOLEAN
Step == di = 0 /\ di' \in 1..Len(DocSeq) /\ UNCHANGED <<pi, lax>>
Inv == di = 0 \/ Law_C14(pi, di, lax)
=============================================================================
