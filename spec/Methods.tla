----------------------------- MODULE Methods -----------------------------
(* Item methods that convert between scalars: .double() .number()          *)
(* .decimal(p,s) .integer() .bigint() .boolean() .string(), and the type    *)
(* names of .type().  Results as in Num: [ok, v] or [ok |-> FALSE, err].    *)
(* err "opaque" means the specification declines to compute the value      *)
(* (e.g. the shortest decimal spelling of a double with many digits).       *)
EXTENDS Integers, Sequences, JsonValue, Num

(* --- small text helpers (ASCII bytes) ----------------------------------- *)
Ch0 == 48   ChMinus == 45  ChPlus == 43  ChDot == 46  ChE == 101  ChEcap == 69

TypeNameBytes(nm) ==
  CASE nm = "null"    -> <<110,117,108,108>>
    [] nm = "boolean" -> <<98,111,111,108,101,97,110>>
    [] nm = "number"  -> <<110,117,109,98,101,114>>
    [] nm = "string"  -> <<115,116,114,105,110,103>>
    [] nm = "array"   -> <<97,114,114,97,121>>
    [] nm = "object"  -> <<111,98,106,101,99,116>>
    [] nm = "date"    -> <<100,97,116,101>>
    [] nm = "time without time zone" ->
         <<116,105,109,101,32,119,105,116,104,111,117,116,32,116,105,109,101,32,122,111,110,101>>
    [] nm = "time with time zone" ->
         <<116,105,109,101,32,119,105,116,104,32,116,105,109,101,32,122,111,110,101>>
    [] nm = "timestamp without time zone" ->
         <<116,105,109,101,115,116,97,109,112,32,119,105,116,104,111,117,116,32,116,105,109,101,32,122,111,110,101>>
    [] nm = "timestamp with time zone" ->
         <<116,105,109,101,115,116,97,109,112,32,119,105,116,104,32,116,105,109,101,32,122,111,110,101>>

TrueBytes  == <<116,114,117,101>>
FalseBytes == <<102,97,108,115,101>>

IsDigit(b) == b >= 48 /\ b <= 57
Lower(b)   == IF b >= 65 /\ b <= 90 THEN b + 32 ELSE b
LowerSeq(s) == [i \in 1..Len(s) |-> Lower(s[i])]

Ten == BN(10)

(* decimal digits (as bytes) of a non-negative integer BigNum *)
RECURSIVE NatDigits(_)
NatDigits(a) ==
  IF BNCmp(a, Ten) < 0 THEN <<48 + BNToInt(a)>>
  ELSE NatDigits(BNQuoTrunc(a, Ten)) \o <<48 + BNToInt(BNRem(a, Ten))>>

(* number of decimal digits of a positive integer, from its bit length and  *)
(* one comparison with a power of ten (no long division)                    *)
NumDigits(a) ==
  LET b   == BNBitLen(a) + a.e
      est == (b * 30103) \div 100000          \* floor(b * log10(2)); the answer is est or est + 1
  IN IF BNCmp(a, BNPow10(est)) >= 0 THEN est + 1 ELSE est

IntText(a) == IF BNSign(a) < 0 THEN <<ChMinus>> \o NatDigits(BNAbs(a)) ELSE NatDigits(a)

RECURSIVE AllDigits(_, _, _)
AllDigits(s, i, j) == IF i > j THEN TRUE ELSE IsDigit(s[i]) /\ AllDigits(s, i + 1, j)

RECURSIVE DigitVals(_, _, _)
DigitVals(s, i, j) == IF i > j THEN <<>> ELSE <<s[i] - 48>> \o DigitVals(s, i + 1, j)

RECURSIVE FindByte(_, _, _)
FindByte(s, b, i) == IF i > Len(s) THEN 0 ELSE IF s[i] = b THEN i ELSE FindByte(s, b, i + 1)

(* strconv.ParseInt(s, 10, _): optional sign, one or more digits.           *)
ParseIntText(s) ==
  LET neg   == Len(s) > 0 /\ s[1] = ChMinus
      start == IF Len(s) > 0 /\ (s[1] = ChMinus \/ s[1] = ChPlus) THEN 2 ELSE 1
  IN IF start > Len(s) \/ ~AllDigits(s, start, Len(s)) THEN [ok |-> FALSE]
     ELSE [ok |-> TRUE, n |-> BNFromDecimal(neg, DigitVals(s, start, Len(s)), 0)]

(* A plain decimal spelling [sign] digits [. digits] [e [sign] digits] with *)
(* at least one mantissa digit: [ok, neg, digs, exp10] meaning              *)
(* (-1)^neg * digs * 10^exp10.  Other spellings strconv.ParseFloat accepts  *)
(* (inf, nan, hex floats, underscores) are reported as "other".             *)
SmallNat(s, i, j) ==       \* value of a short digit run, capped
  LET RECURSIVE go(_, _)
      go(k, acc) == IF k > j THEN acc ELSE IF acc > 100000 THEN acc ELSE go(k + 1, acc * 10 + (s[k] - 48))
  IN go(i, 0)

ParseDecimalText(s) ==
  LET neg    == Len(s) > 0 /\ s[1] = ChMinus
      start  == IF Len(s) > 0 /\ (s[1] = ChMinus \/ s[1] = ChPlus) THEN 2 ELSE 1
      epos0  == FindByte(s, ChE, start)
      epos   == IF epos0 # 0 THEN epos0 ELSE FindByte(s, ChEcap, start)
      mend   == IF epos = 0 THEN Len(s) ELSE epos - 1
      dot    == LET d == FindByte(s, ChDot, start) IN IF d = 0 \/ d > mend THEN 0 ELSE d
      ipart  == IF dot = 0 THEN DigitVals(s, start, mend) ELSE DigitVals(s, start, dot - 1)
      fpart  == IF dot = 0 THEN <<>> ELSE DigitVals(s, dot + 1, mend)
      mantOK == /\ start <= mend
                /\ (IF dot = 0 THEN AllDigits(s, start, mend)
                    ELSE AllDigits(s, start, dot - 1) /\ AllDigits(s, dot + 1, mend))
                /\ Len(ipart) + Len(fpart) > 0
      eneg   == epos # 0 /\ epos < Len(s) /\ s[epos + 1] = ChMinus
      estart == IF epos # 0 /\ epos < Len(s) /\ (s[epos + 1] = ChMinus \/ s[epos + 1] = ChPlus)
                THEN epos + 2 ELSE epos + 1
      expOK  == epos = 0 \/ (estart <= Len(s) /\ AllDigits(s, estart, Len(s)))
      e      == IF epos = 0 THEN 0 ELSE SmallNat(s, estart, Len(s))
  IN IF ~mantOK \/ ~expOK THEN [ok |-> FALSE]
     ELSE [ok |-> TRUE, neg |-> neg, digs |-> ipart \o fpart,
           exp10 |-> (IF eneg THEN -e ELSE e) - Len(fpart)]

(* The float64 nearest to a decimal; [inf |-> TRUE] on overflow.            *)
DecimalToDouble(p) ==
  IF p.exp10 >= 0 THEN
     IF p.exp10 > 400 THEN (IF BNIsZero(BNFromDecimal(p.neg, p.digs, 0)) THEN BNZero
                            ELSE [inf |-> TRUE, neg |-> p.neg])
     ELSE BNRoundToDouble(BNFromDecimal(p.neg, p.digs, p.exp10))
  ELSE IF Len(p.digs) + p.exp10 < -400 THEN BNZero    \* below 1e-400: underflows to zero
  ELSE BNDivToDouble(BNFromDecimal(p.neg, p.digs, 0), BNPow10(-p.exp10))

(* strconv.ParseFloat on a string item / json.Number text for .double() and *)
(* .number(): [ok, d] where d is a BigNum or the inf record.                *)
ParseFloatText(s) ==
  LET p == ParseDecimalText(s)
  IN IF ~p.ok THEN [ok |-> FALSE] ELSE [ok |-> TRUE, d |-> DecimalToDouble(p)]

(* The text strconv.FormatFloat(x, 'f', -1, 64) prints when the exact       *)
(* decimal expansion of x has at most 15 significant digits (then the       *)
(* shortest round-tripping spelling is the exact one).                      *)
RECURSIVE StripZeros(_)
StripZeros(d) == IF Len(d) > 0 /\ d[Len(d)] = 48 THEN StripZeros(SubSeq(d, 1, Len(d) - 1)) ELSE d
RECURSIVE Zeros(_)
Zeros(n) == IF n <= 0 THEN <<>> ELSE <<48>> \o Zeros(n - 1)
RECURSIVE Pow5(_)
Pow5(k) == IF k = 0 THEN BNOne ELSE BNMul(BN(5), Pow5(k - 1))

FloatText(x) ==    \* x a finite double as BigNum
  IF BNIsZero(x) THEN [ok |-> TRUE, s |-> <<48>>]
  ELSE IF BNIsInt(x) THEN
       IF BNBitLen(x) + x.e <= 49 THEN [ok |-> TRUE, s |-> IntText(x)] ELSE [ok |-> FALSE]
  ELSE LET k    == -x.e                                   \* x = M / 2^k, M odd
       IN IF k > 40 THEN [ok |-> FALSE]
          ELSE LET scaled == BNMul(BNMk(FALSE, x.m, 0), Pow5(k))   \* |x| * 10^k
                   digs   == NatDigits(scaled)
                   padded == IF Len(digs) <= k THEN Zeros(k - Len(digs) + 1) \o digs ELSE digs
                   ip     == SubSeq(padded, 1, Len(padded) - k)
                   fp     == StripZeros(SubSeq(padded, Len(padded) - k + 1, Len(padded)))
               IN IF Len(digs) > 15 THEN [ok |-> FALSE]
                  ELSE [ok |-> TRUE,
                        s |-> (IF x.neg THEN <<ChMinus>> ELSE <<>>) \o ip \o <<ChDot>> \o fp]

(* --- methods ------------------------------------------------------------ *)

DoubleOfItem(v, strict) ==
  (* strict = TRUE for .double(): unparsable text is an unclassified raise  *)
  (* site; .number()/.decimal() report it as suppressible.                  *)
  LET bad == IF strict THEN "unc" ELSE "verbose"
  IN CASE v.t = "num" ->
            IF IsBadJNum(v) THEN NErr(bad) ELSE NOk(VNum("f", AsDouble(v)))
       [] v.t = "str" ->
            LET p == ParseFloatText(v.s)
            IN IF ~p.ok THEN
                 (* inf / nan spellings are rejected like Inf/NaN values;   *)
                 (* other unusual spellings are not decided here            *)
                 IF LowerSeq(v.s) \in {<<105,110,102>>, <<110,97,110>>, <<43,105,110,102>>, <<45,105,110,102>>,
                                       <<105,110,102,105,110,105,116,121>>, <<43,105,110,102,105,110,105,116,121>>,
                                       <<45,105,110,102,105,110,105,116,121>>}
                 THEN NErr("verbose")
                 ELSE LET ls == LowerSeq(v.s)
                          b  == IF Len(ls) > 0 /\ ls[1] \in {ChMinus, ChPlus} THEN Tail(ls) ELSE ls
                      IN (* hex floats and digit separators: strconv accepts some; not decided *)
                         IF (Len(b) >= 2 /\ b[1] = 48 /\ b[2] = 120) \/ FindByte(ls, 95, 1) # 0
                         THEN NErr("opaque") ELSE NErr(bad)
               (* a decimal text beyond float64 range is a conversion error of *)
               (* strconv, reported like unparsable text                        *)
               ELSE IF IsInf(p.d) THEN NErr(bad) ELSE NOk(VNum("f", p.d))
       [] OTHER -> NErr("verbose")

RoundedInt(v) ==      \* the integer .integer()/.bigint() convert a number item to
  IF IsIntRep(v) THEN v.n ELSE BNRoundHalfAway(AsDouble(v))

ConvMethod(name, v) ==
  CASE name = "double" -> DoubleOfItem(v, TRUE)
    [] name = "number" -> DoubleOfItem(v, FALSE)
    [] name = "integer" ->
         CASE v.t = "num" ->
                IF IsBadJNum(v) THEN NErr("verbose")
                ELSE LET x == RoundedInt(v)
                     IN IF BNFitsInt32(x) THEN NOk(VNum("i", x)) ELSE NErr("verbose")
           [] v.t = "str" ->
                LET p == ParseIntText(v.s)
                IN IF p.ok /\ BNFitsInt32(p.n) THEN NOk(VNum("i", p.n)) ELSE NErr("verbose")
           [] OTHER -> NErr("verbose")
    [] name = "bigint" ->
         CASE v.t = "num" ->
                IF IsBadJNum(v) THEN NErr("verbose")
                ELSE LET x == RoundedInt(v)
                     IN IF BNFitsInt64(x) THEN NOk(VNum("i", x)) ELSE NErr("verbose")
           [] v.t = "str" ->
                LET p == ParseIntText(v.s)
                IN IF p.ok /\ BNFitsInt64(p.n) THEN NOk(VNum("i", p.n)) ELSE NErr("verbose")
           [] OTHER -> NErr("verbose")
    [] name = "boolean" ->
         CASE v.t = "bool" -> NOk(v)
           [] v.t = "num" ->
                IF IsBadJNum(v) THEN NErr("verbose")
                ELSE IF IsIntRep(v) THEN NOk(VBool(~BNIsZero(v.n)))
                ELSE IF ~BNIsInt(AsDouble(v)) THEN NErr("verbose")
                ELSE NOk(VBool(~BNIsZero(AsDouble(v))))
           [] v.t = "str" ->
                LET s == LowerSeq(v.s)
                IN IF s \in {<<116>>, TrueBytes, <<121>>, <<121,101,115>>, <<111,110>>, <<49>>}
                   THEN NOk(VTrue)
                   ELSE IF s \in {<<102>>, FalseBytes, <<110>>, <<110,111>>, <<111,102,102>>, <<48>>}
                   THEN NOk(VFalse)
                   ELSE IF s \in {<<116,114>>, <<116,114,117>>, <<102,97>>, <<102,97,108>>, <<102,97,108,115>>,
                                  <<121,101>>, <<111,102>>}
                   THEN NErr("opaque")      \* PostgreSQL accepts unique prefixes; not pinned
                   ELSE NErr("verbose")
           [] OTHER -> NErr("verbose")
    [] name = "string" ->
         CASE v.t = "str" -> NOk(v)
           [] v.t = "bool" -> NOk(VStr(IF v.b THEN TrueBytes ELSE FalseBytes))
           [] v.t = "num" ->
                IF v.rep = "j" THEN NOk(VStr(v.tx))
                ELSE IF v.rep = "i" THEN NOk(VStr(IntText(v.n)))
                ELSE LET f == FloatText(v.n)
                     IN IF f.ok THEN NOk(VStr(f.s)) ELSE NErr("opaque")
           [] v.t = "dt" -> NOk(VStr(v.txt))
           [] OTHER -> NErr("verbose")

(* .decimal(p, s): n = [np |-> number of arguments, p, s] (p, s items)      *)
Pow10Signed(x, s) ==   \* x * 10^s exactly is not dyadic for s < 0; callers only need comparisons
  BNMul(x, BNPow10(s))

DecimalMethod(n, v) ==
  LET d == DoubleOfItem(v, FALSE)
  IN IF ~d.ok THEN d
     ELSE IF n.np = 0 THEN d
     ELSE IF ~BNFitsInt32(n.p.n) THEN NErr("unc")
     ELSE IF BNCmp(n.p.n, BNOne) < 0 \/ BNCmp(n.p.n, BN(1000)) > 0 THEN NErr("hard")
     ELSE IF n.np = 2 /\ ~BNFitsInt32(n.s.n) THEN NErr("unc")
     ELSE IF n.np = 2 /\ (BNCmp(n.s.n, BN(-1000)) < 0 \/ BNCmp(n.s.n, BN(1000)) > 0) THEN NErr("hard")
     ELSE LET p  == BNToInt(n.p.n)
              s  == IF n.np = 2 THEN BNToInt(n.s.n) ELSE 0
              x  == d.v.n
              (* rounded = round-half-away(x * 10^s) / 10^s, exactly *)
              ri == IF s >= 0 THEN BNRoundHalfAway(BNMul(x, BNPow10(s)))
                    ELSE (* round x / 10^-s half away from zero *)
                         LET q  == BNPow10(-s)
                             t  == BNTrunc(x)            \* fraction cannot matter unless |x| < q; handled by 2*rem
                             a  == BNAbs(x)
                             qi == BNQuoTrunc(BNTrunc(a), q)
                             rm == BNSub(a, BNMul(qi, q))                \* a - qi*q, 0 <= rm < q (may be fractional)
                             up == BNCmp(BNMul2k(rm, 1), q) >= 0
                             m  == IF up THEN BNAdd(qi, BNOne) ELSE qi
                         IN IF x.neg THEN BNNeg(m) ELSE m
              (* number of integer digits of |rounded| (rounded = ri * 10^-s) *)
              mag    == BNAbs(ri)
              ndig   == IF BNIsZero(mag) THEN 0 ELSE NumDigits(mag)
              (* digits before the decimal point; zero or negative when the  *)
              (* value is below 1 (leading zeros after the point count down) *)
              intdig == ndig - s
              val    == IF s >= 0
                        THEN (IF s = 0 THEN BNRoundToDouble(ri) ELSE BNDivToDouble(ri, BNPow10(s)))
                        ELSE BNRoundToDouble(BNMul(ri, BNPow10(-s)))
          IN IF ~BNIsZero(mag) /\ intdig > p - s THEN NErr("verbose")
             ELSE IF IsInf(val) THEN NErr("verbose")
             ELSE NOk(VNum("f", val))
=============================================================================
