------------------------------- MODULE Num -------------------------------
(* The numeric tower of the executor over the three Go representations     *)
(* (int64 "i", float64 "f", json.Number "j"), stated exactly with BigNum.   *)
(*                                                                          *)
(* Results are records [ok |-> TRUE, v |-> item] or [ok |-> FALSE, err |->  *)
(* class] with class "verbose" (suppressible) or "unc" (a raise site the    *)
(* properties do not classify; the caller resolves it with the policy).     *)
(*                                                                          *)
(* Intended behaviour (properties C12, C13, C16), not today's code:         *)
(*   - comparison is by exact mathematical value in every representation;   *)
(*   - integer results that do not fit int64 become the IEEE double of the  *)
(*     exact result instead of wrapping;                                    *)
(*   - a double result that overflows is an error, never Inf.               *)
EXTENDS Integers, Sequences, JsonValue

NOk(v)    == [ok |-> TRUE, v |-> v]
NErr(c)   == [ok |-> FALSE, err |-> c]

Two63  == BNMul2k(BNOne, 63)
Two31  == BNMul2k(BNOne, 31)

IsInf(d) == "inf" \in DOMAIN d

(* The float64 the implementation computes with for a number item.          *)
AsDouble(v) ==
  IF v.rep = "f" THEN v.n
  ELSE IF v.rep = "j" /\ ~v.ji THEN v.n
  ELSE BNRoundToDouble(v.n)            \* int64 -> float64 conversion rounds

NumCmp(l, r) == BNCmp(l.n, r.n)
(* the value a number item computes with: exact for integers, the float64   *)
(* for everything else                                                      *)
AsValue(v) == IF IsIntRep(v) THEN v.n ELSE AsDouble(v)

(* A float64 result from an exact value: overflow is an error.              *)
FloatOf(x) ==
  LET d == BNRoundToDouble(x)
  IN IF IsInf(d) THEN NErr("unc") ELSE NOk(VNum("f", d))

IntOrFloat(x) == IF BNFitsInt64(x) THEN NOk(VNum("i", x)) ELSE FloatOf(x)

(* op \in {"add","sub","mul","div","mod"}; quot \in {"trunc","exact"}       *)
IntMath(op, a, b, quot) ==
  CASE op = "add" -> IntOrFloat(BNAdd(a, b))
    [] op = "sub" -> IntOrFloat(BNSub(a, b))
    [] op = "mul" -> IntOrFloat(BNMul(a, b))
    [] op = "div" ->
         IF BNIsZero(b) THEN NErr("verbose")
         ELSE IF quot = "trunc" \/ BNIsZero(BNRem(a, b))
              THEN IntOrFloat(BNQuoTrunc(a, b))
              ELSE LET d == BNDivToDouble(a, b)
                   IN IF IsInf(d) THEN NErr("unc") ELSE NOk(VNum("f", d))
    [] op = "mod" ->
         IF BNIsZero(b) THEN NErr("verbose") ELSE NOk(VNum("i", BNRem(a, b)))

FloatMath(op, a, b) ==
  CASE op = "add" -> FloatOf(BNAdd(a, b))
    [] op = "sub" -> FloatOf(BNSub(a, b))
    [] op = "mul" -> FloatOf(BNMul(a, b))
    [] op = "div" ->
         IF BNIsZero(b) THEN NErr("verbose")
         ELSE LET d == BNDivToDouble(a, b)
              IN IF IsInf(d) THEN NErr("unc") ELSE NOk(VNum("f", d))
    [] op = "mod" ->
         IF BNIsZero(b) THEN NErr("verbose") ELSE NOk(VNum("f", BNFMod(a, b)))

(* Binary arithmetic on two items.                                          *)
MathOp(op, l, r, quot) ==
  IF ~IsNum(l) \/ ~IsNum(r) THEN NErr("verbose")
  ELSE IF IsBadJNum(l) \/ IsBadJNum(r) THEN NErr("verbose")
  ELSE IF IsIntRep(l) /\ IsIntRep(r) THEN IntMath(op, l.n, r.n, quot)
  ELSE FloatMath(op, AsDouble(l), AsDouble(r))

(* Unary minus / plus / abs / floor / ceiling on one number item.           *)
NumUnary(f, v) ==
  IF IsBadJNum(v) THEN NErr("verbose")
  ELSE IF IsIntRep(v) THEN
    CASE f = "minus" -> IntOrFloat(BNNeg(v.n))
      [] f = "abs"   -> IntOrFloat(BNAbs(v.n))
      [] OTHER       -> NOk(VNum("i", v.n))          \* plus, floor, ceiling
  ELSE LET d == AsDouble(v)
       IN CASE f = "minus"   -> NOk(VNum("f", BNNeg(d)))
            [] f = "abs"     -> NOk(VNum("f", BNAbs(d)))
            [] f = "plus"    -> NOk(VNum("f", d))
            [] f = "floor"   -> NOk(VNum("f", BNFloor(d)))
            [] f = "ceiling" -> NOk(VNum("f", BNCeil(d)))

(* Array subscript: one number, truncated toward zero, within int32.        *)
(* Result idx is clamped to [-2, 2^30] (array sizes are far below).         *)
IndexOf(v) ==
  IF ~IsNum(v) \/ IsBadJNum(v) THEN [ok |-> FALSE]
  ELSE LET t == BNTrunc(v.n)
       IN IF ~BNFitsInt32(t) THEN [ok |-> FALSE]
          ELSE [ok |-> TRUE,
                idx |-> IF BNCmp(t, BN(-2)) < 0 THEN -2
                        ELSE IF BNCmp(t, BN(1073741824)) > 0 THEN 1073741824
                        ELSE BNToInt(t)]
=============================================================================
