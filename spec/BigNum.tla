------------------------------- MODULE BigNum -------------------------------
(***************************************************************************)
(* Exact arithmetic on dyadic rationals for TLC (32-bit integers, no       *)
(* floats).                                                                *)
(*                                                                         *)
(* A number is  [neg |-> BOOLEAN, m |-> <<limbs>>, e |-> Int]  denoting    *)
(*     (-1)^neg * M * 2^e ,   M = SUM m[i] * B^(i-1),   B = 2^15           *)
(* (little-endian limbs in 0..B-1, most significant limb non-zero).        *)
(*                                                                         *)
(* NORMAL FORM: zero is [neg |-> FALSE, m |-> <<>>, e |-> 0]; a non-zero   *)
(* number has M odd.  Every exported operator returns normal forms and     *)
(* assumes them on input (except BNMk, which normalises), so value         *)
(* equality is record equality.                                            *)
(*                                                                         *)
(* Operators prefixed BNn work on bare magnitudes (limb sequences without  *)
(* high zero limbs, <<>> = 0) and are internal.                            *)
(*                                                                         *)
(* Exported: BNZero BNOne BN(i) BNMk(neg,m,e) BNIsZero BNSign BNNeg BNAbs  *)
(* BNCmp(a,b) BNAdd BNSub BNMul BNMul2k(a,k) BNIsInt BNTrunc BNFloor       *)
(* BNCeil BNRoundHalfAway BNRoundHalfEven BNFitsInt32 BNFitsInt64          *)
(* BNToInt BNBitLen BNQuoTrunc(a,b) BNRem(a,b) BNIsDouble                  *)
(* BNRoundToDouble(a) BNDivToDouble(a,b) BNIsRoundedQuotient(a,b,q)        *)
(* BNFMod(a,b) BNFromDecimal(neg,digits,exp10) BNPow10(n); also BNInf(neg) *)
(* = [inf |-> TRUE, neg |-> neg], the overflow result of the two ...Double *)
(* operators (test with "inf" \in DOMAIN r).  There is no negative zero.   *)
(*                                                                         *)
(* Every intermediate TLC integer stays below 2^31: the largest is         *)
(* below 2^31 - 1 (native fast paths add two terms < 2^30).  \div and %   *)
(* are applied to non-negative operands only.                              *)
(***************************************************************************)
EXTENDS Integers, Sequences

BNBase == 32768

\* BNP2[k+1] = 2^k for k in 0..30
BNP2 == << 1, 2, 4, 8, 16, 32, 64, 128, 256, 512, 1024, 2048, 4096, 8192,
           16384, 32768, 65536, 131072, 262144, 524288, 1048576, 2097152,
           4194304, 8388608, 16777216, 33554432, 67108864, 134217728,
           268435456, 536870912, 1073741824 >>

\* BNP5[k+1] = 5^k for k in 0..5
BNP5 == << 1, 5, 25, 125, 625, 3125 >>

-----------------------------------------------------------------------------
(* Magnitudes (natural numbers as limb sequences)                          *)

(* TLC evaluates on the Java stack and one TLA+ recursion level costs      *)
(* several KB of it (a 140-level limb loop overflows the default 1 MB),    *)
(* so no recursion here is deeper than about 10 + log2 n levels for n      *)
(* limbs: carry chains run linearly up to 10 limbs and by divide and       *)
(* conquer in chunks of 8 (BNnChain) above that; searches, products,       *)
(* divisions and decimal conversion split their index range in halves.     *)

\* largest index in lo..hi holding a non-zero limb, lo-1 if there is none
RECURSIVE BNnFindLast(_, _, _)
BNnFindLast(m, lo, hi) ==
    IF lo >= hi THEN (IF lo = hi /\ m[lo] # 0 THEN lo ELSE lo - 1)
    ELSE LET mid == (lo + hi + 1) \div 2
         IN  IF \E j \in mid..hi : m[j] # 0 THEN BNnFindLast(m, mid, hi)
             ELSE BNnFindLast(m, lo, mid - 1)

\* smallest index in lo..hi holding a non-zero limb (there must be one)
RECURSIVE BNnFindFirst(_, _, _)
BNnFindFirst(m, lo, hi) ==
    IF lo >= hi THEN lo
    ELSE LET mid == (lo + hi) \div 2
         IN  IF \E j \in lo..mid : m[j] # 0 THEN BNnFindFirst(m, lo, mid)
             ELSE BNnFindFirst(m, mid + 1, hi)

\* largest index in lo..hi where a and b differ, lo-1 if there is none
RECURSIVE BNnFindLastDiff(_, _, _, _)
BNnFindLastDiff(a, b, lo, hi) ==
    IF lo >= hi THEN (IF lo = hi /\ a[lo] # b[lo] THEN lo ELSE lo - 1)
    ELSE LET mid == (lo + hi + 1) \div 2
         IN  IF \E j \in mid..hi : a[j] # b[j]
             THEN BNnFindLastDiff(a, b, mid, hi)
             ELSE BNnFindLastDiff(a, b, lo, mid - 1)

\* drop high zero limbs
BNnTrim(m) ==
    IF m = <<>> THEN m
    ELSE IF m[Len(m)] # 0 THEN m
    ELSE SubSeq(m, 1, BNnFindLast(m, 1, Len(m) - 1))

\* number of bits of a limb x in 0..B-1
BNnLimbLen(x) ==
    IF x < 128
    THEN IF x < 8
         THEN (IF x < 2 THEN x ELSE IF x < 4 THEN 2 ELSE 3)
         ELSE IF x < 32 THEN (IF x < 16 THEN 4 ELSE 5)
         ELSE IF x < 64 THEN 6 ELSE 7
    ELSE IF x < 2048
         THEN IF x < 512 THEN (IF x < 256 THEN 8 ELSE 9)
              ELSE IF x < 1024 THEN 10 ELSE 11
         ELSE IF x < 8192 THEN (IF x < 4096 THEN 12 ELSE 13)
         ELSE IF x < 16384 THEN 14 ELSE 15

BNnBitLen(m) ==
    IF m = <<>> THEN 0 ELSE 15 * (Len(m) - 1) + BNnLimbLen(m[Len(m)])

\* trailing zero bits of a non-zero limb
RECURSIVE BNnLimbTZ(_)
BNnLimbTZ(x) == IF x % 2 = 1 THEN 0 ELSE 1 + BNnLimbTZ(x \div 2)

\* trailing zero bits of a non-zero magnitude
BNnTZ(m) ==
    IF m[1] # 0 THEN BNnLimbTZ(m[1])
    ELSE LET f == BNnFindFirst(m, 1, Len(m))
         IN  15 * (f - 1) + BNnLimbTZ(m[f])

\* bit j (0 = least significant) of m
BNnBit(m, j) ==
    LET idx == (j \div 15) + 1
    IN  IF idx > Len(m) THEN 0 ELSE (m[idx] \div BNP2[(j % 15) + 1]) % 2

BNnIsOdd(m) == m # <<>> /\ m[1] % 2 = 1

\* magnitude of a TLC natural n < 2^31
BNnFromInt(n) ==
    IF n < BNBase THEN (IF n = 0 THEN <<>> ELSE <<n>>)
    ELSE IF n < 1073741824 THEN << n % BNBase, n \div BNBase >>
    ELSE << n % BNBase, (n \div BNBase) % BNBase, n \div 1073741824 >>

\* TLC natural of a magnitude < 2^31
BNnToInt(m) ==
    IF m = <<>> THEN 0
    ELSE IF Len(m) = 1 THEN m[1]
    ELSE IF Len(m) = 2 THEN m[1] + BNBase * m[2]
    ELSE m[1] + BNBase * m[2] + 1073741824 * m[3]

RECURSIVE BNnCmpRec(_, _, _)
BNnCmpRec(a, b, i) ==
    IF i = 0 THEN 0
    ELSE IF a[i] < b[i] THEN -1
    ELSE IF a[i] > b[i] THEN 1
    ELSE BNnCmpRec(a, b, i - 1)

BNnCmp(a, b) ==
    IF Len(a) # Len(b) THEN (IF Len(a) < Len(b) THEN -1 ELSE 1)
    ELSE IF Len(a) <= 10 THEN BNnCmpRec(a, b, Len(a))
    ELSE LET i == BNnFindLastDiff(a, b, 1, Len(a))
         IN  IF i = 0 THEN 0 ELSE IF a[i] < b[i] THEN -1 ELSE 1

\* Carry chain over limbs i..hi of a, linear.  mode 0: a + b + c (carry c);
\* mode 1: a - b - c (borrow c); mode 2: a * k + c (carry limb c).
\* Result: exactly hi-i+1 limbs followed by the outgoing carry/borrow.
RECURSIVE BNnChainChunk(_, _, _, _, _, _, _)
BNnChainChunk(mode, a, b, k, i, hi, c) ==
    IF i > hi THEN <<c>>
    ELSE LET v == IF mode = 2 THEN a[i] * k + c
                  ELSE LET bi == IF i <= Len(b) THEN b[i] ELSE 0
                       IN  IF mode = 0 THEN a[i] + bi + c
                           ELSE BNBase + a[i] - bi - c
             co == IF mode = 1 THEN 1 - (v \div BNBase) ELSE v \div BNBase
         IN  <<v % BNBase>> \o BNnChainChunk(mode, a, b, k, i + 1, hi, co)

\* the same by divide and conquer, recursion depth 16 + log2(hi-lo)
RECURSIVE BNnChain(_, _, _, _, _, _, _)
BNnChain(mode, a, b, k, lo, hi, c) ==
    IF hi - lo < 8 THEN BNnChainChunk(mode, a, b, k, lo, hi, c)
    ELSE LET mid == (lo + hi) \div 2
             L == BNnChain(mode, a, b, k, lo, mid, c)
             H == BNnChain(mode, a, b, k, mid + 1, hi, L[Len(L)])
         IN  SubSeq(L, 1, Len(L) - 1) \o H

\* requires Len(a) >= Len(b); c in {0,1}
RECURSIVE BNnAddRec(_, _, _, _)
BNnAddRec(a, b, i, c) ==
    IF i > Len(a) THEN (IF c = 0 THEN <<>> ELSE <<c>>)
    ELSE IF i > Len(b) /\ c = 0 THEN SubSeq(a, i, Len(a))
    ELSE LET s == a[i] + (IF i <= Len(b) THEN b[i] ELSE 0) + c
         IN  IF s >= BNBase
             THEN <<s - BNBase>> \o BNnAddRec(a, b, i + 1, 1)
             ELSE <<s>> \o BNnAddRec(a, b, i + 1, 0)

BNnAddOrd(a, b) ==
    IF Len(a) <= 10 THEN BNnAddRec(a, b, 1, 0)
    ELSE BNnTrim(BNnChain(0, a, b, 0, 1, Len(a), 0))

BNnAdd(a, b) == IF Len(a) >= Len(b) THEN BNnAddOrd(a, b) ELSE BNnAddOrd(b, a)

\* requires a >= b; result may carry high zero limbs
RECURSIVE BNnSubRec(_, _, _, _)
BNnSubRec(a, b, i, br) ==
    IF i > Len(a) THEN <<>>
    ELSE IF i > Len(b) /\ br = 0 THEN SubSeq(a, i, Len(a))
    ELSE LET s == a[i] - (IF i <= Len(b) THEN b[i] ELSE 0) - br
         IN  IF s < 0
             THEN <<s + BNBase>> \o BNnSubRec(a, b, i + 1, 1)
             ELSE <<s>> \o BNnSubRec(a, b, i + 1, 0)

\* a - b for a >= b
BNnSub(a, b) ==
    IF Len(a) <= 10 THEN BNnTrim(BNnSubRec(a, b, 1, 0))
    ELSE BNnTrim(BNnChain(1, a, b, 0, 1, Len(a), 0))

RECURSIVE BNnMulAddRec(_, _, _, _)
BNnMulAddRec(a, s, i, c) ==
    IF i > Len(a) THEN (IF c = 0 THEN <<>> ELSE <<c>>)
    ELSE LET x == a[i] * s + c
         IN  <<x % BNBase>> \o BNnMulAddRec(a, s, i + 1, x \div BNBase)

\* a * s + c for 0 < s < B, 0 <= c < B
BNnMulAdd(a, s, c) ==
    IF Len(a) <= 10 THEN BNnMulAddRec(a, s, 1, c)
    ELSE BNnTrim(BNnChain(2, a, <<>>, s, 1, Len(a), c))

\* a * s for 0 <= s < B
BNnMulSmall(a, s) ==
    IF s = 0 THEN <<>> ELSE IF s = 1 THEN a ELSE BNnMulAdd(a, s, 0)

\* a * (limbs lo..hi of b, taken as a number), a # <<>>
RECURSIVE BNnMulRange(_, _, _, _)
BNnMulRange(a, b, lo, hi) ==
    IF lo = hi THEN BNnMulSmall(a, b[lo])
    ELSE LET mid == (lo + hi) \div 2
             L == BNnMulRange(a, b, lo, mid)
             H == BNnMulRange(a, b, mid + 1, hi)
         IN  IF H = <<>> THEN L
             ELSE BNnAdd(L, [i \in 1..(mid - lo + 1) |-> 0] \o H)

BNnMul(a, b) ==
    IF a = <<>> \/ b = <<>> THEN <<>>
    ELSE IF Len(a) = 1 /\ Len(b) = 1
    THEN LET p == a[1] * b[1]
         IN  IF p < BNBase THEN <<p>> ELSE << p % BNBase, p \div BNBase >>
    ELSE IF Len(a) >= Len(b) THEN BNnMulRange(a, b, 1, Len(b))
    ELSE BNnMulRange(b, a, 1, Len(a))

\* m * 2^k, k >= 0
BNnShl(m, k) ==
    IF m = <<>> \/ k = 0 THEN m
    ELSE LET q == k \div 15
             r == k % 15
             hi == IF r = 0 THEN m ELSE BNnMulAdd(m, BNP2[r + 1], 0)
         IN  IF q = 0 THEN hi ELSE [i \in 1..q |-> 0] \o hi

\* pr = 2^r, pc = 2^(15-r), 0 < r < 15
RECURSIVE BNnShrRec(_, _, _, _)
BNnShrRec(m, pr, pc, i) ==
    IF i > Len(m) THEN <<>>
    ELSE LET x == (m[i] \div pr)
                  + (IF i < Len(m) THEN (m[i + 1] % pr) * pc ELSE 0)
         IN  IF i = Len(m) /\ x = 0 THEN <<>>
             ELSE <<x>> \o BNnShrRec(m, pr, pc, i + 1)

BNnShrLong(m, pr, pc) ==
    LET n == Len(m)
        f == [i \in 1..n |-> (m[i] \div pr)
                             + (IF i < n THEN (m[i + 1] % pr) * pc ELSE 0)]
    IN  BNnTrim(SubSeq(f, 1, n))

\* floor(m / 2^k), k >= 0
BNnShr(m, k) ==
    IF k = 0 THEN m
    ELSE LET q == k \div 15
             r == k % 15
         IN  IF q >= Len(m) THEN <<>>
             ELSE LET m1 == IF q = 0 THEN m ELSE SubSeq(m, q + 1, Len(m))
                  IN  IF r = 0 THEN m1
                      ELSE IF Len(m1) <= 10
                      THEN BNnShrRec(m1, BNP2[r + 1], BNP2[16 - r], 1)
                      ELSE BNnShrLong(m1, BNP2[r + 1], BNP2[16 - r])

\* short division of limbs hi..lo of a by the single limb d, incoming
\* remainder r < d (a TLC integer).
\* Result [q |-> exactly hi-lo+1 limbs, r |-> Nat]
RECURSIVE BNnShortDiv(_, _, _, _, _)
BNnShortDiv(a, d, lo, hi, r) ==
    IF lo = hi
    THEN LET cur == r * BNBase + a[lo]
         IN  [q |-> << cur \div d >>, r |-> cur % d]
    ELSE LET mid == (lo + hi + 1) \div 2
             H == BNnShortDiv(a, d, mid, hi, r)
         IN  \* the (always false) test forces H before the low half asks
             \* for H.r; TLC evaluates LET lazily and would otherwise nest
             \* the demands hi-lo levels deep on the Java stack
             IF H.q = <<>> THEN H
             ELSE LET L == BNnShortDiv(a, d, lo, mid - 1, H.r)
                  IN  [q |-> L.q \o H.q, r |-> L.r]

\* lower the digit estimate qh (p = qh * b) until p <= r; at most 2 steps
RECURSIVE BNnDivCorrect(_, _, _, _)
BNnDivCorrect(r, b, qh, p) ==
    IF BNnCmp(p, r) > 0 THEN BNnDivCorrect(r, b, qh - 1, BNnSub(p, b))
    ELSE [d |-> qh, r |-> BNnSub(r, p)]

\* one quotient digit: r < b * B, b normalised (top limb >= 2^14), Len(b) >= 2
BNnDivDigit(r, b) ==
    IF BNnCmp(r, b) < 0 THEN [d |-> 0, r |-> r]
    ELSE LET n == Len(b)
             top == IF Len(r) > n THEN r[n + 1] * BNBase + r[n] ELSE r[n]
             q0 == top \div b[n]
             qh == IF q0 > BNBase - 1 THEN BNBase - 1 ELSE q0
         IN  BNnDivCorrect(r, b, qh, BNnMulSmall(b, qh))

\* schoolbook long division of limbs hi..lo of a by b, incoming remainder
\* r < b.  Result [q |-> exactly hi-lo+1 limbs, r |-> remainder]
RECURSIVE BNnLongDiv(_, _, _, _, _)
BNnLongDiv(a, b, lo, hi, r) ==
    IF lo = hi
    THEN LET r1 == IF r = <<>> THEN (IF a[lo] = 0 THEN <<>> ELSE << a[lo] >>)
                   ELSE << a[lo] >> \o r
             d == BNnDivDigit(r1, b)
         IN  [q |-> << d.d >>, r |-> d.r]
    ELSE LET mid == (lo + hi + 1) \div 2
             H == BNnLongDiv(a, b, mid, hi, r)
         IN  \* forces H first, see BNnShortDiv
             IF H.q = <<>> THEN H
             ELSE LET L == BNnLongDiv(a, b, lo, mid - 1, H.r)
                  IN  [q |-> L.q \o H.q, r |-> L.r]

\* shift that brings the top limb of a multi-limb divisor to >= 2^14
BNnNormShift(b) == IF Len(b) = 1 THEN 0 ELSE 15 - BNnLimbLen(b[Len(b)])

\* [q |-> floor(a / b), r |-> a mod b] for a divisor b that is a single limb
\* or normalised (BNnNormShift(b) = 0)
BNnDivModN(a, b) ==
    IF BNnCmp(a, b) < 0 THEN [q |-> <<>>, r |-> a]
    ELSE IF Len(b) = 1
    THEN IF b[1] = 1 THEN [q |-> a, r |-> <<>>]
         ELSE LET res == BNnShortDiv(a, b[1], 1, Len(a), 0)
              IN  [q |-> BNnTrim(res.q), r |-> BNnFromInt(res.r)]
    ELSE \* the top Len(b)-1 limbs of a are < b: start with them as remainder
         LET k == Len(a) - Len(b) + 1
             res == BNnLongDiv(a, b, 1, k, SubSeq(a, k + 1, Len(a)))
         IN  [q |-> BNnTrim(res.q), r |-> res.r]

\* [q |-> floor(a / b), r |-> a mod b] for b # <<>>
BNnDivMod(a, b) ==
    LET s == BNnNormShift(b)
    IN  IF s = 0 THEN BNnDivModN(a, b)
        ELSE LET res == BNnDivModN(BNnShl(a, s), BNnShl(b, s))
             IN  [q |-> res.q, r |-> BNnShr(res.r, s)]

\* the low j bits of m are all zero
BNnLowZero(m, j) ==
    LET q == j \div 15
        r == j % 15
    IN  /\ \A i \in 1..(IF q < Len(m) THEN q ELSE Len(m)) : m[i] = 0
        /\ (r = 0 \/ q >= Len(m) \/ m[q + 1] % BNP2[r + 1] = 0)

\* 5^n
RECURSIVE BNnPow5(_)
BNnPow5(n) ==
    IF n < 6 THEN << BNP5[n + 1] >>
    ELSE IF n < 12 THEN BNnMulSmall(<< BNP5[n - 5] >>, 15625)
    ELSE LET h == BNnPow5(n \div 2)
             sq == BNnMul(h, h)
         IN  IF n % 2 = 0 THEN sq ELSE BNnMulSmall(sq, 5)

\* decimal digits lo..hi (most significant first) as a TLC natural; at most
\* 9 digits
RECURSIVE BNnDigitsNat(_, _, _, _)
BNnDigitsNat(ds, i, hi, acc) ==
    IF i > hi THEN acc ELSE BNnDigitsNat(ds, i + 1, hi, acc * 10 + ds[i])

\* value of decimal digits lo..hi (most significant first)
RECURSIVE BNnFromDigits(_, _, _)
BNnFromDigits(ds, lo, hi) ==
    IF hi - lo < 9 THEN BNnFromInt(BNnDigitsNat(ds, lo, hi, 0))
    ELSE LET mid == (lo + hi) \div 2
             k == hi - mid
             H == BNnFromDigits(ds, lo, mid)
             L == BNnFromDigits(ds, mid + 1, hi)
         IN  BNnAdd(BNnShl(BNnMul(H, BNnPow5(k)), k), L)

-----------------------------------------------------------------------------
(* Dyadic rationals                                                        *)

BNZero == [neg |-> FALSE, m |-> <<>>, e |-> 0]
BNOne  == [neg |-> FALSE, m |-> <<1>>, e |-> 0]

\* normalise (neg, limbs possibly with high zeros / even, e)
BNMk(neg, m, e) ==
    LET t == BNnTrim(m)
    IN  IF t = <<>> THEN BNZero
        ELSE IF t[1] % 2 = 1 THEN [neg |-> neg, m |-> t, e |-> e]
        ELSE LET z == BNnTZ(t)
             IN  [neg |-> neg, m |-> BNnShr(t, z), e |-> e + z]

\* s * 2^e for a TLC integer s, |s| < 2^31
BNFromIntExp(s, e) ==
    IF s = 0 THEN BNZero
    ELSE IF s < 0 THEN BNMk(TRUE, BNnFromInt(-s), e)
    ELSE BNMk(FALSE, BNnFromInt(s), e)

BN(i) == BNFromIntExp(i, 0)

BNIsZero(a) == a.m = <<>>

BNSign(a) == IF a.m = <<>> THEN 0 ELSE IF a.neg THEN -1 ELSE 1

BNNeg(a) == IF a.m = <<>> THEN a ELSE [a EXCEPT !.neg = ~@]

BNAbs(a) == IF a.neg THEN [a EXCEPT !.neg = FALSE] ELSE a

BNBitLen(a) == BNnBitLen(a.m)

\* compare |a| and |b|, both non-zero
BNMagCmp(a, b) ==
    IF a.e = b.e THEN BNnCmp(a.m, b.m)
    ELSE LET ta == BNnBitLen(a.m) + a.e
             tb == BNnBitLen(b.m) + b.e
         IN  IF ta # tb THEN (IF ta < tb THEN -1 ELSE 1)
             ELSE IF a.e > b.e THEN BNnCmp(BNnShl(a.m, a.e - b.e), b.m)
             ELSE BNnCmp(a.m, BNnShl(b.m, b.e - a.e))

BNCmp(a, b) ==
    LET sa == BNSign(a)
        sb == BNSign(b)
    IN  IF sa # sb THEN (IF sa < sb THEN -1 ELSE 1)
        ELSE IF sa = 0 THEN 0
        ELSE IF sa > 0 THEN BNMagCmp(a, b)
        ELSE BNMagCmp(b, a)

BNAdd(a, b) ==
    IF a.m = <<>> THEN b
    ELSE IF b.m = <<>> THEN a
    ELSE LET e == IF a.e < b.e THEN a.e ELSE b.e
             da == a.e - e
             db == b.e - e
         IN  IF /\ Len(a.m) <= 2 /\ Len(b.m) <= 2
                /\ BNnBitLen(a.m) + da <= 30 /\ BNnBitLen(b.m) + db <= 30
             THEN \* native fast path: both terms < 2^30
                  LET x == BNnToInt(a.m) * BNP2[da + 1]
                      y == BNnToInt(b.m) * BNP2[db + 1]
                  IN  BNFromIntExp((IF a.neg THEN -x ELSE x)
                                   + (IF b.neg THEN -y ELSE y), e)
             ELSE LET ma == BNnShl(a.m, da)
                      mb == BNnShl(b.m, db)
                  IN  IF a.neg = b.neg THEN BNMk(a.neg, BNnAdd(ma, mb), e)
                      ELSE LET c == BNnCmp(ma, mb)
                           IN  IF c = 0 THEN BNZero
                               ELSE IF c > 0
                               THEN BNMk(a.neg, BNnSub(ma, mb), e)
                               ELSE BNMk(b.neg, BNnSub(mb, ma), e)

BNSub(a, b) == BNAdd(a, BNNeg(b))

\* the product of odd magnitudes is odd: no normalisation needed
BNMul(a, b) ==
    IF a.m = <<>> \/ b.m = <<>> THEN BNZero
    ELSE [neg |-> a.neg # b.neg, m |-> BNnMul(a.m, b.m), e |-> a.e + b.e]

BNMul2k(a, k) == IF a.m = <<>> THEN a ELSE [a EXCEPT !.e = @ + k]

BNIsInt(a) == a.e >= 0

\* |a| rounded to an integer magnitude; only called with a.e < 0 (so a is
\* not an integer, M being odd).  mode: "t" trunc, "u" away from zero,
\* "a" half away, "e" half even.  A tie happens exactly when a.e = -1.
BNRoundMag(a, mode) ==
    LET k == -a.e
        t == BNnShr(a.m, k)
        up == CASE mode = "t" -> FALSE
                [] mode = "u" -> TRUE
                [] mode = "a" -> BNnBit(a.m, k - 1) = 1
                [] mode = "e" -> IF k = 1 THEN BNnIsOdd(t)
                                 ELSE BNnBit(a.m, k - 1) = 1
    IN  BNMk(a.neg, IF up THEN BNnAdd(t, <<1>>) ELSE t, 0)

BNTrunc(a) == IF a.e >= 0 THEN a ELSE BNRoundMag(a, "t")

BNFloor(a) ==
    IF a.e >= 0 THEN a ELSE BNRoundMag(a, IF a.neg THEN "u" ELSE "t")

BNCeil(a) ==
    IF a.e >= 0 THEN a ELSE BNRoundMag(a, IF a.neg THEN "t" ELSE "u")

BNRoundHalfAway(a) == IF a.e >= 0 THEN a ELSE BNRoundMag(a, "a")

BNRoundHalfEven(a) == IF a.e >= 0 THEN a ELSE BNRoundMag(a, "e")

BNFitsInt32(a) ==
    /\ a.e >= 0
    /\ \/ BNnBitLen(a.m) + a.e <= 31
       \/ (a.neg /\ a.m = <<1>> /\ a.e = 31)

BNFitsInt64(a) ==
    /\ a.e >= 0
    /\ \/ BNnBitLen(a.m) + a.e <= 63
       \/ (a.neg /\ a.m = <<1>> /\ a.e = 63)

\* precondition: a integer-valued, |a| < 2^31
BNToInt(a) ==
    LET v == BNnToInt(a.m) * BNP2[a.e + 1]
    IN  IF a.neg THEN -v ELSE v

\* a is an integer with |a| < 2^30 (then BNnToInt(a.m) * BNP2[a.e + 1] is
\* its magnitude as a TLC integer)
BNIsSmallInt(a) == a.e >= 0 /\ Len(a.m) <= 2 /\ BNnBitLen(a.m) + a.e <= 30

\* truncated quotient of integer-valued a, b (b # 0)
BNQuoTrunc(a, b) ==
    IF a.m = <<>> THEN BNZero
    ELSE IF BNIsSmallInt(a) /\ BNIsSmallInt(b)
    THEN LET q == (BNnToInt(a.m) * BNP2[a.e + 1])
                  \div (BNnToInt(b.m) * BNP2[b.e + 1])
         IN  BNFromIntExp(IF a.neg # b.neg THEN -q ELSE q, 0)
    ELSE IF BNMagCmp(a, b) < 0 THEN BNZero
    ELSE LET d == IF a.e < b.e THEN a.e ELSE b.e
             dm == BNnDivMod(BNnShl(a.m, a.e - d), BNnShl(b.m, b.e - d))
         IN  BNMk(a.neg # b.neg, dm.q, 0)

\* a - trunc(a/b)*b for any dyadic a, b (b # 0); sign of a
BNFMod(a, b) ==
    IF a.m = <<>> THEN BNZero
    ELSE IF BNIsSmallInt(a) /\ BNIsSmallInt(b)
    THEN LET r == (BNnToInt(a.m) * BNP2[a.e + 1])
                  % (BNnToInt(b.m) * BNP2[b.e + 1])
         IN  BNFromIntExp(IF a.neg THEN -r ELSE r, 0)
    ELSE IF BNMagCmp(a, b) < 0 THEN a
    ELSE LET d == IF a.e < b.e THEN a.e ELSE b.e
             dm == BNnDivMod(BNnShl(a.m, a.e - d), BNnShl(b.m, b.e - d))
         IN  BNMk(a.neg, dm.r, d)

BNRem(a, b) == BNFMod(a, b)

BNInf(neg) == [inf |-> TRUE, neg |-> neg]

BNIsDouble(a) ==
    \/ a.m = <<>>
    \/ LET bl == BNnBitLen(a.m)
       IN  bl <= 53 /\ a.e >= -1074 /\ bl + a.e <= 1024

\* Nearest finite binary64 (ties to even, BNInf(neg) on overflow) of
\*   (-1)^neg * (m + f) * 2^e ,  m # <<>> without high zero limbs (any parity),
\* where f = 0 if ~sticky and 0 < f < 1 if sticky.
\* Precondition: sticky => m has at least 55 bits.
BNRoundMagToDouble(neg, m, e, sticky) ==
    LET top == BNnBitLen(m) + e            \* 2^(top-1) <= magnitude < 2^top
        lsb == IF top - 53 > -1074 THEN top - 53 ELSE -1074
    IN  IF e >= lsb                        \* exactly representable
        THEN (IF top > 1024 THEN BNInf(neg) ELSE BNMk(neg, m, e))
        ELSE LET k == lsb - e              \* bits to drop, k >= 1
                 t == BNnShr(m, k)
                 up == /\ BNnBit(m, k - 1) = 1
                       /\ (sticky \/ BNnIsOdd(t) \/ ~BNnLowZero(m, k - 1))
                 r == BNMk(neg, IF up THEN BNnAdd(t, <<1>>) ELSE t, lsb)
             IN  IF r.m # <<>> /\ BNnBitLen(r.m) + r.e > 1024
                 THEN BNInf(neg) ELSE r

\* nearest finite binary64, ties to even; BNInf(neg) on overflow
BNRoundToDouble(a) ==
    IF a.m = <<>> THEN a ELSE BNRoundMagToDouble(a.neg, a.m, a.e, FALSE)

\* correctly rounded binary64 quotient a / b (b # 0) of any two dyadic
\* rationals; BNInf(neg) on overflow.  Long division to >= 56 quotient
\* bits plus a sticky flag, then one rounding.
BNDivToDouble(a, b) ==
    IF a.m = <<>> THEN BNZero
    ELSE IF b.m = <<1>>
    THEN BNRoundMagToDouble(a.neg # b.neg, a.m, a.e - b.e, FALSE)
    ELSE LET need == 56 + BNnBitLen(b.m) - BNnBitLen(a.m)
             s == IF need > 0 THEN need ELSE 0
             nb == BNnNormShift(b.m)
             dm == BNnDivModN(BNnShl(a.m, s + nb), BNnShl(b.m, nb))
         IN  BNRoundMagToDouble(a.neg # b.neg, dm.q, a.e - b.e - s,
                                dm.r # <<>>)

BNIsRoundedQuotient(a, b, q) == BNDivToDouble(a, b) = q

BNPow10(n) == [neg |-> FALSE, m |-> BNnPow5(n), e |-> n]

\* (-1)^neg * D * 10^exp10, digits most significant first, exp10 \in Nat
BNFromDecimal(neg, digits, exp10) ==
    LET d == BNnFromDigits(digits, 1, Len(digits))
    IN  IF exp10 = 0 THEN BNMk(neg, d, 0)
        ELSE BNMk(neg, BNnMul(d, BNnPow5(exp10)), exp10)

=============================================================================
