------------------------------- MODULE MC_C07 -------------------------------
(* C07: lax mode absorbs structural mismatches, strict mode reports each    *)
(* one.  Universe: accessor/filter chains x all small JSON trees x modes.   *)
(* Law on the specification: the continuation-style rules (PathSem) agree   *)
(* with the level-at-a-time oracle that does not stop at a mismatch:        *)
(*   lax    : no error, same items;                                         *)
(*   strict : a suppressible error exactly when the oracle met a mismatch,  *)
(*            else the same items.                                          *)
EXTENDS ExecLaws, Universe, Oracles, SequencesExt, Json

CONSTANTS MaxSteps, MaxNodes

Steps ==
  { NKey(KA), NKey(KB), NAnyKey, NAnyArr, NAny(0, -1), NAny(1, 1),
    NIdx(<<Sub1(Lit(0))>>), NIdx(<<Sub1(Lit(1))>>), NIdx(<<Sub1(<<NLast>>)>>),
    NIdx(<<Sub2(Lit(0), Lit(1))>>), NIdx(<<Sub1(Lit(0)), Sub1(Lit(1))>>),
    NIdx(<<Sub1(Lit(1)), Sub1(Lit(0))>>), NIdx(<<Sub2(LastMinus(1), <<NLast>>)>>),
    NIdx(<<Sub2(Lit(1), Lit(0))>>), NIdx(<<Sub2(<<NLast>>, Lit(0))>>),          \* reversed ranges whose upper bound lies inside the array
    NFilter(NBin("eq", <<NCur, NKey(KA)>>, Lit(1))),
    NFilter(NUn("exists", <<NCur, NKey(KB)>>)),
    NFilter(NBin("gt", <<NCur, NAnyArr>>, Lit(0))),
    (* exists over a subscript list / range followed by a filter: a hit followed by a miss and *)
    (* a miss followed by a hit (the status of the last element visited must not decide)      *)
    NFilter(NUn("exists", <<NCur, NIdx(<<Sub1(Lit(0)), Sub1(Lit(1))>>), NFilter(NBin("gt", <<NCur>>, Lit(0)))>>)),
    NFilter(NUn("exists", <<NCur, NIdx(<<Sub2(Lit(0), Lit(1))>>), NFilter(NBin("gt", <<NCur>>, Lit(0)))>>)) }

(* three-step shapes that need all three steps to show a difference: a step  *)
(* below .** whose leniency must survive an intermediate wildcard/subscript  *)
Below == {<<NRoot, a, w, k>> : a \in {NAny(0, -1), NAny(1, 1)},
                               w \in {NAnyArr, NAnyKey, NFilter(NUn("exists", <<NCur, NKey(KB)>>))},
                               k \in {NKey(KA), NKey(KB), NAnyKey}}
PathSeq == SetToSeq({<<NRoot>> \o s : s \in SeqsUpTo(Steps, MaxSteps)} \cup Below)

Scalars == {VNull, VTrue, VFlt(1), VStr(KX)}
(* arrays of length 3 with one ill-shaped element at each position *)
Good == VObj(<<[k |-> KA, v |-> VFlt(1)]>>)
Ill  == {VFlt(1), VObj(<<[k |-> KB, v |-> VFlt(2)]>>), VArr(<<>>), VArr(<<Good>>)}
Placed == {VArr([j \in 1..3 |-> IF j = p THEN x ELSE Good]) : p \in 1..3, x \in Ill}
(* array-valued members reached through .* after an array was unwrapped: the step after .* unwraps again *)
Deep == { VArr(<<VObj(<<[k |-> KB, v |-> VArr(<<Good>>)]>>)>>), VObj(<<[k |-> KB, v |-> VArr(<<Good>>)]>>),
          VArr(<<VObj(<<[k |-> KB, v |-> VArr(<<VFlt(1), Good>>)]>>), Good>>) }
DocSeq == SetToSeq(TreesUpTo(Scalars, <<KA, KB>>, MaxNodes) \cup Placed \cup Deep)

ASSUME ndJsonSerialize("paths.ndjson", [i \in 1..Len(PathSeq) |-> [pred |-> FALSE, chain |-> PathSeq[i]]])
ASSUME ndJsonSerialize("docs.ndjson", [i \in 1..Len(DocSeq) |-> [doc |-> DocSeq[i]]])
ASSUME PrintT(<<"UNIVERSE", Len(PathSeq), Len(DocSeq)>>)

VARIABLES pi, di, lax

CaseAt(p, d, lx) ==
  [path |-> [lax |-> lx, pred |-> FALSE, chain |-> PathSeq[p]], doc |-> DocSeq[d], vars |-> <<>>,
   silent |-> FALSE, useTZ |-> FALSE, zone |-> "UTC"]

Law_C07(c) ==
  LET r == Eval(c, Par0)
      (* a filter condition sees the leniency of its position (below .** structural errors are skipped) *)
      P(p, v, len) == Bool(p, v, [EnvOf(c, Par0) EXCEPT !.cur = v, !.lenient = len \/ c.path.lax], St0).val = "T"
      o == LevelSem(P, c.path.chain, c.doc, c.path.lax)
  IN \/ r.err = "opaque"
     \/ /\ c.path.lax => r.err = "none"
        /\ r.err \in {"none", "verbose"}
        /\ ~c.path.lax => (r.err = "verbose" <=> o.mis)
        /\ r.err = "none" => r.items = o.items

(* Two levels so that TLC's workers share the evaluation: initial states are *)
(* generated sequentially, successors in parallel.                          *)
Init == pi \in 1..Len(PathSeq) /\ di = 0 /\ lax \in BOOLEAN
Step == di = 0 /\ di' \in 1..Len(DocSeq) /\ UNCHANGED <<pi, lax>>
Inv == di = 0 \/ Law_C07(CaseAt(pi, di, lax))
=============================================================================
