------------------------------- MODULE Regex -------------------------------
(* like_regex: the pattern fragment the specification decides.              *)
(* flags = [i, s, m, q, x] (BOOLEANs).  RegexMatch returns "T", "F" or     *)
(* "opaque" (pattern or subject outside the fragment).                      *)
(*                                                                          *)
(* The library evaluates  s like_regex "pat" flag "f"  as Go                *)
(*   regexp.MustCompile(prefix + pattern).MatchString(s)                    *)
(* with pattern = QuoteMeta(pat), prefix = "(?i)" or "" under flag q, and   *)
(* pattern = pat, prefix = "(?" i s m ")" (or "") otherwise.  MatchString   *)
(* is an unanchored search, so only the language of the pattern matters.    *)
(*                                                                          *)
(* Decided here:                                                            *)
(*   - flag q, and patterns without any meta byte: byte substring search    *)
(*     (ASCII case folding under flag i, non-ASCII with i is opaque; a      *)
(*     non-ASCII pattern needs pattern and subject to be well-formed UTF-8);*)
(*   - otherwise an ASCII fragment of RE2 (pattern and subject bytes < 128, *)
(*     pattern up to RxMaxPat bytes, subject up to RxMaxSubj bytes):        *)
(*     literals, dot, escaped punctuation, \d \D \w \W \s \S, \n \t \r \f   *)
(*     \v \a, classes [..] [^..] with ranges / escapes / Perl classes,      *)
(*     groups ( ) and (?: ), alternation, * + ? {n} {n,} {n,m} (n, m <= 4)  *)
(*     and their lazy forms, ^ $ \A \z \b \B, flags i s m.                  *)
(* Everything else -- in particular every pattern Go rejects, and flag x     *)
(* without q, which the path parser rejects -- is "opaque".                 *)
(* RxPatternClass tells "valid" / "invalid" / "opaque" for a pattern alone, *)
(* RxWhyOpaque the reason of an "opaque".  Validated against Go's regexp by *)
(* tests/regex (run.sh).  All names added for the matcher start with Rx.    *)
EXTENDS Integers, Sequences

FoldB(b) == IF b >= 65 /\ b <= 90 THEN b + 32 ELSE b
FoldBytes(s) == [i \in 1..Len(s) |-> FoldB(s[i])]

RECURSIVE HasSubFrom(_, _, _)
HasSubFrom(s, p, i) ==
  IF i + Len(p) - 1 > Len(s) THEN FALSE
  ELSE IF SubSeq(s, i, i + Len(p) - 1) = p THEN TRUE
  ELSE HasSubFrom(s, p, i + 1)
HasSub(s, p) == HasSubFrom(s, p, 1)

MetaBytes == {92, 46, 43, 42, 63, 40, 41, 124, 91, 93, 123, 125, 94, 36}
IsLiteralPattern(p) == \A i \in 1..Len(p) : p[i] \notin MetaBytes
IsAscii(s) == \A i \in 1..Len(s) : s[i] < 128

TF(b) == IF b THEN "T" ELSE "F"

-----------------------------------------------------------------------------
\* Byte sets.  The subject is ASCII whenever these are used.

RxAll   == 0..127
RxDigit == 48..57
RxAlnum == (48..57) \cup (65..90) \cup (97..122)
RxWord  == RxAlnum \cup {95}
RxSpace == {9, 10, 12, 13, 32}              \* \s is [\t\n\f\r ], no \v

RxSwap(b) == IF b >= 65 /\ b <= 90 THEN b + 32
             ELSE IF b >= 97 /\ b <= 122 THEN b - 32 ELSE b
\* (?i): a set matches a byte when it contains the byte or its other case
RxFoldSet(cs, f) == IF f.i THEN cs \cup {RxSwap(b) : b \in cs} ELSE cs

-----------------------------------------------------------------------------
\* Parser.  Results: [ok |-> TRUE, node, pos]  (pos = next unread index) or
\* [ok |-> FALSE, why]  with why = "invalid" (Go rejects the pattern) or the
\* reason why the pattern is outside the fragment (Go may accept or reject it):
\* "nonascii", "escape" (octal, hex, \p, \Q, \C, unknown letters), "group"
\* (anything after an opening parenthesis and question mark but a colon),
\* "count" (a repetition count above 4 or of several digits), "posix"
\* ([:alpha:] ...), "depth" (counted repetitions nested more than 4 deep).
\* RxWhyOpaque adds "flagx", "utf8" and "long".
\* Nodes (field k is the kind):
\*   set(cs)  empty  cat(a, b)  alt(a, b)  star(x)  plus(x)  opt(x)
\*   rep(x, lo, hi)  (hi = -1: unbounded)   bot eot bol eol wb nwb

RxBad(why)      == [ok |-> FALSE, why |-> why]
RxOk(node, pos) == [ok |-> TRUE, node |-> node, pos |-> pos]

RxSetNode(cs) == [k |-> "set", cs |-> cs]
RxEmptyNode   == [k |-> "empty"]

RxIsPerl(e) == e \in {100, 68, 119, 87, 115, 83}         \* d D w W s S
RxPerl(e) == CASE e = 100 -> RxDigit  [] e = 68 -> RxAll \ RxDigit
               [] e = 119 -> RxWord   [] e = 87 -> RxAll \ RxWord
               [] e = 115 -> RxSpace  [] e = 83 -> RxAll \ RxSpace

\* The byte an escape \e denotes as a single character; -1: not in the
\* fragment (octal, hex, \p, \Q, \C ... or an escape Go rejects).  Go takes
\* every escaped ASCII byte that is not a letter or digit as itself.
RxEscChar(e) ==
  IF e >= 128 THEN -1
  ELSE IF e \notin RxAlnum THEN e
  ELSE CASE e = 110 -> 10 [] e = 116 -> 9  [] e = 114 -> 13
         [] e = 102 -> 12 [] e = 118 -> 11 [] e = 97 -> 7 [] OTHER -> -1

RxIsDigitAt(p, k) == k <= Len(p) /\ p[k] >= 48 /\ p[k] <= 57

\* p[pos] is an opening brace.  [t |-> "no"] the brace is a literal (Go's rule:
\* whatever does not parse as a repetition is literal text);
\* [t |-> "big"] a number of two or more digits (not handled);
\* [t |-> "rep", lo, hi, pos] a repetition, pos the index after the closing brace.
RxRepeatAt(p, pos) ==
  LET n == Len(p) IN
  IF ~RxIsDigitAt(p, pos + 1) THEN [t |-> "no"]
  ELSE IF RxIsDigitAt(p, pos + 2) THEN [t |-> "big"]
  ELSE IF pos + 2 > n THEN [t |-> "no"]
  ELSE LET lo == p[pos + 1] - 48 IN
       IF p[pos + 2] = 125 THEN [t |-> "rep", lo |-> lo, hi |-> lo, pos |-> pos + 3]
       ELSE IF p[pos + 2] # 44 \/ pos + 3 > n THEN [t |-> "no"]
       ELSE IF p[pos + 3] = 125 THEN [t |-> "rep", lo |-> lo, hi |-> -1, pos |-> pos + 4]
       ELSE IF ~RxIsDigitAt(p, pos + 3) THEN [t |-> "no"]
       ELSE IF RxIsDigitAt(p, pos + 4) THEN [t |-> "big"]
       ELSE IF pos + 4 > n \/ p[pos + 4] # 125 THEN [t |-> "no"]
       ELSE [t |-> "rep", lo |-> lo, hi |-> p[pos + 3] - 48, pos |-> pos + 5]

\* What follows a repetition operator, at pos: "invalid" when another
\* repetition operator starts there (Go rejects a** a+? * a{2}{2} ...),
\* "count" when that cannot be told, else "ok".
RxAfterRep(p, pos) ==
  IF pos > Len(p) THEN "ok"
  ELSE IF p[pos] \in {42, 43, 63} THEN "invalid"
  ELSE IF p[pos] # 123 THEN "ok"
  ELSE LET t == RxRepeatAt(p, pos).t IN
       IF t = "rep" THEN "invalid" ELSE IF t = "big" THEN "count" ELSE "ok"

\* The items of a bracket expression from q on; first: a closing bracket here is a literal.
\* [ok |-> TRUE, cs, pos] with pos the index after the closing bracket.
RECURSIVE RxClassItems(_, _, _, _)
RxClassItems(p, q, first, acc) ==
  IF q > Len(p) THEN RxBad("invalid")                        \* missing closing bracket
  ELSE LET c == p[q] IN
  IF c = 93 /\ ~first THEN [ok |-> TRUE, cs |-> acc, pos |-> q + 1]
  ELSE IF c >= 128 THEN RxBad("nonascii")
  ELSE IF c = 91 /\ q + 1 <= Len(p) /\ p[q + 1] = 58 THEN RxBad("posix")   \* [:alpha:]
  ELSE IF c = 92 /\ q + 1 > Len(p) THEN RxBad("invalid")     \* trailing backslash
  ELSE IF c = 92 /\ RxIsPerl(p[q + 1]) THEN RxClassItems(p, q + 2, FALSE, acc \cup RxPerl(p[q + 1]))
  ELSE LET lo == IF c = 92 THEN RxEscChar(p[q + 1]) ELSE c
           a  == IF c = 92 THEN q + 2 ELSE q + 1             \* index after lo
       IN IF lo < 0 THEN RxBad("escape")
          ELSE IF a + 1 <= Len(p) /\ p[a] = 45 /\ p[a + 1] # 93 THEN   \* a range lo-hi
             LET h == p[a + 1] IN
             IF h = 92 THEN
                IF a + 2 > Len(p) THEN RxBad("invalid")
                ELSE LET hi == RxEscChar(p[a + 2]) IN
                     IF hi < 0 THEN RxBad("escape")
                     ELSE IF hi < lo THEN RxBad("invalid")
                     ELSE RxClassItems(p, a + 3, FALSE, acc \cup (lo..hi))
             ELSE IF h >= 128 THEN RxBad("nonascii")
             ELSE IF h < lo THEN RxBad("invalid")
             ELSE RxClassItems(p, a + 2, FALSE, acc \cup (lo..h))
          ELSE RxClassItems(p, a, FALSE, acc \cup {lo})

\* p[pos] is the opening bracket
RxClass(p, pos, f) ==
  LET neg == pos + 1 <= Len(p) /\ p[pos + 1] = 94
      r   == RxClassItems(p, IF neg THEN pos + 2 ELSE pos + 1, TRUE, {})
  IN IF ~r.ok THEN r
     ELSE LET cs == RxFoldSet(r.cs, f)
          IN RxOk(RxSetNode(IF neg THEN RxAll \ cs ELSE cs), r.pos)

\* p[pos] is a backslash, outside brackets
RxEscape(p, pos, f) ==
  IF pos + 1 > Len(p) THEN RxBad("invalid")                  \* trailing backslash
  ELSE LET e == p[pos + 1] IN
       IF e = 65 THEN RxOk([k |-> "bot"], pos + 2)
       ELSE IF e = 122 THEN RxOk([k |-> "eot"], pos + 2)
       ELSE IF e = 98 THEN RxOk([k |-> "wb"], pos + 2)
       ELSE IF e = 66 THEN RxOk([k |-> "nwb"], pos + 2)
       ELSE IF RxIsPerl(e) THEN RxOk(RxSetNode(RxPerl(e)), pos + 2)
       ELSE LET b == RxEscChar(e) IN
            IF b < 0 THEN RxBad("escape") ELSE RxOk(RxSetNode(RxFoldSet({b}, f)), pos + 2)

\* an optional repetition operator at pos applied to node
RxQuant(p, node, pos) ==
  IF pos > Len(p) THEN RxOk(node, pos)
  ELSE LET c == p[pos] IN
  IF c \in {42, 43, 63} THEN
     LET np == IF pos + 1 <= Len(p) /\ p[pos + 1] = 63 THEN pos + 2 ELSE pos + 1   \* lazy: same language
         after == RxAfterRep(p, np)
     IN IF after # "ok" THEN RxBad(after)
        ELSE RxOk([k |-> IF c = 42 THEN "star" ELSE IF c = 43 THEN "plus" ELSE "opt", x |-> node], np)
  ELSE IF c = 123 THEN
     LET r == RxRepeatAt(p, pos) IN
     IF r.t = "no" THEN RxOk(node, pos)                      \* literal brace, the next atom
     ELSE IF r.t = "big" THEN RxBad("count")
     ELSE IF r.hi >= 0 /\ r.lo > r.hi THEN RxBad("invalid")
     ELSE LET np == IF r.pos <= Len(p) /\ p[r.pos] = 63 THEN r.pos + 1 ELSE r.pos
              after == RxAfterRep(p, np)
          IN IF after # "ok" THEN RxBad(after)
             ELSE IF r.lo > 4 \/ r.hi > 4 THEN RxBad("count")
             ELSE RxOk([k |-> "rep", x |-> node, lo |-> r.lo, hi |-> r.hi], np)
  ELSE RxOk(node, pos)

RECURSIVE RxParseAlt(_, _, _), RxParseCat(_, _, _), RxParseAtom(_, _, _)

\* alternation: stops at a closing parenthesis or at the end
RxParseAlt(p, pos, f) ==
  LET c == RxParseCat(p, pos, f) IN
  IF ~c.ok THEN c
  ELSE IF c.pos <= Len(p) /\ p[c.pos] = 124 THEN
     LET r == RxParseAlt(p, c.pos + 1, f) IN
     IF ~r.ok THEN r ELSE RxOk([k |-> "alt", a |-> c.node, b |-> r.node], r.pos)
  ELSE c

\* concatenation: stops at a bar, a closing parenthesis or at the end
RxParseCat(p, pos, f) ==
  IF pos > Len(p) \/ p[pos] = 124 \/ p[pos] = 41 THEN RxOk(RxEmptyNode, pos)
  ELSE LET a == RxParseAtom(p, pos, f) IN
       IF ~a.ok THEN a
       ELSE LET q == RxQuant(p, a.node, a.pos) IN
            IF ~q.ok THEN q
            ELSE LET r == RxParseCat(p, q.pos, f) IN
                 IF ~r.ok THEN r
                 ELSE IF r.node.k = "empty" THEN RxOk(q.node, r.pos)
                 ELSE RxOk([k |-> "cat", a |-> q.node, b |-> r.node], r.pos)

RxParseAtom(p, pos, f) ==
  LET c == p[pos] IN
  IF c >= 128 THEN RxBad("nonascii")
  ELSE IF c = 40 THEN                                        \* group
     LET q == pos + 1 <= Len(p) /\ p[pos + 1] = 63 IN
     IF q /\ ~(pos + 2 <= Len(p) /\ p[pos + 2] = 58) THEN RxBad("group")   \* (?i) (?P<n> ...
     ELSE LET r == RxParseAlt(p, IF q THEN pos + 3 ELSE pos + 1, f) IN
          IF ~r.ok THEN r
          ELSE IF r.pos > Len(p) THEN RxBad("invalid")       \* missing closing parenthesis
          ELSE RxOk(r.node, r.pos + 1)
  ELSE IF c = 91 THEN RxClass(p, pos, f)
  ELSE IF c = 92 THEN RxEscape(p, pos, f)
  ELSE IF c \in {42, 43, 63} THEN RxBad("invalid")           \* missing argument to repetition
  ELSE IF c = 123 THEN
     LET r == RxRepeatAt(p, pos) IN
     IF r.t = "no" THEN RxOk(RxSetNode({123}), pos + 1)
     ELSE IF r.t = "big" THEN RxBad("count") ELSE RxBad("invalid")
  ELSE IF c = 46 THEN RxOk(RxSetNode(IF f.s THEN RxAll ELSE RxAll \ {10}), pos + 1)
  ELSE IF c = 94 THEN RxOk([k |-> IF f.m THEN "bol" ELSE "bot"], pos + 1)
  ELSE IF c = 36 THEN RxOk([k |-> IF f.m THEN "eol" ELSE "eot"], pos + 1)
  ELSE RxOk(RxSetNode(RxFoldSet({c}, f)), pos + 1)

\* nesting depth of counted repetitions (Go limits the product of the counts to 1000)
RECURSIVE RxRepDepth(_)
RxRepDepth(n) ==
  IF n.k \in {"cat", "alt"} THEN
     LET a == RxRepDepth(n.a)  b == RxRepDepth(n.b) IN IF a > b THEN a ELSE b
  ELSE IF n.k \in {"star", "plus", "opt"} THEN RxRepDepth(n.x)
  ELSE IF n.k = "rep" THEN 1 + RxRepDepth(n.x)
  ELSE 0

RxParse(p, f) ==
  LET r == RxParseAlt(p, 1, f) IN
  IF ~r.ok THEN r
  ELSE IF r.pos <= Len(p) THEN RxBad("invalid")              \* unmatched closing parenthesis
  ELSE IF RxRepDepth(r.node) > 4 THEN RxBad("depth")
  ELSE r

-----------------------------------------------------------------------------
\* Matcher.  Positions are 0..Len(s) (position q is between s[q] and s[q+1]).
\* RxEnds(n, s, P): the positions where a match of n can end when it starts
\* at some position of P.

RxWordAt(s, k) == k >= 1 /\ k <= Len(s) /\ s[k] \in RxWord

RECURSIVE RxEnds(_, _, _), RxStarLoop(_, _, _, _), RxTimes(_, _, _, _), RxUpTo(_, _, _, _)

RxEnds(n, s, P) ==
  IF P = {} THEN {}
  ELSE CASE n.k = "set"   -> {q + 1 : q \in {r \in P : r < Len(s) /\ s[r + 1] \in n.cs}}
         [] n.k = "cat"   -> RxEnds(n.b, s, RxEnds(n.a, s, P))
         [] n.k = "alt"   -> RxEnds(n.a, s, P) \cup RxEnds(n.b, s, P)
         [] n.k = "star"  -> RxStarLoop(n.x, s, P, P)
         [] n.k = "plus"  -> LET Q == RxEnds(n.x, s, P) IN RxStarLoop(n.x, s, Q, Q)
         [] n.k = "opt"   -> P \cup RxEnds(n.x, s, P)
         [] n.k = "rep"   -> LET Q == RxTimes(n.x, s, P, n.lo)
                             IN IF n.hi < 0 THEN RxStarLoop(n.x, s, Q, Q)
                                ELSE RxUpTo(n.x, s, Q, n.hi - n.lo)
         [] n.k = "empty" -> P
         [] n.k = "bot"   -> P \cap {0}
         [] n.k = "eot"   -> P \cap {Len(s)}
         [] n.k = "bol"   -> {q \in P : q = 0 \/ s[q] = 10}
         [] n.k = "eol"   -> {q \in P : q = Len(s) \/ s[q + 1] = 10}
         [] n.k = "wb"    -> {q \in P : RxWordAt(s, q) # RxWordAt(s, q + 1)}
         [] n.k = "nwb"   -> {q \in P : RxWordAt(s, q) = RxWordAt(s, q + 1)}

\* x*: closure; acc = everything reached so far, fr = the part not yet expanded.
\* An iteration that consumes nothing adds nothing, so this terminates.
RxStarLoop(x, s, acc, fr) ==
  IF fr = {} THEN acc
  ELSE LET nx == RxEnds(x, s, fr) \ acc IN RxStarLoop(x, s, acc \cup nx, nx)

\* exactly k times
RxTimes(x, s, P, k) == IF k = 0 \/ P = {} THEN P ELSE RxTimes(x, s, RxEnds(x, s, P), k - 1)

\* 0 to k times
RxUpTo(x, s, P, k) == IF k = 0 \/ P = {} THEN P ELSE P \cup RxUpTo(x, s, RxEnds(x, s, P), k - 1)

-----------------------------------------------------------------------------
RxFlagX(flags) == IF "x" \in DOMAIN flags THEN flags.x ELSE FALSE

\* Parser and matcher recurse once per pattern piece, nesting level and (in
\* the worst case) subject position; beyond these lengths the recursion may
\* not fit TLC's default 1 MB Java stack, so the answer is "opaque".
RxMaxPat  == 48
RxMaxSubj == 128

\* Well-formed UTF-8 as Go's unicode/utf8 decodes it (no overlong forms, no
\* surrogates, nothing above U+10FFFF).  Go rejects a pattern that is not
\* (also under flag q), and it decodes every ill-formed byte of the subject
\* as U+FFFD, which a U+FFFD in the pattern then matches.
RxCont(b) == b >= 128 /\ b <= 191
RxLeadLen(b) == IF b < 128 THEN 1 ELSE IF b >= 194 /\ b <= 223 THEN 2
                ELSE IF b >= 224 /\ b <= 239 THEN 3 ELSE IF b >= 240 /\ b <= 244 THEN 4
                ELSE 0                                       \* not a first byte
RxSecondOk(l, b) == CASE l = 224 -> b >= 160 /\ b <= 191 [] l = 237 -> b >= 128 /\ b <= 159
                      [] l = 240 -> b >= 144 /\ b <= 191 [] l = 244 -> b >= 128 /\ b <= 143
                      [] OTHER -> RxCont(b)
RxValidUTF8(s) ==
  \A k \in 1..Len(s) :
    LET b == s[k]  n == RxLeadLen(b) IN
    IF n >= 1 THEN /\ k + n - 1 <= Len(s)
                   /\ (n >= 2 => RxSecondOk(b, s[k + 1]))
                   /\ \A j \in (k + 2)..(k + n - 1) : RxCont(s[j])
    ELSE /\ RxCont(b)
         /\ \E d \in 1..3 : /\ k - d >= 1
                            /\ RxLeadLen(s[k - d]) >= d + 1
                            /\ \A j \in (k - d + 1)..(k - 1) : RxCont(s[j])

\* "valid", "invalid" (Go rejects the pattern) or "opaque" (not decided).
\* Flag x is not looked at.
RxPatternClass(pat, flags) ==
  IF ~IsAscii(pat) /\ ~RxValidUTF8(pat) THEN "invalid"
  ELSE IF flags.q \/ IsLiteralPattern(pat) THEN "valid"
  ELSE IF ~IsAscii(pat) \/ Len(pat) > RxMaxPat THEN "opaque"
  ELSE LET r == RxParse(pat, flags) IN
       IF r.ok THEN "valid" ELSE IF r.why = "invalid" THEN "invalid" ELSE "opaque"

\* Diagnostics: why RegexMatch answers "opaque" ("none" if it does not).
RxWhyOpaque(pat, flags, s) ==
  IF RxFlagX(flags) /\ ~flags.q THEN "flagx"
  ELSE IF flags.q \/ IsLiteralPattern(pat) THEN
     IF flags.i /\ ~(IsAscii(pat) /\ IsAscii(s)) THEN "nonascii"
     ELSE IF ~IsAscii(pat) /\ ~(RxValidUTF8(pat) /\ RxValidUTF8(s)) THEN "utf8"
     ELSE "none"
  ELSE IF ~IsAscii(pat) \/ ~IsAscii(s) THEN "nonascii"
  ELSE IF Len(pat) > RxMaxPat \/ Len(s) > RxMaxSubj THEN "long"
  ELSE LET r == RxParse(pat, flags) IN IF r.ok THEN "none" ELSE r.why

RegexMatch(pat, flags, s) ==      \* "T", "F" or "opaque"
  IF RxFlagX(flags) /\ ~flags.q THEN "opaque"                \* rejected when the path is parsed
  ELSE IF flags.q \/ IsLiteralPattern(pat) THEN
     IF flags.i THEN (IF IsAscii(pat) /\ IsAscii(s) THEN TF(HasSub(FoldBytes(s), FoldBytes(pat))) ELSE "opaque")
     ELSE IF IsAscii(pat) \/ (RxValidUTF8(pat) /\ RxValidUTF8(s)) THEN TF(HasSub(s, pat))
     ELSE "opaque"
  ELSE IF ~IsAscii(pat) \/ ~IsAscii(s) THEN "opaque"
  ELSE IF Len(pat) > RxMaxPat \/ Len(s) > RxMaxSubj THEN "opaque"
  ELSE LET r == RxParse(pat, flags) IN
       IF ~r.ok THEN "opaque" ELSE TF(RxEnds(r.node, s, 0..Len(s)) # {})
=============================================================================
