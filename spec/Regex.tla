------------------------------- MODULE Regex -------------------------------
(* like_regex: the pattern fragment the specification decides.              *)
(* flags = [i, s, m, q] (BOOLEANs).  RegexMatch returns "T", "F" or        *)
(* "opaque" (pattern outside the fragment).                                 *)
EXTENDS Integers, Sequences

FoldB(b) == IF b >= 65 /\ b <= 90 THEN b + 32 ELSE b
FoldBytes(s) == [i \in 1..Len(s) |-> FoldB(s[i])]

RECURSIVE HasSubFrom(_, _, _)
HasSubFrom(s, p, i) ==
  IF i + Len(p) - 1 > Len(s) THEN FALSE
  ELSE IF SubSeq(s, i, i + Len(p) - 1) = p THEN TRUE
  ELSE HasSubFrom(s, p, i + 1)
HasSub(s, p) == HasSubFrom(s, p, 1)

MetaBytes == {92, 46, 43, 42, 63, 40, 41, 124, 91, 93, 123, 125, 94, 36}
IsLiteralPattern(p) == \A i \in 1..Len(p) : p[i] \notin MetaBytes
IsAscii(s) == \A i \in 1..Len(s) : s[i] < 128

TF(b) == IF b THEN "T" ELSE "F"
RegexMatch(pat, flags, s) ==      \* "T", "F" or "opaque"
  IF flags.q \/ IsLiteralPattern(pat) THEN
     IF flags.i THEN (IF IsAscii(pat) /\ IsAscii(s) THEN TF(HasSub(FoldBytes(s), FoldBytes(pat))) ELSE "opaque")
     ELSE TF(HasSub(s, pat))
  ELSE "opaque"
=============================================================================
