---------------------------- MODULE Trace_Syntax ----------------------------
(* Trace specification of the parser entry points (properties C02, C03,    *)
(* C04).  A record is what path.Parse, MustParse, Scan, UnmarshalText and   *)
(* UnmarshalBinary did with one input (bytes), the tree the real parser     *)
(* built (through the exported accessors), IsPredicate / PgIndexOperator,   *)
(* whether every like_regex of the accepted path compiled, and optionally   *)
(* the tree the input is a spelling of.  TLC parses the same bytes with     *)
(* PathSyntax!ParseStatus (scanner + grammar of the specification) and      *)
(* judges:                                                                  *)
(*  C04  total: a path or an error wrapping ErrPath and ErrParse, never a    *)
(*       panic; MustParse panics exactly when Parse errs; Scan /             *)
(*       UnmarshalText / UnmarshalBinary fail exactly then, wrapped in       *)
(*       ErrScan; nothing the documented syntax forbids is accepted; every   *)
(*       accepted like_regex compiles.                                       *)
(*  C03  every permitted spelling is accepted and parses to the tree the     *)
(*       grammar assigns (and, when given, the tree it is a spelling of);    *)
(*       IsPredicate / PgIndexOperator tell whether the top is a predicate.  *)
(*  C02  (records with kind "print") the text String() printed parses, in   *)
(*       the specification, to the tree it was printed from.                 *)
EXTENDS PathSyntax, Json

Recs == ndJsonDeserialize("syntax.ndjson")
NBlocks == 64

Contract(r) ==
  (IF r.st \in {"panic", "timeout"} THEN {"C04.panic"} ELSE {})
  \cup (IF r.st \in {"both", "neither"} THEN {"C04.path-xor-error"} ELSE {})
  \cup (IF r.st = "err" /\ ~(r.epath /\ r.eparse) THEN {"C04.error-wrapping"} ELSE {})
  \cup (IF r.st \in {"ok", "err"} /\ ((r.must = "panic") # (r.st = "err")) THEN {"C04.mustparse"} ELSE {})
  \cup (IF r.st \in {"ok", "err"} /\ Len(r.b) > 0 /\
          (\E x \in {r.scan, r.scanb, r.text, r.bin} : x # (IF r.st = "ok" THEN "ok" ELSE "err-scan"))
       THEN {"C04.scan-unmarshal"} ELSE {})
  \cup (IF r.rx = "panic" THEN {"C04.regex-does-not-compile"} ELSE {})

(* A named deviation of the printer (pinned by the repository test          *)
(* TestNumericNode): a numeric literal with an integral value is printed    *)
(* without a fraction (4.0 as 4, 1.2e3 as 1200) and therefore reads back as *)
(* an integer literal.  Integerize maps a tree to the tree that text spells. *)
RECURSIVE IntzChain(_), IntzNode(_)
IntzChain(ch) == [i \in 1..Len(ch) |-> IntzNode(ch[i])]
IntzNode(n) ==
  CASE n.k = "num" -> IF n.v.rep = "f" /\ BNIsInt(n.v.n) /\ BNFitsInt64(n.v.n) THEN [n EXCEPT !.v = VNum("i", n.v.n)] ELSE n
    [] n.k = "bin" -> [n EXCEPT !.l = IntzChain(n.l), !.r = IntzChain(n.r)]
    [] n.k \in {"un", "regex"} -> [n EXCEPT !.x = IntzChain(n.x)]
    [] n.k = "filter" -> [n EXCEPT !.p = IntzNode(n.p)]
    [] n.k = "idx" -> [n EXCEPT !.subs = [j \in 1..Len(n.subs) |->
                          [from |-> IntzChain(n.subs[j].from), hasTo |-> n.subs[j].hasTo, to |-> IntzChain(n.subs[j].to)]]]
    [] OTHER -> n
Integerize(p) == [p EXCEPT !.chain = IntzChain(p.chain)]

Judge(r) ==
  LET s == ParseStatus(r.b)
      agree ==
        IF s.st = "opaque" THEN {"skip.syntax"}
        ELSE IF s.st = "reject" THEN (IF r.st = "ok" THEN {"C04.accepted-forbidden"} ELSE {})
        ELSE (* the specification accepts *)
             (IF r.st = "err" THEN {"C03.rejected-valid"}
              ELSE IF r.st = "ok" /\ ~r.nopath /\ r.path # s.path THEN {"C03.wrong-tree"}
              ELSE IF r.st = "ok" /\ ~r.nopath /\ (r.pred # s.path.pred \/ r.pgop # (IF s.path.pred THEN "@@" ELSE "@?"))
                   THEN {"C03.predicate-flag"}
              ELSE {})
             \cup (IF r.hasw /\ s.path # r.want
                   THEN (IF r.kind # "print" THEN {"infra.spelling-generator"}
                         ELSE IF s.path = Integerize(r.want) THEN {"known.float-prints-as-int.C02.text-spells-another-path"}
                         ELSE {"C02.text-spells-another-path"})
                   ELSE {})
      printed ==
        IF r.kind # "print" THEN {}
        ELSE (IF s.st = "reject" THEN {"C02.printed-text-does-not-parse"} ELSE {})
             \cup (IF r.st \in {"panic", "timeout"} THEN {"C02.string-or-parse-panics"} ELSE {})
             \cup (IF r.st = "err" THEN {"C02.own-text-rejected"} ELSE {})
             \cup (IF r.st = "ok" /\ ~r.nopath /\ r.path # r.want
                   THEN (IF r.path = Integerize(r.want) THEN {"known.float-prints-as-int.C02.reparse-differs"} ELSE {"C02.reparse-differs"})
                   ELSE {})
             \cup (IF r.fix = "no" THEN {"C02.not-a-fixed-point"} ELSE {})
             \cup (IF "no" \in {r.mtext, r.mbin, r.mval} THEN {"C02.marshal-roundtrip"} ELSE {})
             \cup (IF r.probe = "no"
                   THEN (IF r.st = "ok" /\ ~r.nopath /\ r.path # r.want /\ r.path = Integerize(r.want)
                         THEN {"known.float-prints-as-int.C02.results-differ"} ELSE {"C02.results-differ"})
                   ELSE {})
  IN Contract(r) \cup agree \cup printed

VARIABLES blk, done
Init == blk \in 1..NBlocks /\ done = FALSE
Step == /\ ~done
        /\ \A j \in 0..((Len(Recs) - blk) \div NBlocks) :
              LET r == Recs[blk + j * NBlocks]
              IN \A cl \in Judge(r) : PrintT(<<"V", r.id, cl>>)
        /\ done' = TRUE
        /\ blk' = blk
=============================================================================
