---------------------------- MODULE Trace_Cancel ----------------------------
(* Trace specification for C20: records of real executions whose context    *)
(* became done at the k-th poll of Done(), for every k up to the number of  *)
(* polls of the uncancelled run, per entry point / option set / cause.      *)
(* A record: the case (indices into the tables) and runs; a run is          *)
(* [entry, silent, kind, polls0, base, outs], outs[k] = [k, e, n, b, p]:    *)
(* error code, number of items, boolean, polls seen by the cancelled call.  *)
EXTENDS ExecLaws, TraceCommon, Json

Paths == ndJsonDeserialize("paths.ndjson")
Docs  == ndJsonDeserialize("docs.ndjson")
VarsT == ndJsonDeserialize("vars.ndjson")
Recs  == ndJsonDeserialize("cancel.ndjson")

RECURSIVE ChainSize(_, _), NodeSize(_)
NodeSize(n) ==
  1 + CASE n.k = "bin" -> ChainSize(n.l, 1) + ChainSize(n.r, 1)
        [] n.k \in {"un", "regex"} -> ChainSize(n.x, 1)
        [] n.k = "filter" -> NodeSize(n.p)
        [] n.k = "idx" -> LET f[j \in 0..Len(n.subs)] ==
                                IF j = 0 THEN 0
                                ELSE f[j - 1] + ChainSize(n.subs[j].from, 1) + ChainSize(n.subs[j].to, 1)
                          IN f[Len(n.subs)]
        [] OTHER -> 0
ChainSize(ch, i) == IF i > Len(ch) THEN 0 ELSE NodeSize(ch[i]) + ChainSize(ch, i + 1)

CaseOfRec(o) ==
  [path |-> [lax |-> o.lax, pred |-> Paths[o.pi].pred, chain |-> Paths[o.pi].chain],
   doc |-> Docs[o.di].doc, vars |-> VarsT[o.vi].vars, silent |-> FALSE, useTZ |-> FALSE, zone |-> "UTC"]

(* one cancelled call *)
OutLaw(run, out, bound, nd) ==
  LET e == ErrRec(out.e)
      tag == "." \o run.entry \o (IF run.silent THEN ".s" ELSE ".v")
  IN IF e.cls \in {"panic", "timeout"} THEN {"C20.crash" \o tag}
     ELSE IF out.p < out.k THEN
          (* the call ended before its k-th poll: it must be the uncancelled outcome *)
          (* (where Go picks the member order per call, nd, another order may end earlier and differently) *)
          (IF nd \/ (out.e = run.base.e /\ out.n = Len(run.base.i) /\ out.b = run.base.b) THEN {} ELSE {"C20.unobserved-differs" \o tag})
     ELSE (IF e.cls = "ctx" /\ e.x /\ (IF run.kind \in {"c", "u"} THEN e.can ELSE e.dl) THEN {} ELSE {"C20.not-ctx-error" \o tag})
          \cup (IF out.n = 0 /\ ~out.b THEN {} ELSE {"C20.result-with-cancel" \o tag})
          \cup (IF out.p - out.k <= bound THEN {} ELSE {"C20.unbounded-steps" \o tag})

RunLaw(run, bound, nd) ==
  UNION {OutLaw(run, run.outs[j], bound, nd) : j \in 1..Len(run.outs)}
  \cup (IF Len(run.outs) = run.polls0 THEN {} ELSE {"infra.C20.k-range"})

(* SPEC-DRIFT (never a violation): the number of polls PathSem predicts for  *)
(* Query (collecting) and for lax Exists (stops at the first item)           *)
Drift(o) ==
  LET c == CaseOfRec(o)
      q == Eval(c, Par0)
      x == EvalExists(c, Par0)
      qr == CHOOSE r \in {o.runs[j] : j \in 1..Len(o.runs)} : r.entry = "query" /\ ~r.silent /\ r.kind = "c"
      xr == CHOOSE r \in {o.runs[j] : j \in 1..Len(o.runs)} : r.entry = "exists" /\ ~r.silent /\ r.kind = "c"
  IN IF Nondet(c) \/ q.err = "opaque" THEN {}
     ELSE (IF q.st.polls = qr.polls0 THEN {} ELSE {"drift.polls.query"})
          \cup (IF x.st.polls = xr.polls0 \/ x.err = "opaque" THEN {} ELSE {"drift.polls.exists"})

JudgeCancel(o) ==
  LET bound == ChainSize(Paths[o.pi].chain, 1)
      nd == Nondet(CaseOfRec(o))
  IN UNION {RunLaw(o.runs[j], bound, nd) : j \in 1..Len(o.runs)} \cup Drift(o)

VARIABLES l, verdict
Init == /\ l \in 1..Len(Recs)
        /\ verdict = JudgeCancel(Recs[l])
        /\ \A cl \in verdict : PrintT(<<"V", Recs[l].id, cl>>)
Step == UNCHANGED <<l, verdict>>
=============================================================================
