---------------------------- MODULE Trace_Object ----------------------------
(* Trace specification for C19: a history of calls on SHARED Path objects,  *)
(* recorded from the real code running under the race detector, checked     *)
(* against the abstraction of spec/PathObject.tla that its invariant        *)
(* RetSolo justifies: a call is an Invoke followed by a Return whose        *)
(* outcome is what that call returns alone - whatever other goroutines do   *)
(* in between and whatever ran on the same Path before.                     *)
(*                                                                          *)
(*   events.ndjson  [g, ev, call, out]  in the order of a global sequence   *)
(*                  number taken before each call starts and after it ends  *)
(*                  ev = "inv" | "ret" | "race" (a report of the race       *)
(*                  detector) | "mut" (a shared document or variable map    *)
(*                  differs from its pristine copy at the end)              *)
(*   calls.ndjson   [pi, di, vi, lax, silent, useTZ, zone, entry, solo]     *)
(*                  solo = the outcome recorded on a FRESH Path, alone      *)
(*   outs.ndjson    [call, o, txt] every distinct outcome seen for a call   *)
(*                                                                          *)
(* Whether each distinct outcome is a behaviour PathSem permits for its     *)
(* call is decided by Trace_ObjectOuts (in parallel); here every Return is  *)
(* compared with the solo outcome and the history must be well formed.      *)
(* A rejected event is reported and the rest of the trace is still checked. *)
EXTENDS ObjectLaws, TraceCommon, Json

Paths  == ndJsonDeserialize("paths.ndjson")
Docs   == ndJsonDeserialize("docs.ndjson")
VarsT  == ndJsonDeserialize("vars.ndjson")
CallsT == ndJsonDeserialize("calls.ndjson")
Outs   == ndJsonDeserialize("outs.ndjson")
Ev     == ndJsonDeserialize("events.ndjson")

CaseOfCall(k) ==
  LET c == CallsT[k]
  IN [path |-> [lax |-> c.lax, pred |-> Paths[c.pi].pred, chain |-> Paths[c.pi].chain],
      doc |-> Docs[c.di].doc, vars |-> VarsT[c.vi].vars, silent |-> c.silent, useTZ |-> c.useTZ, zone |-> c.zone]
OutOf(id) == [e |-> DecodeEntry(Outs[id].o), txt |-> Outs[id].txt]

Gs == 0..64          \* goroutine ids the driver may use (0 = the driver itself); no recursion over the trace:
                     \* deep recursion makes TLC quadratic (every collection scans the whole Java stack)

VARIABLES l, pc          \* pc[g] = the call g is inside, 0 = none
Init == l = 1 /\ pc = [g \in Gs |-> 0]

(* why event e cannot be taken in this state; "" if it can *)
Why(e) ==
  CASE e.ev = "race" -> "C19.data-race"
    [] e.ev = "mut"  -> "C19.shared-input-mutated"
    [] e.ev = "inv"  -> IF pc[e.g] # 0 THEN "C19.history-malformed" ELSE ""
    [] e.ev = "ret"  ->
         IF pc[e.g] # e.call \/ Outs[e.out].call # e.call THEN "C19.history-malformed"
         ELSE IF e.out = CallsT[e.call].solo THEN ""
         ELSE LET x == OutOf(e.out)  s == OutOf(CallsT[e.call].solo)  en == CallsT[e.call].entry
              IN IF en \in {"string", "parse", "realias"} THEN "C19.differs-from-solo"
                 ELSE IF x.txt = s.txt /\ SameAsSolo(CaseOfCall(e.call), IF en = "query2v" THEN "query" ELSE en, x.e, s.e) THEN ""
                 ELSE "C19.differs-from-solo"
    [] OTHER -> "C19.history-malformed"

Step ==
  /\ l <= Len(Ev) /\ l' = l + 1
  /\ LET e == Ev[l]  w == Why(e)
     IN /\ (w # "" => PrintT(<<"V", l, w>>))
        /\ pc' = IF e.ev = "inv" THEN [pc EXCEPT ![e.g] = e.call]
                 ELSE IF e.ev = "ret" THEN [pc EXCEPT ![e.g] = 0] ELSE pc
=============================================================================
