INIT Init
NEXT Step
CHECK_DEADLOCK FALSE
