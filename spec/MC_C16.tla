------------------------------- MODULE MC_C16 -------------------------------
\* C16: item methods convert within their documented domains and ranges.
\* Grid: int32 / int64 limits and neighbours, halves around them, 2^53, 2^63
\* and -2^63 as doubles, 1e308, 5e-324, small integers and halves -- each as
\* int64 literal, float64 and json.Number -- x every method, and
\* .decimal(p, s) over precision / scale pairs including the invalid ones.
\* TLC checks on the specification (Methods.tla): .integer() results lie in
\* int32 and .bigint() results in int64, .double() / .number() / .decimal()
\* results are finite doubles, halves round away from zero, a number and its
\* .string() convert to the same value with the matching method (where the
\* specification computes the spelling), .decimal(p, s) results have at most
\* p - s integer digits and s fractional digits, invalid precision / scale is
\* a non-suppressible error.  The abstract grid is exported for the runner.
EXTENDS ExecLaws, Universe, SequencesExt, Json

P2(k) == BNMul2k(BNOne, k)
Half(n) == BNMk(n < 0, <<IF n < 0 THEN -n ELSE n>>, -1)      \* n/2
AbsNums ==
  { BNZero, BNOne, BN(-1), BN(2), BN(100), BN(-100), BN(99), BN(12345),
    Half(1), Half(-1), Half(3), Half(-3), Half(5), Half(199), Half(-199), BNMk(FALSE, <<1>>, -2), BNMk(FALSE, <<5>>, -3),
    BNSub(P2(31), BNOne), P2(31), BNNeg(P2(31)), BNSub(BNNeg(P2(31)), BNOne),
    BNSub(P2(31), Half(1)), BNAdd(BNSub(P2(31), BNOne), Half(1)), BNSub(BNNeg(P2(31)), Half(1)),
    BNSub(P2(63), BNOne), P2(63), BNNeg(P2(63)), P2(53), BNAdd(P2(53), BNOne),
    BNRoundToDouble(BNPow10(308)), P2(-1074), BNPow10(15), BNPow10(21) }
RepsOf(n) ==
  (IF BNFitsInt64(n) THEN {VNum("i", n)} ELSE {})
  \cup (IF BNIsDouble(n) THEN {VNum("f", n)} ELSE {})
  \cup { [t |-> "num", rep |-> "j", n |-> IF BNFitsInt64(n) THEN n ELSE BNRoundToDouble(n),
          tx |-> <<>>, ok |-> TRUE, ji |-> BNFitsInt64(n)] }
Nums == UNION {RepsOf(n) : n \in AbsNums}
NumSeq == SetToSeq(Nums)
Abstract == SetToSeq({[t |-> "num", rep |-> "x", n |-> n] : n \in AbsNums})
ASSUME ndJsonSerialize("corpus.ndjson", [i \in 1..Len(Abstract) |-> [v |-> Abstract[i]]])
ASSUME PrintT(<<"UNIVERSE", Len(NumSeq), Len(Abstract)>>)

CONSTANT Heavy      \* TRUE: also the extreme valid scales +-1000 (minutes of BigNum arithmetic)
Precs  == {1, 2, 3, 15, 1000, 1001, 0, -1}
Scales == {-1001, -2, -1, 0, 1, 2, 3, 1001} \cup (IF Heavy THEN {-1000, 1000} ELSE {-20, 20})

VARIABLES i, phase
Init == i \in 1..Len(NumSeq) /\ phase = 0
Step == phase = 0 /\ phase' = 1 /\ UNCHANGED i

MethodLaw(v) ==
  LET int == ConvMethod("integer", v)  big == ConvMethod("bigint", v)
      dbl == ConvMethod("double", v)   num == ConvMethod("number", v)
      str == ConvMethod("string", v)
      val == AsValue(v)
  IN /\ int.ok => int.v.rep = "i" /\ BNFitsInt32(int.v.n) /\ int.v.n = (IF IsIntRep(v) THEN v.n ELSE BNRoundHalfAway(val))
     /\ ~int.ok => int.err = "verbose" /\ ~BNFitsInt32(IF IsIntRep(v) THEN v.n ELSE BNRoundHalfAway(val))
     /\ big.ok => big.v.rep = "i" /\ BNFitsInt64(big.v.n)
     /\ ~big.ok => big.err = "verbose" /\ ~BNFitsInt64(IF IsIntRep(v) THEN v.n ELSE BNRoundHalfAway(val))
     /\ dbl.ok /\ dbl.v.rep = "f" /\ BNIsDouble(dbl.v.n) /\ num = dbl
     (* a number and its spelling convert to the same value *)
     /\ (str.ok /\ v.rep # "j") =>        \* (the text of a json.Number is supplied by the runner, not modelled here)
                  /\ str.v.t = "str"
                  /\ ConvMethod("double", str.v) = dbl
                  /\ (IsIntRep(v) => ConvMethod("bigint", str.v) = big /\ ConvMethod("integer", str.v) = int)
     /\ ~str.ok => str.err = "opaque"

DecimalLaw(v) ==
  \A p \in Precs, s \in Scales :
     LET r == DecimalMethod(NDecimal2(VInt(p), VInt(s)), v)
         okArgs == p >= 1 /\ p <= 1000 /\ s >= -1000 /\ s <= 1000
     IN IF ~okArgs THEN ~r.ok /\ r.err = "hard"
        ELSE /\ r.ok => /\ r.v.rep = "f" /\ BNIsDouble(r.v.n)
                        (* fits the precision: |value| < 10^(p - s), i.e. |value| * 10^s < 10^p *)
                        /\ (s >= 0 => BNCmp(BNAbs(BNMul(r.v.n, BNPow10(s))), BNAdd(BNPow10(p), BNOne)) < 0)
             /\ ~r.ok => r.err = "verbose"

Inv == (IF phase = 0 THEN MethodLaw(NumSeq[i]) ELSE DecimalLaw(NumSeq[i]))
       \/ (PrintT(<<"LAWFAIL", phase, NumSeq[i], [m \in {"integer", "bigint", "double", "string"} |-> ConvMethod(m, NumSeq[i])]>>) /\ FALSE)
=============================================================================
