---------------------------- MODULE TraceCommon ----------------------------
(* Decoding of the compact observation records the Go runner writes.        *)
EXTENDS Integers, Sequences

(* error code "cls:flags" -> [cls, v, x, can, dl] *)
RECURSIVE ColonAt(_, _)
ColonAt(s, i) == IF i > Len(s) THEN 0 ELSE IF SubSeq(s, i, i) = ":" THEN i ELSE ColonAt(s, i + 1)
HasFlag(s, from, f) == \E i \in from..Len(s) : SubSeq(s, i, i) = f
ErrRec(code) ==
  CASE code = "none:" -> [cls |-> "none", v |-> FALSE, x |-> FALSE, can |-> FALSE, dl |-> FALSE]
    [] code = "verbose:vx" -> [cls |-> "verbose", v |-> TRUE, x |-> TRUE, can |-> FALSE, dl |-> FALSE]
    [] code = "hard:x" -> [cls |-> "hard", v |-> FALSE, x |-> TRUE, can |-> FALSE, dl |-> FALSE]
    [] code = "NULL:" -> [cls |-> "NULL", v |-> FALSE, x |-> FALSE, can |-> FALSE, dl |-> FALSE]
    [] OTHER -> LET p == ColonAt(code, 1)
                IN [cls |-> IF p = 0 THEN code ELSE SubSeq(code, 1, p - 1),
                    v |-> p # 0 /\ HasFlag(code, p + 1, "v"), x |-> p # 0 /\ HasFlag(code, p + 1, "x"),
                    can |-> p # 0 /\ HasFlag(code, p + 1, "c"), dl |-> p # 0 /\ HasFlag(code, p + 1, "d")]
DecodeEntry(e) == [items |-> e.i, val |-> e.b, err |-> ErrRec(e.e), bad |-> e.bad]
DecodeRun(o) ==
  [query |-> DecodeEntry(o.q), first |-> DecodeEntry(o.f), exists |-> DecodeEntry(o.x),
   match |-> DecodeEntry(o.m), eom |-> DecodeEntry(o.o), polls |-> o.p, mutated |-> o.mut]

=============================================================================
