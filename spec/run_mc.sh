#!/bin/sh
# usage: spec/run_mc.sh <config name without .cfg> [tlc options]
# Runs TLC on one bounded model of the specification with the configuration the quick tier uses
# (spec/cfg/<name>.cfg), in a scratch directory. The MC_C19_hazard_* configurations MUST end with
# "Invariant RetSolo is violated" (deliberately wrong designs).
set -u
NAME="$1"; shift
HERE="$(cd "$(dirname "$0")" && pwd)"
MOD="$NAME"; case "$NAME" in MC_C19_hazard_*) MOD=MC_C19;; esac
D="$(mktemp -d "${TMPDIR:-/tmp}/mc-$NAME.XXXXXX")"
trap 'rm -rf "$D"' EXIT INT TERM
cp "$HERE"/*.tla "$D"/ && cp "$HERE/cfg/$NAME.cfg" "$D/$MOD.cfg" || exit 2
cd "$D" || exit 2
timeout 3600 java -Xss512m -XX:+UseParallelGC -Djava.io.tmpdir="$D" -cp /opt/veriftools/tla/tla2tools.jar:/opt/veriftools/tla/CommunityModules-deps.jar \
  tlc2.TLC -workers auto -metadir "$D/md" -noGenerateSpecTE "$@" "$MOD.tla"
