------------------------------- MODULE MC_C20 -------------------------------
\* C20: cancellation is honoured at every step and never mistaken for a
\* result.  State machine: an execution is Called with a case and a prophecy
\* cancelAt = k ("the context is observed done at the k-th poll"), Runs, and
\* Returns.  TLC explores every case of the pool x every k from 1 to the
\* number of polls of the uncancelled run (+1: never observed).
\* Invariants at Return, for every entry point, silent or not:
\*   - if the k-th poll happened the outcome is the context error with no
\*     items -- never an empty or partial result, NULL, or a boolean;
\*   - no further poll happens after the one that observed the cancellation;
\*   - if the execution ended before its k-th poll (lax Exists answers at the
\*     first item) the outcome is that of the uncancelled run.
EXTENDS ExecLaws, PathPool, SequencesExt, Json

CONSTANTS MaxNodes

PathRows == SetToSeq({[pred |-> FALSE, chain |-> p] : p \in ExprPaths} \cup {[pred |-> TRUE, chain |-> <<q>>] : q \in PredPaths})
DocSeq == SetToSeq(
  TreesUpTo({VFlt(1), VStr(KX)}, <<KA, KB>>, MaxNodes)
  \cup { VArr(<<VFlt(1), VFlt(2), VFlt(3)>>), VObj(<<[k |-> KA, v |-> VFlt(1)], [k |-> KB, v |-> VFlt(2)]>>),
         VArr(<<VObj(<<[k |-> KA, v |-> VFlt(1)]>>), VObj(<<[k |-> KA, v |-> VStr(KX)]>>), VFlt(2)>>),
         VObj(<<[k |-> KA, v |-> VArr(<<VFlt(1), VFlt(2)>>)], [k |-> KB, v |-> VFlt(0)]>>),
         VArr(<<VArr(<<VObj(<<[k |-> KA, v |-> VFlt(1)]>>)>>), VFlt(7)>>),
         VArr(<<VArr(<<VObj(<<[k |-> KA, v |-> VFlt(1)]>>), VObj(<<[k |-> KA, v |-> VFlt(2)]>>)>>), VStr(KX)>>),
         VArr(<<VArr(<<VArr(<<VObj(<<[k |-> KA, v |-> VFlt(1)]>>)>>)>>), VArr(<<>>)>>) })
VarRow == [vars |-> <<[k |-> KX, v |-> VArr(<<VFlt(1), VFlt(2)>>)]>>]

ASSUME ndJsonSerialize("paths.ndjson", PathRows)
ASSUME ndJsonSerialize("docs.ndjson", [i \in 1..Len(DocSeq) |-> [doc |-> DocSeq[i]]])
ASSUME ndJsonSerialize("vars.ndjson", <<VarRow>>)
ASSUME PrintT(<<"UNIVERSE", Len(PathRows), Len(DocSeq)>>)

VARIABLES phase, pi, di, lax, exm, cancelAt, outcome
\* exm: the call is Exists in lax mode (only existence is asked: the executor
\* stops at the first item); otherwise Query / First / Match / strict Exists.

CaseAt(p, d, lx, silent) ==
  [path |-> [lax |-> lx, pred |-> PathRows[p].pred, chain |-> PathRows[p].chain], doc |-> DocSeq[d],
   vars |-> VarRow.vars, silent |-> silent, useTZ |-> FALSE, zone |-> "UTC"]
ParOf(x, k) == [Par0 EXCEPT !.exm = x, !.cancelAt = k]
Polls(p, d, lx, x) == Eval(CaseAt(p, d, lx, FALSE), ParOf(x, 0)).st.polls

Init == /\ phase = "idle" /\ pi \in 1..Len(PathRows) /\ lax \in BOOLEAN /\ exm \in {FALSE, lax}
        /\ di = 0 /\ cancelAt = 0 /\ outcome = <<>>
(* Call: choose the document and the poll at which the context is observed done *)
Call == /\ phase = "idle" /\ phase' = "running"
        /\ di' \in 1..Len(DocSeq)
        /\ \E k \in 1..(Polls(pi, di', lax, exm) + 1) : cancelAt' = k
        /\ UNCHANGED <<pi, lax, exm, outcome>>
Run ==  /\ phase = "running" /\ phase' = "returned"
        /\ outcome' = Eval(CaseAt(pi, di, lax, FALSE), ParOf(exm, cancelAt))
        /\ UNCHANGED <<pi, di, lax, exm, cancelAt>>
Step == Call \/ Run

Law_C20 ==
  phase = "returned" =>
    LET base == Eval(CaseAt(pi, di, lax, FALSE), ParOf(exm, 0))
        r    == outcome
    IN IF cancelAt > base.st.polls
       THEN r = base                                      \* never observed: nothing changes
       ELSE /\ r.err = "ctx" /\ r.st.polls = cancelAt     \* stops at the poll that observed it
            /\ \A silent \in BOOLEAN :
                 LET c == CaseAt(pi, di, lax, silent)
                 IN IF exm THEN ExistsOf(c, [r EXCEPT !.items = <<>>]).err = "ctx"   \* no item was found before that poll
                    ELSE /\ QueryOf(c, r) = [items |-> <<>>, err |-> "ctx"]
                         /\ FirstOf(c, r).err = "ctx"
                         /\ MatchOf(c, r).err = "ctx"
                         /\ (~lax => ExistsOf(c, r).err = "ctx")
Inv == Law_C20
          \/ (PrintT(<<"LAWFAIL", PathRows[pi], DocSeq[di], lax, exm, cancelAt, outcome>>) /\ FALSE)
=============================================================================
