----------------------------- MODULE PathSyntax -----------------------------
(* Concrete syntax of SQL/JSON path expressions as theory/sqljson documents *)
(* it (path/README.md, the comments of path/parser/lex.go, grammar.y and    *)
(* the constructors of path/ast): a scanner with one operator per scanner   *)
(* function of lex.go, a parser with one operator per rule (or precedence   *)
(* level) of grammar.y, the constructors of ast.go that carry meaning       *)
(* (NewInteger, NewNumeric, NewUnaryOrNumber, NewAny, NewRegex) and the     *)
(* second pass ast.validateNode.                                            *)
(*                                                                          *)
(*   ParseSpec(bytes)   bytes: the UTF-8 text handed to path.Parse, a       *)
(*                      sequence of 0..255.  Result                         *)
(*      [ok |-> FALSE]                the documented syntax forbids it      *)
(*      [ok |-> TRUE, path |-> [lax, pred, chain]]   trees of PathSem.tla   *)
(*      [ok |-> "opaque"]             the specification declines to decide: *)
(*          a non-ASCII code point whose XID class is not tabulated stands  *)
(*          where the class matters; a like_regex pattern outside the       *)
(*          decided pattern classes; a .**{n} level of 2^31 or more.        *)
(*                                                                          *)
(*   ParseStatus(bytes) the same with a string status (see the end).        *)
(*                                                                          *)
(* Pipeline: DecodeUTF8 -> Tokens (NextToken ...) -> PResult (grammar) ->   *)
(* ValidateChain (second pass).                                             *)
(*                                                                          *)
(* This is the INTENDED syntax.  Where the implementation is known to       *)
(* deviate (panics, lost identifier text, .**{0x1}, \u{110000}, Unicode     *)
(* case folding of keywords, private-use code points read as keywords) the  *)
(* specification does not follow; see tests/syntax/README.md.               *)
(*                                                                          *)
(* Exported: ParseSpec ParseStatus; DecodeUTF8 EncodeUTF8 XidClass; the     *)
(* scanner Tokens NextToken ScanIdent ScanString ScanEscape ScanHex         *)
(* ScanUnicode DecodeUnicode ScanNumber Digits InvalidSep ScanVariable      *)
(* ScanComment ScanOperator IdentToken; the constructors NewInteger         *)
(* NewNumeric NewUnaryOrNumber AnyLevel NewRegex RegexFlags RegexClass; the *)
(* grammar PResult POr PAnd PNot PCmp PAdd PMul PUnary PPrimary PExists     *)
(* PAccessors PAccessor PIndexList PCsvList; ValidateChain ValidateNode.    *)
(*                                                                          *)
(* Scanner and token list recurse once per character / token: run TLC with  *)
(* a large Java stack (-Xss512m) for inputs beyond a hundred characters.    *)
(* Conformance with the real parser: tests/syntax/run.sh.                   *)
(*                                                                          *)
(* Text is worked on as code points; token text is UTF-8 bytes again.       *)
(* Never write the comment terminator inside this kind of comment.          *)
EXTENDS Integers, Sequences, FiniteSets, TLC, BigNum, JsonValue, Universe, Regex

-----------------------------------------------------------------------------
(* Characters                                                               *)

IsDecimal(c) == c >= 48 /\ c <= 57
IsHex(c)     == IsDecimal(c) \/ (c >= 97 /\ c <= 102) \/ (c >= 65 /\ c <= 70)
IsAsciiLetter(c) == (c >= 97 /\ c <= 122) \/ (c >= 65 /\ c <= 90)
LowerAscii(c) == IF c >= 65 /\ c <= 90 THEN c + 32 ELSE c
HexVal(c) == IF IsDecimal(c) THEN c - 48
             ELSE IF c >= 97 /\ c <= 102 THEN c - 87
             ELSE IF c >= 65 /\ c <= 70 THEN c - 55 ELSE -1

\* code of a one-character TLA+ string (lower-case letters and underscore:
\* all that the keyword table needs)
CharCode ==
  [c \in {"a","b","c","d","e","f","g","h","i","j","k","l","m","n","o","p","q",
          "r","s","t","u","v","w","x","y","z","_"} |->
     CASE c = "a" -> 97  [] c = "b" -> 98  [] c = "c" -> 99  [] c = "d" -> 100
       [] c = "e" -> 101 [] c = "f" -> 102 [] c = "g" -> 103 [] c = "h" -> 104
       [] c = "i" -> 105 [] c = "j" -> 106 [] c = "k" -> 107 [] c = "l" -> 108
       [] c = "m" -> 109 [] c = "n" -> 110 [] c = "o" -> 111 [] c = "p" -> 112
       [] c = "q" -> 113 [] c = "r" -> 114 [] c = "s" -> 115 [] c = "t" -> 116
       [] c = "u" -> 117 [] c = "v" -> 118 [] c = "w" -> 119 [] c = "x" -> 120
       [] c = "y" -> 121 [] c = "z" -> 122 [] c = "_" -> 95]
AsciiBytes(str) == [k \in 1..Len(str) |-> CharCode[SubSeq(str, k, k)]]

(* Unicode XID_Start / XID_Continue (the identifier classes lex.go takes    *)
(* from github.com/smasher164/xid):                                         *)
(*   "start"   XID_Start (and therefore XID_Continue)                       *)
(*   "cont"    XID_Continue only                                            *)
(*   "none"    neither                                                      *)
(*   "unknown" not tabulated here                                           *)
(* ASCII and Latin-1 by rule; beyond that a handful of code points and the  *)
(* BMP private use area (general category Co, never an identifier part).    *)
XidClass(c) ==
  IF c < 128 THEN
       IF IsAsciiLetter(c) THEN "start"
       ELSE IF IsDecimal(c) \/ c = 95 THEN "cont"
       ELSE "none"
  ELSE IF c < 256 THEN
       IF c = 170 \/ c = 181 \/ c = 186 THEN "start"           \* U+00AA U+00B5 U+00BA
       ELSE IF c = 183 THEN "cont"                             \* U+00B7
       ELSE IF c >= 192 /\ c # 215 /\ c # 247 THEN "start"     \* letters but U+00D7 U+00F7
       ELSE "none"
  ELSE IF c = 20013 THEN "start"                               \* U+4E2D
  ELSE IF c = 769 \/ c = 1632 THEN "cont"                      \* U+0301 U+0660
  ELSE IF c = 65279 \/ c = 8232 \/ c = 128512 THEN "none"      \* U+FEFF U+2028 U+1F600
  ELSE IF c >= 57344 /\ c <= 63743 THEN "none"                 \* U+E000..U+F8FF
  ELSE "unknown"

\* isIdentRune(ch, i): "y", "n", or "?" (class not tabulated)
IdentRune(c, i) ==
  IF c = 95 \/ c = 92 THEN "y"
  ELSE IF c < 0 THEN "n"
  ELSE LET k == XidClass(c)
       IN  IF k = "unknown" THEN "?"
           ELSE IF k = "start" \/ (i > 0 /\ k = "cont") THEN "y" ELSE "n"

\* isVariableRune(ch)
VariableRune(c) ==
  IF c < 0 THEN "n"
  ELSE LET k == XidClass(c)
       IN  IF k = "unknown" THEN "?" ELSE IF k = "none" THEN "n" ELSE "y"

-----------------------------------------------------------------------------
(* UTF-8                                                                    *)

EncodeUTF8(c) ==
  IF c < 128 THEN <<c>>
  ELSE IF c < 2048 THEN <<192 + (c \div 64), 128 + (c % 64)>>
  ELSE IF c < 65536 THEN <<224 + (c \div 4096), 128 + ((c \div 64) % 64), 128 + (c % 64)>>
  ELSE <<240 + (c \div 262144), 128 + ((c \div 4096) % 64), 128 + ((c \div 64) % 64), 128 + (c % 64)>>

IsContByte(b, i) == i <= Len(b) /\ b[i] >= 128 /\ b[i] <= 191
ContBits(b, i) == b[i] - 128

(* lexer.next: the text is a sequence of well-formed UTF-8 encodings        *)
(* (shortest form, no surrogates, at most U+10FFFF) of non-NUL code points. *)
RECURSIVE DecodeUTF8From(_, _, _)
DecodeUTF8From(b, i, acc) ==
  IF i > Len(b) THEN [ok |-> TRUE, cps |-> acc]
  ELSE LET b0 == b[i] IN
    IF b0 = 0 THEN [ok |-> FALSE]                               \* invalid character NULL
    ELSE IF b0 < 128 THEN DecodeUTF8From(b, i + 1, Append(acc, b0))
    ELSE IF b0 < 194 THEN [ok |-> FALSE]
    ELSE IF b0 < 224 THEN
         IF IsContByte(b, i + 1)
         THEN DecodeUTF8From(b, i + 2, Append(acc, (b0 - 192) * 64 + ContBits(b, i + 1)))
         ELSE [ok |-> FALSE]
    ELSE IF b0 < 240 THEN
         IF /\ IsContByte(b, i + 1) /\ IsContByte(b, i + 2)
            /\ (b0 = 224 => b[i + 1] >= 160)                    \* overlong
            /\ (b0 = 237 => b[i + 1] <= 159)                    \* surrogates
         THEN DecodeUTF8From(b, i + 3,
                Append(acc, (b0 - 224) * 4096 + ContBits(b, i + 1) * 64 + ContBits(b, i + 2)))
         ELSE [ok |-> FALSE]
    ELSE IF b0 < 245 THEN
         IF /\ IsContByte(b, i + 1) /\ IsContByte(b, i + 2) /\ IsContByte(b, i + 3)
            /\ (b0 = 240 => b[i + 1] >= 144)                    \* overlong
            /\ (b0 = 244 => b[i + 1] <= 143)                    \* beyond U+10FFFF
         THEN DecodeUTF8From(b, i + 4,
                Append(acc, (b0 - 240) * 262144 + ContBits(b, i + 1) * 4096
                            + ContBits(b, i + 2) * 64 + ContBits(b, i + 3)))
         ELSE [ok |-> FALSE]
    ELSE [ok |-> FALSE]
DecodeUTF8(b) == DecodeUTF8From(b, 1, <<>>)

-----------------------------------------------------------------------------
(* Tokens.  [t |-> kind, s |-> text bytes].  Kinds:                         *)
(*   one-character tokens  "$" "@" "(" ")" "[" "]" "{" "}" "," "?" "+" "-"  *)
(*                         "*" "/" "%" "."                                  *)
(*   operators  "eq" "ne" "lt" "le" "gt" "ge" "not" "and" "or" "any"        *)
(*   "ident" "str" "var" "int" "numeric"  (s: unescaped text / literal)     *)
(*   every keyword of identToken under its lower-case name (s: as written)  *)
(*   "other"   a character no grammar rule mentions                         *)
(*   "eof"; "opaque" ends the sequence where the scanner cannot go on       *)
Tok(t, s) == [t |-> t, s |-> s]

SOk(tok, i) == [st |-> "ok", tok |-> tok, i |-> i]
SErr == [st |-> "err"]
SOpq == [st |-> "opaque"]

\* the code point at index i; -1 at the end of the text (stopTok)
At(cps, i) == IF i > Len(cps) THEN -1 ELSE cps[i]

KeywordNames ==
  {"is", "to", "abs", "lax", "date", "flag", "last", "size", "time", "type", "with",
   "floor", "bigint", "double", "exists", "number", "starts", "strict", "string",
   "boolean", "ceiling", "decimal", "integer", "time_tz", "unknown", "datetime",
   "keyvalue", "timestamp", "like_regex", "timestamp_tz"}
KeywordText == [k \in KeywordNames |-> AsciiBytes(k)]
TxtNull  == AsciiBytes("null")
TxtTrue  == AsciiBytes("true")
TxtFalse == AsciiBytes("false")

(* identToken: null, true and false in lower case only; the other keywords  *)
(* in any (ASCII) letter case; everything else is an identifier.            *)
IdentToken(s) ==
  IF s = TxtNull THEN "null" ELSE IF s = TxtTrue THEN "true" ELSE IF s = TxtFalse THEN "false"
  ELSE LET l == [k \in 1..Len(s) |-> LowerAscii(s[k])]
           m == {k \in KeywordNames : KeywordText[k] = l}
       IN  IF m = {} THEN "ident" ELSE CHOOSE k \in m : TRUE

IsKeyword(t) == t \in KeywordNames \/ t \in {"null", "true", "false"}

-----------------------------------------------------------------------------
(* Escapes (shared by strings, quoted variables and identifiers).           *)
(* Results: [st, s |-> bytes written, i |-> index after the escape]         *)
EOk(s, i) == [st |-> "ok", s |-> s, i |-> i]

\* scanHex: \xNN, two hex digits, not 00; i is the index after the x
ScanHex(cps, i) ==
  LET h1 == HexVal(At(cps, i))
      h2 == HexVal(At(cps, i + 1))
  IN  IF h1 >= 0 /\ h2 >= 0 /\ h1 * 16 + h2 > 0 THEN EOk(EncodeUTF8(h1 * 16 + h2), i + 2)
      ELSE SErr

RECURSIVE HexRun(_, _, _)
HexRun(cps, i, n) ==         \* number of hex digits at i.., at most n
  IF n = 0 \/ HexVal(At(cps, i)) < 0 THEN 0 ELSE 1 + HexRun(cps, i + 1, n - 1)
RECURSIVE HexNum(_, _, _, _)
HexNum(cps, i, n, acc) ==
  IF n = 0 THEN acc ELSE HexNum(cps, i + 1, n - 1, acc * 16 + HexVal(cps[i]))

(* decodeUnicode: uNNNN (exactly four hex digits) or u{N...} (one to six);  *)
(* the value 0 cannot be converted to text.  i is the index after the u.    *)
(* Result [st, cp, i].                                                      *)
DecodeUnicode(cps, i) ==
  IF At(cps, i) = 123 THEN
       LET n == HexRun(cps, i + 1, 6)
           v == HexNum(cps, i + 1, n, 0)
       IN  IF n >= 1 /\ At(cps, i + 1 + n) = 125 /\ v > 0
           THEN [st |-> "ok", cp |-> v, i |-> i + n + 2] ELSE SErr
  ELSE LET n == HexRun(cps, i, 4)
           v == HexNum(cps, i, n, 0)
       IN  IF n = 4 /\ v > 0 THEN [st |-> "ok", cp |-> v, i |-> i + 4] ELSE SErr

IsSurrogate(c) == c >= 55296 /\ c <= 57343

(* scanUnicode: \u escapes are UTF-16 code units; a high surrogate must be  *)
(* followed by a \u escape holding a low surrogate, anything else in the    *)
(* surrogate range is an error, and so is a value beyond U+10FFFF.          *)
ScanUnicode(cps, i) ==
  LET d == DecodeUnicode(cps, i) IN
  IF d.st # "ok" THEN SErr
  ELSE IF IsSurrogate(d.cp) THEN
       IF At(cps, d.i) = 92 /\ At(cps, d.i + 1) = 117
       THEN LET e == DecodeUnicode(cps, d.i + 2) IN
            IF e.st # "ok" THEN SErr
            ELSE IF d.cp <= 56319 /\ e.cp >= 56320 /\ e.cp <= 57343
            THEN EOk(EncodeUTF8(65536 + (d.cp - 55296) * 1024 + (e.cp - 56320)), e.i)
            ELSE SErr
       ELSE SErr
  ELSE IF d.cp > 1114111 THEN SErr
  ELSE EOk(EncodeUTF8(d.cp), d.i)

\* scanEscape: i is the index after the backslash
ScanEscape(cps, i) ==
  LET ch == At(cps, i) IN
  CASE ch = 98  -> EOk(<<8>>, i + 1)          \* \b
    [] ch = 102 -> EOk(<<12>>, i + 1)         \* \f
    [] ch = 110 -> EOk(<<10>>, i + 1)         \* \n
    [] ch = 114 -> EOk(<<13>>, i + 1)         \* \r
    [] ch = 116 -> EOk(<<9>>, i + 1)          \* \t
    [] ch = 118 -> EOk(<<11>>, i + 1)         \* \v
    [] ch = 120 -> ScanHex(cps, i + 1)
    [] ch = 117 -> ScanUnicode(cps, i + 1)
    [] ch = -1  -> SErr                       \* unexpected end after backslash
    [] OTHER    -> EOk(EncodeUTF8(ch), i + 1) \* everything else is literal

-----------------------------------------------------------------------------
(* scanString: i is the index after the opening quote; kind "str" or "var". *)
RECURSIVE ScanStringFrom(_, _, _, _)
ScanStringFrom(cps, i, kind, acc) ==
  LET ch == At(cps, i) IN
  IF ch = 34 THEN SOk(Tok(kind, acc), i + 1)
  ELSE IF ch = 10 \/ ch = -1 THEN SErr        \* literal not terminated
  ELSE IF ch = 92 THEN
       LET e == ScanEscape(cps, i + 1) IN
       IF e.st # "ok" THEN SErr ELSE ScanStringFrom(cps, e.i, kind, acc \o e.s)
  ELSE ScanStringFrom(cps, i + 1, kind, acc \o EncodeUTF8(ch))
ScanString(cps, i, kind) == ScanStringFrom(cps, i, kind, <<>>)

(* scanIdent: i is the index of the first character (known to be an         *)
(* identifier start, an underscore or a backslash).  Escapes may stand for  *)
(* any character; the token kind is decided on the unescaped text.          *)
RECURSIVE ScanIdentFrom(_, _, _, _)
ScanIdentFrom(cps, i, acc, first) ==
  LET ch == At(cps, i)
      c  == IF first THEN "y" ELSE IdentRune(ch, 1)
  IN  IF c = "?" THEN SOpq
      ELSE IF c = "n" THEN SOk(Tok(IdentToken(acc), acc), i)
      ELSE IF ch = 92 THEN
           LET e == ScanEscape(cps, i + 1) IN
           IF e.st # "ok" THEN SErr ELSE ScanIdentFrom(cps, e.i, acc \o e.s, FALSE)
      ELSE ScanIdentFrom(cps, i + 1, acc \o EncodeUTF8(ch), FALSE)
ScanIdent(cps, i) == ScanIdentFrom(cps, i, <<>>, TRUE)

(* scanVariable: i is the index after the dollar sign.                      *)
RECURSIVE ScanVarFrom(_, _, _)
ScanVarFrom(cps, i, acc) ==
  LET c == VariableRune(At(cps, i)) IN
  IF c = "?" THEN SOpq
  ELSE IF c = "n" THEN SOk(Tok("var", acc), i)
  ELSE ScanVarFrom(cps, i + 1, acc \o EncodeUTF8(cps[i]))
ScanVariable(cps, i) ==
  IF At(cps, i) = 34 THEN ScanString(cps, i + 1, "var")
  ELSE LET c == VariableRune(At(cps, i)) IN
       IF c = "?" THEN SOpq
       ELSE IF c = "y" THEN ScanVarFrom(cps, i, <<>>)
       ELSE SOk(Tok("$", <<>>), i)

(* scanComment: i is the index after the opening slash-star; the result is  *)
(* the index after the first star-slash from there.                         *)
RECURSIVE ScanComment(_, _)
ScanComment(cps, i) ==
  IF At(cps, i) = -1 THEN SErr                \* unexpected end of comment
  ELSE IF cps[i] = 42 /\ At(cps, i + 1) = 47 THEN [st |-> "ok", i |-> i + 2]
  ELSE ScanComment(cps, i + 1)

\* scanOperator: i is the index of the character
ScanOperator(cps, i) ==
  LET ch == cps[i]
      nx == At(cps, i + 1)
      One(t) == SOk(Tok(t, <<>>), i + 1)
      Two(t) == SOk(Tok(t, <<>>), i + 2)
  IN  CASE ch = 61 -> IF nx = 61 THEN Two("eq") ELSE One("other")
        [] ch = 62 -> IF nx = 61 THEN Two("ge") ELSE One("gt")
        [] ch = 60 -> IF nx = 61 THEN Two("le") ELSE IF nx = 62 THEN Two("ne") ELSE One("lt")
        [] ch = 33 -> IF nx = 61 THEN Two("ne") ELSE One("not")
        [] ch = 38 -> IF nx = 38 THEN Two("and") ELSE One("other")
        [] ch = 124 -> IF nx = 124 THEN Two("or") ELSE One("other")
        [] ch = 42 -> IF nx = 42 THEN Two("any") ELSE One("*")
        [] ch = 64 -> One("@")   [] ch = 40 -> One("(")   [] ch = 41 -> One(")")
        [] ch = 91 -> One("[")   [] ch = 93 -> One("]")   [] ch = 123 -> One("{")
        [] ch = 125 -> One("}")  [] ch = 44 -> One(",")   [] ch = 63 -> One("?")
        [] ch = 43 -> One("+")   [] ch = 45 -> One("-")   [] ch = 37 -> One("%")
        [] OTHER -> One("other")

-----------------------------------------------------------------------------
(* Numbers                                                                  *)

(* digits: the run { digit | _ } at i (hex digits when base = 16).          *)
RECURSIVE DigitsEnd(_, _, _)
DigitsEnd(cps, i, hex) ==
  LET c == At(cps, i) IN
  IF IsDecimal(c) \/ c = 95 \/ (hex /\ IsHex(c)) THEN DigitsEnd(cps, i + 1, hex) ELSE i
Digits(cps, i, base) ==
  LET j == DigitsEnd(cps, i, base = 16) IN
  [i |-> j,
   dig |-> \E k \in i..(j - 1) : cps[k] # 95,
   sep |-> \E k \in i..(j - 1) : cps[k] = 95,
   invalid |-> base <= 10 /\ \E k \in i..(j - 1) : cps[k] # 95 /\ cps[k] - 48 >= base]

(* invalidSep: an underscore separates successive digits: it has a digit    *)
(* on both sides (hex digits count in a 0x literal).                        *)
InvalidSep(text) ==
  LET hexlit == Len(text) >= 2 /\ text[1] = 48 /\ LowerAscii(text[2]) = 120
      Dig(c) == IsDecimal(c) \/ (hexlit /\ IsHex(c))
  IN  \E k \in 1..Len(text) :
        /\ text[k] = 95
        /\ ~(k > 1 /\ Dig(text[k - 1]) /\ k < Len(text) /\ Dig(text[k + 1]))

(* scanNumber: i is the index of the first digit; with seenDot the token    *)
(* began with the dot at i - 1.  JavaScript numeric literals:               *)
(*   decimal integer (no leading zero), 0x 0o 0b integers, decimal          *)
(*   fractions N. N.N .N, exponents; no underscore next to a non-digit; no  *)
(*   identifier character directly after the literal.  A radix-prefixed     *)
(*   integer followed by a dot is the integer, then the dot.                *)
ScanNumber(cps, i, seenDot0) ==
  LET start == IF seenDot0 THEN i - 1 ELSE i
      c1 == LowerAscii(At(cps, i + 1))
      zero == ~seenDot0 /\ cps[i] = 48
      prefix == IF ~zero THEN ""
                ELSE IF c1 = 120 THEN "x" ELSE IF c1 = 111 THEN "o" ELSE IF c1 = 98 THEN "b"
                ELSE "0"
      radix == prefix \in {"x", "o", "b"}
      base == IF prefix = "x" THEN 16 ELSE IF prefix = "o" \/ prefix = "0" THEN 8
              ELSE IF prefix = "b" THEN 2 ELSE 10
      \* a 0 followed by _ or by a digit is malformed
      badZero == zero /\ ~radix /\ (c1 = 95 \/ IsDecimal(c1))
      j == IF radix THEN i + 2 ELSE IF zero THEN i + 1 ELSE i
      I == IF seenDot0 THEN [i |-> i, dig |-> FALSE, sep |-> FALSE, invalid |-> FALSE]
           ELSE Digits(cps, j, base)
      noDigits == ~seenDot0 /\ ~(I.dig \/ prefix = "0")
      lead_ == ~seenDot0 /\ At(cps, j) = 95           \* underscore after the prefix
      dotAfterInt == ~seenDot0 /\ At(cps, I.i) = 46
      stopAtDot == dotAfterInt /\ radix              \* 0x1.a is 0x1 then .a
      seenDot == seenDot0 \/ (dotAfterInt /\ ~radix)
      k == IF seenDot0 THEN i ELSE IF seenDot THEN I.i + 1 ELSE I.i
      F == IF seenDot THEN Digits(cps, k, base)
           ELSE [i |-> k, dig |-> FALSE, sep |-> FALSE, invalid |-> FALSE]
      hasExp == ~stopAtDot /\ LowerAscii(At(cps, F.i)) = 101
      sgn == hasExp /\ (At(cps, F.i + 1) = 43 \/ At(cps, F.i + 1) = 45)
      E == IF hasExp THEN Digits(cps, IF sgn THEN F.i + 2 ELSE F.i + 1, 10)
           ELSE [i |-> F.i, dig |-> FALSE, sep |-> FALSE, invalid |-> FALSE]
      end == IF stopAtDot THEN I.i ELSE E.i
      isInt == ~seenDot /\ ~hasExp
      text == SubSeq(cps, start, end - 1)
      junk == IF stopAtDot THEN "n" ELSE IdentRune(At(cps, end), 0)
  IN  IF badZero \/ lead_ \/ noDigits THEN SErr
      ELSE IF hasExp /\ radix THEN SErr              \* exponent requires decimal mantissa
      ELSE IF hasExp /\ ~E.dig THEN SErr             \* exponent has no digits
      ELSE IF isInt /\ I.invalid THEN SErr           \* invalid digit in literal
      ELSE IF (I.sep \/ F.sep \/ E.sep) /\ InvalidSep(text) THEN SErr
      ELSE IF junk = "y" THEN SErr                   \* trailing junk after numeric literal
      ELSE IF junk = "?" THEN SOpq
      ELSE SOk(Tok(IF isInt THEN "int" ELSE "numeric", text), end)

-----------------------------------------------------------------------------
(* Lex: the token starting at or after index i (white space and comments    *)
(* skipped).                                                                *)
RECURSIVE SkipSpace(_, _)
SkipSpace(cps, i) ==
  IF At(cps, i) \in {9, 10, 13, 32} THEN SkipSpace(cps, i + 1) ELSE i

RECURSIVE NextToken(_, _)
NextToken(cps, i0) ==
  LET i  == SkipSpace(cps, i0)
      ch == At(cps, i)
      id == IdentRune(ch, 0)
  IN  IF ch = -1 THEN SOk(Tok("eof", <<>>), i)
      ELSE IF id = "?" THEN SOpq
      ELSE IF id = "y" THEN ScanIdent(cps, i)
      ELSE IF IsDecimal(ch) THEN ScanNumber(cps, i, FALSE)
      ELSE IF ch = 34 THEN ScanString(cps, i + 1, "str")
      ELSE IF ch = 36 THEN ScanVariable(cps, i + 1)
      ELSE IF ch = 47 THEN
           IF At(cps, i + 1) = 42
           THEN LET c == ScanComment(cps, i + 2) IN
                IF c.st # "ok" THEN SErr ELSE NextToken(cps, c.i)
           ELSE SOk(Tok("/", <<>>), i + 1)
      ELSE IF ch = 46 THEN
           IF IsDecimal(At(cps, i + 1)) THEN ScanNumber(cps, i + 1, TRUE)
           ELSE SOk(Tok(".", <<>>), i + 1)
      ELSE ScanOperator(cps, i)

(* The whole token sequence, ending in "eof" or "opaque";                   *)
(* [st |-> "err"] if the scanner reports an error anywhere before that.     *)
RECURSIVE TokensFrom(_, _, _)
TokensFrom(cps, i, acc) ==
  LET r == NextToken(cps, i) IN
  IF r.st = "err" THEN [st |-> "err"]
  ELSE IF r.st = "opaque" THEN [st |-> "ok", ts |-> Append(acc, Tok("opaque", <<>>))]
  ELSE IF r.tok.t = "eof" THEN [st |-> "ok", ts |-> Append(acc, r.tok)]
  ELSE TokensFrom(cps, r.i, Append(acc, r.tok))
Tokens(cps) == TokensFrom(cps, 1, <<>>)

-----------------------------------------------------------------------------
(* Literal values (ast.NewInteger, ast.NewNumeric): [ok, v]                 *)

RECURSIVE RadixValue(_, _, _, _)
RadixValue(ds, k, sh, acc) ==
  IF k > Len(ds) THEN acc
  ELSE RadixValue(ds, k + 1, sh, BNAdd(BNMul2k(acc, sh), BN(ds[k])))

\* the mathematical value of an "int" token text
IntegerValue(text) ==
  LET radix == Len(text) >= 2 /\ text[1] = 48 /\ LowerAscii(text[2]) \in {120, 111, 98}
      p  == IF radix THEN LowerAscii(text[2]) ELSE 0
      body == SelectSeq(SubSeq(text, IF radix THEN 3 ELSE 1, Len(text)), LAMBDA c : c # 95)
      ds == [k \in 1..Len(body) |-> HexVal(body[k])]
  IN  IF ~radix THEN BNFromDecimal(FALSE, ds, 0)
      ELSE RadixValue(ds, 1, IF p = 120 THEN 4 ELSE IF p = 111 THEN 3 ELSE 1, BNZero)

\* an integer literal must fit int64
NewInteger(text) ==
  LET v == IntegerValue(text) IN
  IF BNFitsInt64(v) THEN [ok |-> TRUE, v |-> VNum("i", v)] ELSE [ok |-> FALSE]

FirstIndex(s, S) ==          \* least index holding a member of S, 0 if none
  LET K == {k \in 1..Len(s) : s[k] \in S} IN
  IF K = {} THEN 0 ELSE CHOOSE k \in K : \A j \in K : k <= j

RECURSIVE ExpNat(_, _, _)
ExpNat(ds, k, acc) ==      \* decimal digits as a natural, capped at 10^6
  IF k > Len(ds) \/ acc >= 1000000 THEN (IF acc > 1000000 THEN 1000000 ELSE acc)
  ELSE ExpNat(ds, k + 1, acc * 10 + (ds[k] - 48))

RECURSIVE DropLeadingZeros(_)
DropLeadingZeros(ds) == IF ds # <<>> /\ ds[1] = 0 THEN DropLeadingZeros(Tail(ds)) ELSE ds

(* A NUMERIC_P literal denotes the float64 nearest to its decimal value     *)
(* (ties to even); one that rounds to infinity is rejected.                 *)
NewNumeric(text) ==
  LET ePos == FirstIndex(text, {101, 69})
      mantTxt == IF ePos = 0 THEN text ELSE SubSeq(text, 1, ePos - 1)
      dot == FirstIndex(mantTxt, {46})
      fracLen == IF dot = 0 THEN 0
                 ELSE Len(SelectSeq(SubSeq(mantTxt, dot + 1, Len(mantTxt)), IsDecimal))
      mdig == SelectSeq(mantTxt, IsDecimal)
      D == DropLeadingZeros([k \in 1..Len(mdig) |-> mdig[k] - 48])
      expTxt == IF ePos = 0 THEN <<>> ELSE SubSeq(text, ePos + 1, Len(text))
      expNeg == expTxt # <<>> /\ expTxt[1] = 45
      expAbs == ExpNat(SelectSeq(expTxt, IsDecimal), 1, 0)
      e10 == (IF expNeg THEN -expAbs ELSE expAbs) - fracLen
      top == Len(D) + e10        \* 10^(top-1) <= value < 10^top
      r == IF e10 >= 0 THEN BNRoundToDouble(BNFromDecimal(FALSE, D, e10))
           ELSE BNDivToDouble(BNFromDecimal(FALSE, D, 0), BNPow10(-e10))
  IN  IF D = <<>> THEN [ok |-> TRUE, v |-> VNum("f", BNZero)]
      ELSE IF top > 400 THEN [ok |-> FALSE]
      ELSE IF top < -400 THEN [ok |-> TRUE, v |-> VNum("f", BNZero)]
      ELSE IF "inf" \in DOMAIN r THEN [ok |-> FALSE]
      ELSE [ok |-> TRUE, v |-> VNum("f", r)]

(* ast.NewUnaryOrNumber: a sign in front of a bare numeric literal is part  *)
(* of the literal; in front of anything else it is the unary operator.      *)
NewUnaryOrNumber(op, chain) ==
  IF Len(chain) = 1 /\ chain[1].k = "num"
  THEN IF op = "plus" THEN chain
       ELSE <<NNum(VNum(chain[1].v.rep, BNNeg(chain[1].v.n)))>>
  ELSE <<NUn(op, chain)>>

(* ast.NewAny for a level token: "last" is -1 (unbounded); an integer       *)
(* literal is its value; -2 marks a level this specification does not       *)
(* represent (2^31 or more).                                                *)
AnyLevel(tok) ==
  IF tok.t = "last" THEN -1
  ELSE LET v == IntegerValue(tok.s) IN IF BNFitsInt32(v) THEN BNToInt(v) ELSE -2

-----------------------------------------------------------------------------
(* like_regex (ast.NewRegex)                                                *)

RegexMeta == {92, 46, 43, 42, 63, 40, 41, 124, 91, 93, 123, 125, 94, 36}

\* only i s m x q, repeats allowed
RegexFlags(f) ==
  IF \E k \in 1..Len(f) : f[k] \notin {105, 115, 109, 120, 113} THEN [ok |-> FALSE]
  ELSE [ok |-> TRUE, flags |-> [i |-> \E k \in 1..Len(f) : f[k] = 105,
                                 s |-> \E k \in 1..Len(f) : f[k] = 115,
                                 m |-> \E k \in 1..Len(f) : f[k] = 109,
                                 x |-> \E k \in 1..Len(f) : f[k] = 120,
                                 q |-> \E k \in 1..Len(f) : f[k] = 113]]

(* A pattern of literal characters, dots and anchors in which every         *)
(* quantifier follows a literal character or a dot directly.                *)
RECURSIVE SimpleRegexFrom(_, _, _)
SimpleRegexFrom(p, k, atom) ==
  IF k > Len(p) THEN TRUE
  ELSE LET c == p[k] IN
       IF c \notin RegexMeta \/ c = 46 THEN SimpleRegexFrom(p, k + 1, TRUE)
       ELSE IF c = 94 \/ c = 36 THEN SimpleRegexFrom(p, k + 1, FALSE)
       ELSE IF c \in {42, 43, 63} THEN atom /\ SimpleRegexFrom(p, k + 1, FALSE)
       ELSE FALSE

BadRegexSamples ==
  { <<40>>, <<41>>, <<91>>, <<42>>, <<43>>, <<63>>, <<92>>,      \* ( ) [ * + ? \
    <<97, 42, 42>>, <<97, 43, 43>>, <<91, 97>>, <<40, 97>>, <<97, 41>>,  \* a** a++ [a (a a)
    <<97, 123, 50, 44, 49, 125>> }                               \* a{2,1}

\* "valid", "invalid" or "opaque"
RegexClass(pat, flags) ==
  IF flags.q THEN "valid"
  ELSE IF \A k \in 1..Len(pat) : pat[k] \notin RegexMeta THEN "valid"
  ELSE IF pat \in BadRegexSamples THEN "invalid"
  ELSE IF SimpleRegexFrom(pat, 1, FALSE) THEN "valid"
  ELSE RxPatternClass(pat, flags)          \* the RE2 fragment of spec/Regex.tla: "valid", "invalid" or "opaque"

(* [st |-> "ok", node] | [st |-> "reject"]; an undecided pattern gives the  *)
(* node with an extra field opaque.                                         *)
NewRegex(x, pat, flagTxt) ==
  LET f == RegexFlags(flagTxt) IN
  IF ~f.ok THEN [st |-> "reject"]
  ELSE IF f.flags.x /\ ~f.flags.q THEN [st |-> "reject"]     \* x is not implemented
  ELSE LET c == RegexClass(pat, f.flags) IN
       IF c = "invalid" THEN [st |-> "reject"]
       ELSE IF c = "valid" THEN [st |-> "ok", node |-> NRegex(x, pat, f.flags)]
       ELSE [st |-> "ok", node |-> [k |-> "regex", x |-> x, pat |-> pat, flags |-> f.flags,
                                    opaque |-> TRUE]]

-----------------------------------------------------------------------------
(* The grammar (grammar.y).  Parser results:                                *)
(*   [st |-> "ok", p |-> next token index, kind |-> "expr" | "pred",        *)
(*    chain |-> chain]        kind "pred": a one-node chain, the predicate  *)
(*   [st |-> "fail", p]       the token at p cannot continue any sentence   *)
(*   [st |-> "reject"]        a semantic action refuses (literal out of     *)
(*                            range, bad like_regex, .decimal(1,2,3))       *)
(* The levels follow the precedence declarations:                           *)
(*   OR < AND < NOT < comparison < + - < * / % < unary sign < accessors.    *)
POk(p, kind, chain) == [st |-> "ok", p |-> p, kind |-> kind, chain |-> chain]
\* kind of the token at p ("eof" beyond the end: look-ahead past the last token)
TK(ts, p) == IF p > Len(ts) THEN "eof" ELSE ts[p].t
PFail(p) == [st |-> "fail", p |-> p]
PReject == [st |-> "reject"]

CompOps == {"eq", "ne", "lt", "gt", "le", "ge"}
MethodNames == {"abs", "size", "type", "floor", "double", "ceiling", "keyvalue",
                "bigint", "boolean", "integer", "number", "string"}
PrecisionMethods == {"time", "time_tz", "timestamp", "timestamp_tz"}

RECURSIVE POr(_, _), POrRest(_, _), PAnd(_, _), PAndRest(_, _), PNot(_, _),
          PCmp(_, _), PAdd(_, _), PAddRest(_, _), PMul(_, _), PMulRest(_, _),
          PUnary(_, _), PPrimary(_, _), PExists(_, _), PAccessors(_, _, _),
          PAccessor(_, _), PIndexList(_, _, _), PCsvList(_, _, _)

(* predicate: predicate OR_P predicate  (left associative)                  *)
POr(ts, p) ==
  LET l == PAnd(ts, p) IN IF l.st # "ok" THEN l ELSE POrRest(ts, l)
POrRest(ts, l) ==
  IF TK(ts, l.p) # "or" THEN l
  ELSE IF l.kind # "pred" THEN PFail(l.p)
  ELSE LET r == PAnd(ts, l.p + 1) IN
       IF r.st # "ok" THEN r
       ELSE IF r.kind # "pred" THEN PFail(r.p)
       ELSE POrRest(ts, POk(r.p, "pred", <<NBin("or", l.chain, r.chain)>>))

(* predicate: predicate AND_P predicate                                     *)
PAnd(ts, p) ==
  LET l == PNot(ts, p) IN IF l.st # "ok" THEN l ELSE PAndRest(ts, l)
PAndRest(ts, l) ==
  IF TK(ts, l.p) # "and" THEN l
  ELSE IF l.kind # "pred" THEN PFail(l.p)
  ELSE LET r == PNot(ts, l.p + 1) IN
       IF r.st # "ok" THEN r
       ELSE IF r.kind # "pred" THEN PFail(r.p)
       ELSE PAndRest(ts, POk(r.p, "pred", <<NBin("and", l.chain, r.chain)>>))

(* predicate: NOT_P delimited_predicate                                     *)
(* delimited_predicate: '(' predicate ')' | EXISTS_P '(' expr ')'           *)
PNot(ts, p) ==
  IF TK(ts, p) # "not" THEN PCmp(ts, p)
  ELSE IF TK(ts, p + 1) = "(" THEN
       LET r == POr(ts, p + 2) IN
       IF r.st # "ok" THEN r
       ELSE IF r.kind # "pred" \/ TK(ts, r.p) # ")" THEN PFail(r.p)
       ELSE POk(r.p + 1, "pred", <<NUn("not", r.chain)>>)
  ELSE IF TK(ts, p + 1) = "exists" THEN
       LET e == PExists(ts, p + 1) IN
       IF e.st # "ok" THEN e ELSE POk(e.p, "pred", <<NUn("not", e.chain)>>)
  ELSE PFail(p + 1)

(* predicate: expr comp_op expr | expr STARTS_P WITH_P starts_with_initial  *)
(*          | expr LIKE_REGEX_P STRING_P [ FLAG_P STRING_P ]                *)
(* (not associative: the result is a predicate, the operands are exprs)     *)
PCmp(ts, p) ==
  LET l == PAdd(ts, p) IN
  IF l.st # "ok" THEN l
  ELSE LET t == TK(ts, l.p) IN
    IF t \in CompOps THEN
         IF l.kind # "expr" THEN PFail(l.p)
         ELSE LET r == PAdd(ts, l.p + 1) IN
              IF r.st # "ok" THEN r
              ELSE IF r.kind # "expr" THEN PFail(r.p)
              ELSE POk(r.p, "pred", <<NBin(t, l.chain, r.chain)>>)
    ELSE IF t = "starts" THEN
         IF l.kind # "expr" THEN PFail(l.p)
         ELSE IF TK(ts, l.p + 1) # "with" THEN PFail(l.p + 1)
         ELSE LET a == ts[l.p + 2] IN
              IF a.t = "str" THEN POk(l.p + 3, "pred", <<NBin("starts", l.chain, <<NStr(a.s)>>)>>)
              ELSE IF a.t = "var" THEN POk(l.p + 3, "pred", <<NBin("starts", l.chain, <<NVar(a.s)>>)>>)
              ELSE PFail(l.p + 2)
    ELSE IF t = "like_regex" THEN
         IF l.kind # "expr" THEN PFail(l.p)
         ELSE IF TK(ts, l.p + 1) # "str" THEN PFail(l.p + 1)
         ELSE IF TK(ts, l.p + 2) = "flag" THEN
              IF TK(ts, l.p + 3) # "str" THEN PFail(l.p + 3)
              ELSE LET n == NewRegex(l.chain, ts[l.p + 1].s, ts[l.p + 3].s) IN
                   IF n.st # "ok" THEN PReject ELSE POk(l.p + 4, "pred", <<n.node>>)
         ELSE LET n == NewRegex(l.chain, ts[l.p + 1].s, <<>>) IN
              IF n.st # "ok" THEN PReject ELSE POk(l.p + 2, "pred", <<n.node>>)
    ELSE l

(* expr: expr '+' expr | expr '-' expr                                      *)
PAdd(ts, p) ==
  LET l == PMul(ts, p) IN IF l.st # "ok" THEN l ELSE PAddRest(ts, l)
PAddRest(ts, l) ==
  LET t == TK(ts, l.p) IN
  IF t # "+" /\ t # "-" THEN l
  ELSE IF l.kind # "expr" THEN PFail(l.p)
  ELSE LET r == PMul(ts, l.p + 1) IN
       IF r.st # "ok" THEN r
       ELSE IF r.kind # "expr" THEN PFail(r.p)
       ELSE PAddRest(ts, POk(r.p, "expr",
                              <<NBin(IF t = "+" THEN "add" ELSE "sub", l.chain, r.chain)>>))

(* expr: expr '*' expr | expr '/' expr | expr '%' expr                      *)
PMul(ts, p) ==
  LET l == PUnary(ts, p) IN IF l.st # "ok" THEN l ELSE PMulRest(ts, l)
PMulRest(ts, l) ==
  LET t == TK(ts, l.p) IN
  IF t # "*" /\ t # "/" /\ t # "%" THEN l
  ELSE IF l.kind # "expr" THEN PFail(l.p)
  ELSE LET r == PUnary(ts, l.p + 1) IN
       IF r.st # "ok" THEN r
       ELSE IF r.kind # "expr" THEN PFail(r.p)
       ELSE PMulRest(ts, POk(r.p, "expr",
                              <<NBin(IF t = "*" THEN "mul" ELSE IF t = "/" THEN "div" ELSE "mod",
                                     l.chain, r.chain)>>))

(* expr: '+' expr %prec UMINUS | '-' expr %prec UMINUS                      *)
PUnary(ts, p) ==
  LET t == TK(ts, p) IN
  IF t # "+" /\ t # "-" THEN PPrimary(ts, p)
  ELSE LET r == PUnary(ts, p + 1) IN
       IF r.st # "ok" THEN r
       ELSE IF r.kind # "expr" THEN PFail(r.p)
       ELSE POk(r.p, "expr", NewUnaryOrNumber(IF t = "+" THEN "plus" ELSE "minus", r.chain))

(* delimited_predicate: EXISTS_P '(' expr ')' ; p is the index of EXISTS_P  *)
PExists(ts, p) ==
  IF TK(ts, p + 1) # "(" THEN PFail(p + 1)
  ELSE LET r == PAdd(ts, p + 2) IN
       IF r.st # "ok" THEN r
       ELSE IF r.kind # "expr" \/ TK(ts, r.p) # ")" THEN PFail(r.p)
       ELSE POk(r.p + 1, "pred", <<NUn("exists", r.chain)>>)

(* path_primary, accessor_expr, '(' expr ')', '(' predicate ')' with what   *)
(* may follow the closing parenthesis, and EXISTS_P.                        *)
PPrimary(ts, p) ==
  LET tok == ts[p]
      t == tok.t
      Hd(n) == PAccessors(ts, p + 1, <<n>>)
  IN  CASE t = "$"     -> Hd(NRoot)
        [] t = "@"     -> Hd(NCur)
        [] t = "last"  -> Hd(NLast)
        [] t = "null"  -> Hd(NNull)
        [] t = "true"  -> Hd(NTrue)
        [] t = "false" -> Hd(NFalse)
        [] t = "str"   -> Hd(NStr(tok.s))
        [] t = "var"   -> Hd(NVar(tok.s))
        [] t = "int"   -> LET v == NewInteger(tok.s) IN
                          IF v.ok THEN Hd(NNum(v.v)) ELSE PReject
        [] t = "numeric" -> LET v == NewNumeric(tok.s) IN
                            IF v.ok THEN Hd(NNum(v.v)) ELSE PReject
        [] t = "exists" -> PExists(ts, p)
        [] t = "(" ->
             LET r == POr(ts, p + 1) IN
             IF r.st # "ok" THEN r
             ELSE IF TK(ts, r.p) # ")" THEN PFail(r.p)
             ELSE LET q == r.p + 1 IN
                  IF TK(ts, q) \in {".", "[", "?"} THEN PAccessors(ts, q, r.chain)
                  ELSE IF r.kind = "pred" /\ TK(ts, q) = "is" THEN
                       IF TK(ts, q + 1) = "unknown"
                       THEN POk(q + 2, "pred", <<NUn("isunknown", r.chain)>>)
                       ELSE PFail(q + 1)
                  ELSE POk(q, r.kind, r.chain)
        [] OTHER -> PFail(p)

(* accessor_expr: accessor_expr accessor_op                                 *)
PAccessors(ts, p, chain) ==
  IF TK(ts, p) \notin {".", "[", "?"} THEN POk(p, "expr", chain)
  ELSE LET a == PAccessor(ts, p) IN
       IF a.st # "ok" THEN a ELSE PAccessors(ts, a.p, Append(chain, a.node))

AOk(p, node) == [st |-> "ok", p |-> p, node |-> node]

(* accessor_op, array_accessor, any_path, key, method and the methods with  *)
(* arguments; p is the index of the '.', '[' or '?'.                        *)
PAccessor(ts, p) ==
  LET u == ts[p + 1]
      par == TK(ts, p + 2) = "("
  IN
  IF TK(ts, p) = "?" THEN
       IF u.t # "(" THEN PFail(p + 1)
       ELSE LET r == POr(ts, p + 2) IN
            IF r.st # "ok" THEN r
            ELSE IF r.kind # "pred" \/ TK(ts, r.p) # ")" THEN PFail(r.p)
            ELSE AOk(r.p + 1, NFilter(r.chain[1]))
  ELSE IF TK(ts, p) = "[" THEN
       IF u.t = "*" THEN
            IF TK(ts, p + 2) = "]" THEN AOk(p + 3, NAnyArr) ELSE PFail(p + 2)
       ELSE PIndexList(ts, p + 1, <<>>)
  ELSE \* '.'
  IF u.t = "*" THEN AOk(p + 2, NAnyKey)
  ELSE IF u.t = "any" THEN
       IF TK(ts, p + 2) # "{" THEN AOk(p + 2, NAny(0, -1))
       ELSE IF TK(ts, p + 3) \notin {"int", "last"} THEN PFail(p + 3)
       ELSE LET a == AnyLevel(ts[p + 3]) IN
            IF TK(ts, p + 4) = "}" THEN AOk(p + 5, NAny(a, a))
            ELSE IF TK(ts, p + 4) # "to" THEN PFail(p + 4)
            ELSE IF TK(ts, p + 5) \notin {"int", "last"} THEN PFail(p + 5)
            ELSE IF TK(ts, p + 6) # "}" THEN PFail(p + 6)
            ELSE AOk(p + 7, NAny(a, AnyLevel(ts[p + 5])))
  ELSE IF par /\ u.t \in MethodNames THEN
       IF TK(ts, p + 3) = ")" THEN AOk(p + 4, NMethod(u.t)) ELSE PFail(p + 3)
  ELSE IF par /\ u.t = "date" THEN
       IF TK(ts, p + 3) = ")" THEN AOk(p + 4, NDT("date")) ELSE PFail(p + 3)
  ELSE IF par /\ u.t = "datetime" THEN
       IF TK(ts, p + 3) = ")" THEN AOk(p + 4, NDT("datetime"))
       ELSE IF TK(ts, p + 3) # "str" THEN PFail(p + 3)
       ELSE IF TK(ts, p + 4) # ")" THEN PFail(p + 4)
       ELSE AOk(p + 5, NDTArg("datetime", NStr(ts[p + 3].s)))
  ELSE IF par /\ u.t \in PrecisionMethods THEN
       IF TK(ts, p + 3) = ")" THEN AOk(p + 4, NDT(u.t))
       ELSE IF TK(ts, p + 3) # "int" THEN PFail(p + 3)
       ELSE IF TK(ts, p + 4) # ")" THEN PFail(p + 4)
       ELSE LET v == NewInteger(ts[p + 3].s) IN
            IF v.ok THEN AOk(p + 5, NDTArg(u.t, NNum(v.v))) ELSE PReject
  ELSE IF par /\ u.t = "decimal" THEN
       IF TK(ts, p + 3) = ")" THEN AOk(p + 4, NDecimal0) ELSE PCsvList(ts, p + 3, <<>>)
  ELSE IF u.t = "ident" \/ u.t = "str" \/ IsKeyword(u.t) THEN AOk(p + 2, NKey(u.s))
  ELSE PFail(p + 1)

(* index_list: index_elem (',' index_elem)* ']' ; index_elem: expr [TO_P expr] *)
PIndexList(ts, p, subs) ==
  LET f == PAdd(ts, p) IN
  IF f.st # "ok" THEN f
  ELSE IF f.kind # "expr" THEN PFail(f.p)
  ELSE LET hasTo == TK(ts, f.p) = "to"
           t2 == IF hasTo THEN PAdd(ts, f.p + 1) ELSE f
       IN  IF t2.st # "ok" THEN t2
           ELSE IF t2.kind # "expr" THEN PFail(t2.p)
           ELSE LET s == IF hasTo THEN Sub2(f.chain, t2.chain) ELSE Sub1(f.chain)
                    all == Append(subs, s)
                IN  IF TK(ts, t2.p) = "," THEN PIndexList(ts, t2.p + 1, all)
                    ELSE IF TK(ts, t2.p) = "]" THEN AOk(t2.p + 1, NIdx(all))
                    ELSE PFail(t2.p)

(* opt_csv_list of .decimal(...): csv_elem: INT_P | '+' INT_P | '-' INT_P;  *)
(* at most precision and scale.                                             *)
PCsvList(ts, p, vals) ==
  LET signed == TK(ts, p) = "+" \/ TK(ts, p) = "-"
      q == IF signed THEN p + 1 ELSE p
  IN  IF TK(ts, q) # "int" THEN PFail(q)
      ELSE LET v == NewInteger(ts[q].s) IN
           IF ~v.ok THEN PReject
           ELSE LET w == IF TK(ts, p) = "-" THEN VNum("i", BNNeg(v.v.n)) ELSE v.v
                    all == Append(vals, w)
                IN  IF TK(ts, q + 1) = "," THEN PCsvList(ts, q + 2, all)
                    ELSE IF TK(ts, q + 1) # ")" THEN PFail(q + 1)
                    ELSE IF Len(all) > 2 THEN PReject
                    ELSE IF Len(all) = 1 THEN AOk(q + 2, NDecimal1(all[1]))
                    ELSE AOk(q + 2, NDecimal2(all[1], all[2]))

-----------------------------------------------------------------------------
(* The second pass (ast.validateNode): @ only inside a filter, last only    *)
(* inside an array subscript.  Findings: "err", "opaque".                   *)
RECURSIVE ValidateChain(_, _, _), ValidateNode(_, _, _)
ValidateChain(ch, depth, inSub) ==
  UNION {ValidateNode(ch[k], depth, inSub) : k \in 1..Len(ch)}
ValidateNode(n, depth, inSub) ==
  CASE n.k = "cur"    -> IF depth <= 0 THEN {"err"} ELSE {}
    [] n.k = "last"   -> IF ~inSub THEN {"err"} ELSE {}
    [] n.k = "bin"    -> ValidateChain(n.l, depth, inSub) \cup ValidateChain(n.r, depth, inSub)
    [] n.k = "un"     -> ValidateChain(n.x, depth, inSub)
    [] n.k = "filter" -> ValidateNode(n.p, depth + 1, inSub)
    [] n.k = "regex"  -> ValidateChain(n.x, depth, inSub)
                         \cup (IF "opaque" \in DOMAIN n THEN {"opaque"} ELSE {})
    [] n.k = "idx"    -> UNION { ValidateChain(n.subs[j].from, depth, TRUE)
                                 \cup (IF n.subs[j].hasTo
                                       THEN ValidateChain(n.subs[j].to, depth, TRUE) ELSE {})
                                 : j \in 1..Len(n.subs) }
    [] n.k = "any"    -> IF n.first = -2 \/ n.last = -2 THEN {"opaque"} ELSE {}
    [] OTHER          -> {}

-----------------------------------------------------------------------------
(* result: mode expr_or_predicate                                           *)
PResult(ts) ==
  LET m == TK(ts, 1)
      p0 == IF m = "strict" \/ m = "lax" THEN 2 ELSE 1
      r == POr(ts, p0)
  IN  IF r.st # "ok" THEN r
      ELSE IF TK(ts, r.p) # "eof" THEN PFail(r.p)
      ELSE [st |-> "ok", path |-> [lax |-> m # "strict", pred |-> r.kind = "pred", chain |-> r.chain]]

(* ParseStatus: [st |-> "ok", path] | [st |-> "reject"] | [st |-> "opaque"]  *)
(* (the same answer as ParseSpec with a status TLC can compare: TLC refuses *)
(* to compare the booleans of ParseSpec's ok field with the string "opaque")*)
ParseTokens(ts) ==
  LET r == PResult(ts) IN
  IF r.st = "reject" THEN [st |-> "reject"]
  ELSE IF r.st = "fail" THEN [st |-> IF TK(ts, r.p) = "opaque" THEN "opaque" ELSE "reject"]
  ELSE LET f == ValidateChain(r.path.chain, 0, FALSE) IN
       IF "err" \in f THEN [st |-> "reject"]
       ELSE IF "opaque" \in f THEN [st |-> "opaque"]
       ELSE [st |-> "ok", path |-> r.path]

ParseStatus(bytes) ==
  LET d == DecodeUTF8(bytes) IN
  IF ~d.ok THEN [st |-> "reject"]
  ELSE LET tk == Tokens(d.cps) IN
       IF tk.st = "err" THEN [st |-> "reject"] ELSE ParseTokens(tk.ts)

ParseSpec(bytes) ==
  LET r == ParseStatus(bytes) IN
  IF r.st = "ok" THEN [ok |-> TRUE, path |-> r.path]
  ELSE IF r.st = "opaque" THEN [ok |-> "opaque"]
  ELSE [ok |-> FALSE]
=============================================================================
