----------------------------- MODULE MC_DTPairs -----------------------------
\* The datetime order on the special values only, exhaustively: every ordered
\* pair and every triple x every context zone satisfies the laws of DTLaws
\* (antisymmetry, transitivity, time / date incomparability, zone-crossing
\* errors without WithTZ, identities through timestamptz).  Small enough for
\* the checks of C01 and C12, which replay the exported values on the code.
EXTENDS DTLaws

ASSUME ndJsonSerialize("dtspecial.ndjson", [n \in 1..Len(SpecialSeq) |-> [s |-> SpecialSeq[n]]])
ASSUME PrintT(<<"UNIVERSE", Len(SpecialSeq)>>)
Val(n) == ParseISO(SpecialSeq[n], -1)

VARIABLES i, j, k, zone
Init == i \in 1..Len(SpecialSeq) /\ j \in 1..Len(SpecialSeq) /\ k = 0 /\ zone \in CtxZones
Step == k = 0 /\ k' \in 1..Len(SpecialSeq) /\ UNCHANGED <<i, j, zone>>
Inv == LET a == Val(i)  b == Val(j)
       IN /\ a.ok = "y" /\ b.ok = "y"
          /\ IF k = 0 THEN PairLaw(a.v, b.v, zone)
             ELSE LET c == Val(k) IN c.ok = "y" /\ TripleLaw(a.v, b.v, c.v, zone)
=============================================================================
