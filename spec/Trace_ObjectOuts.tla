-------------------------- MODULE Trace_ObjectOuts --------------------------
(* C19, second half: every distinct outcome any call produced - alone,      *)
(* concurrently or after a history - must be an outcome PathSem permits for *)
(* that call (ObjectLaws!JudgeEntry).  One initial state per outcome.       *)
EXTENDS ObjectLaws, TraceCommon, Json

Paths  == ndJsonDeserialize("paths.ndjson")
Docs   == ndJsonDeserialize("docs.ndjson")
VarsT  == ndJsonDeserialize("vars.ndjson")
CallsT == ndJsonDeserialize("calls.ndjson")
Outs   == ndJsonDeserialize("outs.ndjson")      \* this shard: [id, call, o, txt]

CaseOfCall(k) ==
  LET c == CallsT[k]
  IN [path |-> [lax |-> c.lax, pred |-> Paths[c.pi].pred, chain |-> Paths[c.pi].chain],
      doc |-> Docs[c.di].doc, vars |-> VarsT[c.vi].vars, silent |-> c.silent, useTZ |-> c.useTZ, zone |-> c.zone]

Judge(o) ==
  LET en == CallsT[o.call].entry
  IN IF en \in {"string", "parse", "realias"}
     THEN (IF o.o.bad # "" THEN {"C19." \o o.o.bad} ELSE IF o.o.e = "none:" /\ o.txt # <<>> THEN {} ELSE {"C19.crash"})      \* the text itself is compared with the solo text in Trace_Object
     ELSE JudgeEntry(CaseOfCall(o.call), IF en = "query2v" THEN "query" ELSE en, DecodeEntry(o.o))   \* query2v: Query with two WithVars options meaning the same

VARIABLES l, verdict
Init == /\ l \in 1..Len(Outs)
        /\ verdict = Judge(Outs[l])
        /\ \A cl \in verdict : PrintT(<<"V", Outs[l].id, cl>>)
Step == UNCHANGED <<l, verdict>>
=============================================================================
