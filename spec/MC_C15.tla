------------------------------- MODULE MC_C15 -------------------------------
\* C15: wildcards and recursive descent visit exactly the right nodes once.
\* Universe: all JSON trees up to MaxNodes nodes over {1, "x"}, keys {a, b}
\* (including [] and {} at every position) x the wildcard member accessor, the
\* wildcard array accessor, and recursive descent with every level range
\* {k}, {a to b}, {last}, {a to last} for a, b in 0..MaxLevel, alone and
\* followed by a member accessor -- which in strict mode must skip the nodes
\* it does not apply to.
\* Laws on the specification:
\*   wildcard member = each member value once; wildcard array = the elements
\*   descent{a to b} = the pre-order walk restricted to depths a..b (Oracles)
\*   plain descent = {0 to last};  {k} = k applications of "any child"
\*   {last} = the scalar leaves below the item
\*   strict descent followed by .a = the .a members of visited objects, no error
EXTENDS ExecLaws, Universe, Oracles, SequencesExt, Json

CONSTANTS MaxNodes, MaxLevel

Levels == 0..MaxLevel
AnySteps == {NAny(0, -1), NAny(-1, -1)} \cup {NAny(k, k) : k \in Levels}
            \cup {NAny(a, b) : a \in Levels, b \in Levels} \cup {NAny(a, -1) : a \in Levels}
            \cup {NAny(-1, b) : b \in Levels}     \* {last to b}: depths from "unbounded" to b: nothing
Followers == {NKey(KA), NAnyKey}
PathSet == {<<NRoot, NAnyKey>>, <<NRoot, NAnyArr>>}
           \cup {<<NRoot, s>> : s \in AnySteps}
           \cup {<<NRoot, s, f>> : s \in AnySteps, f \in Followers}
           \cup {<<NRoot, NAnyKey, NAnyKey>>, <<NRoot, NAnyArr, NAnyArr>>, <<NRoot, NAnyKey, NAnyArr>>}
PathSeq == SetToSeq(PathSet)
DocSeq == SetToSeq(TreesUpTo({VFlt(1), VStr(KX)}, <<KA, KB>>, MaxNodes))

ASSUME ndJsonSerialize("paths.ndjson", [i \in 1..Len(PathSeq) |-> [pred |-> FALSE, chain |-> PathSeq[i]]])
ASSUME ndJsonSerialize("docs.ndjson", [i \in 1..Len(DocSeq) |-> [doc |-> DocSeq[i]]])
ASSUME PrintT(<<"UNIVERSE", Len(PathSeq), Len(DocSeq)>>)

VARIABLES pi, di, lax

CaseOfChain(ch, d, lx) ==
  [path |-> [lax |-> lx, pred |-> FALSE, chain |-> ch], doc |-> d, vars |-> <<>>,
   silent |-> FALSE, useTZ |-> FALSE, zone |-> "UTC"]

\* k applications of "any child" (children of arrays in order, of objects
\* in key order), computed on whole sequences
RECURSIVE KFold(_, _)
KFold(xs, k) ==
  IF k = 0 THEN xs
  ELSE KFold(ConcatAll([j \in 1..Len(xs) |-> Kids(xs[j])], 1), k - 1)

\* member accessor over a node sequence, skipping what it does not apply to;
\* lax mode additionally looks into the elements of array nodes (one level)
RECURSIVE KeyOver(_, _, _, _)
KeyOver(xs, j, key, lx) ==
  IF j > Len(xs) THEN <<>>
  ELSE LET v == xs[j]
           here == IF v.t = "obj" THEN (IF ObjHas(v, key) THEN <<ObjGet(v, key)>> ELSE <<>>)
                   ELSE IF v.t = "arr" /\ lx
                        THEN ConcatAll([e \in 1..Len(v.a) |->
                               IF v.a[e].t = "obj" /\ ObjHas(v.a[e], key) THEN <<ObjGet(v.a[e], key)>> ELSE <<>>], 1)
                   ELSE <<>>
       IN here \o KeyOver(xs, j + 1, key, lx)

Law_C15(p, d, lx) ==
  LET ch  == PathSeq[p]
      doc == DocSeq[d]
      r   == Eval(CaseOfChain(ch, doc, lx), Par0)
      n   == ch[2]
  IN CASE Len(ch) = 2 /\ n.k = "anykey" ->
            IF doc.t = "obj" THEN r.err = "none" /\ r.items = MemberValues(doc.o)
            ELSE IF lx THEN r.err = "none" ELSE r.err = "verbose"
       [] Len(ch) = 2 /\ n.k = "anyarr" ->
            IF doc.t = "arr" THEN r.err = "none" /\ r.items = doc.a
            ELSE IF lx THEN r.err = "none" /\ r.items = <<doc>> ELSE r.err = "verbose"
       [] Len(ch) = 2 /\ n.k = "any" ->
            /\ r.err = "none"
            /\ r.items = AnyOracle(doc, n.first, n.last)
            /\ (n.first = 0 /\ n.last = -1) =>
                  r.items = Eval(CaseOfChain(<<NRoot, NAny(0, -1)>>, doc, lx), Par0).items
            /\ (n.first = n.last /\ n.first >= 0) => r.items = KFold(<<doc>>, n.first)
            /\ (n.first = -1 /\ n.last = -1) =>
                  \A i \in 1..Len(r.items) : IsScalar(r.items[i])
       [] Len(ch) = 3 /\ n.k = "any" /\ ch[3].k = "key" ->
            /\ r.err = "none"             \* strict: inapplicable nodes are skipped, never an error
            /\ r.items = KeyOver(AnyOracle(doc, n.first, n.last), 1, ch[3].s, lx)
       [] OTHER -> r.err \in {"none", "verbose"} /\ (lx => r.err = "none")

Init == pi \in 1..Len(PathSeq) /\ di = 0 /\ lax \in BOOLEAN
Step == di = 0 /\ di' \in 1..Len(DocSeq) /\ UNCHANGED <<pi, lax>>
Inv == di = 0 \/ Law_C15(pi, di, lax)
=============================================================================
