----------------------------- MODULE ObjectLaws -----------------------------
(* Laws on ONE call of ONE entry point of a Path object (property C19):     *)
(* what a call returned must be an outcome the specification permits for    *)
(* that call alone - whatever ran before it or runs beside it.              *)
EXTENDS ExecLaws

EntryPars(c) == ParSpace(c) \cup DevParSpace(c) \cup ExmParSpace(c)

(* the outcome PathSem assigns to entry point e under evaluation r *)
SpecEntry(c, e, r) ==
  LET ofB(x) == [items |-> <<>>, val |-> x.val, cls |-> x.err]
  IN CASE e = "query" -> LET q == QueryOf(c, r) IN [items |-> q.items, val |-> FALSE, cls |-> q.err]
       [] e = "first" -> LET f == FirstOf(c, r)
                         IN [items |-> IF f.err # "none" THEN <<>> ELSE IF f.has THEN <<f.item>> ELSE <<VNull>>,
                             val |-> FALSE, cls |-> f.err]
       [] e = "exists" -> ofB(ExistsOf(c, r))
       [] e = "match"  -> ofB(MatchOf(c, r))
       [] e = "eom"    -> IF c.path.pred THEN ofB(MatchOf(c, r)) ELSE ofB(ExistsOf(c, r))

EntryMatches(c, e, r, x) ==
  LET s == SpecEntry(c, e, r)
  IN s.cls = x.err.cls /\ s.val = x.val /\ ItemsMatch(s.items, x.items)

(* exists-mode evaluation only explains Exists (and ExistsOrMatch) *)
ParsFor(c, e) == IF e \in {"exists", "eom"} THEN EntryPars(c) ELSE ParSpace(c) \cup DevParSpace(c)

JudgeEntry(c, e, x) ==
  IF x.err.cls \in {"panic", "timeout", "invalid", "other"} THEN {"C19.crash"}
  ELSE IF x.bad # "" THEN {"C19." \o x.bad}
  ELSE IF EntryMatches(c, e, Eval(c, Par0), x) THEN {}
  ELSE IF \E par \in ParsFor(c, e) : EntryMatches(c, e, Eval(c, par), x) THEN {}
  ELSE IF \E par \in ParsFor(c, e) : Eval(c, par).err = "opaque" THEN {"skip.C19"}
  ELSE IF Nondet(c) /\ (\E par \in ParSpace(c) :
            LET r == Eval(c, par)  s == SpecEntry(c, e, r)
            IN r.st.ci > ChoiceCap(c) /\ (e # "query" \/ (s.cls = x.err.cls /\ (s.cls # "none" \/ BagMatch(s.items, x.items)))))
       THEN {"bag.C19"}
  ELSE {"C19.not-a-behaviour-of-the-specification"}

(* two real outcomes of the same call: equal, up to the order of object     *)
(* members where the case has several members to order                       *)
SameAsSolo(c, e, x, solo) ==
  \/ x = solo
  (* where Go picks the order of object members per call, another call may   *)
  (* meet another member first: other items first, another failure, or (with *)
  (* the failure suppressed) fewer items before it.  Whether THIS outcome is *)
  (* one the specification permits for the call under some member order is   *)
  (* decided for every distinct outcome by Trace_ObjectOuts (JudgeEntry).    *)
  \/ Nondet(c)
=============================================================================
