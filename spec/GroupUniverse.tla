--------------------------- MODULE GroupUniverse ---------------------------
(* Helpers shared by the MC models of the multi-execution laws: rewriting a *)
(* filter condition into a predicate check, and building the group the      *)
(* specification itself would produce (so that the very laws the trace      *)
(* judge applies to the implementation are model-checked on PathSem).       *)
EXTENDS GroupLaws, Universe

RootVar == <<114, 111, 111, 116>>      \* "root"

(* C with @ (of this filter) replaced by $ and $ replaced by $root          *)
RECURSIVE RwChain(_, _), RwNode(_, _), RwSubs(_, _, _)
RwChain(ch, d) == [i \in 1..Len(ch) |-> RwNode(ch[i], d)]
RwNode(n, d) ==
  CASE n.k = "cur"    -> IF d = 0 THEN NRoot ELSE n
    [] n.k = "root"   -> NVar(RootVar)
    [] n.k = "bin"    -> [n EXCEPT !.l = RwChain(n.l, d), !.r = RwChain(n.r, d)]
    [] n.k = "un"     -> [n EXCEPT !.x = RwChain(n.x, d)]
    [] n.k = "regex"  -> [n EXCEPT !.x = RwChain(n.x, d)]
    [] n.k = "filter" -> [n EXCEPT !.p = RwNode(n.p, d + 1)]
    [] n.k = "idx"    -> [n EXCEPT !.subs = RwSubs(n.subs, 1, d)]
    [] OTHER -> n
RwSubs(subs, j, d) ==
  [i \in 1..Len(subs) |-> [from |-> RwChain(subs[i].from, d), hasTo |-> subs[i].hasTo, to |-> RwChain(subs[i].to, d)]]

SpecEntry(c, r) ==
  LET q == QueryOf(c, r) IN [items |-> q.items, val |-> FALSE, err |-> ErrRecOf(q.err), bad |-> ""]
SpecMatch(c, r) ==
  LET m == MatchOf(c, r) IN [items |-> <<>>, val |-> m.val, err |-> ErrRecOf(m.err), bad |-> ""]
MkCase(chain, pred, doc, vars, lx) ==
  [path |-> [lax |-> lx, pred |-> pred, chain |-> chain], doc |-> doc, vars |-> vars,
   silent |-> FALSE, useTZ |-> FALSE, zone |-> "UTC"]
SpecGRun(chain, pred, doc, vars, lx) ==
  LET c == MkCase(chain, pred, doc, vars, lx)  r == Eval(c, Par0)
  IN [path |-> c.path, doc |-> doc, vars |-> vars, q |-> SpecEntry(c, r), m |-> SpecMatch(c, r)]
SpecGRunSilent(chain, pred, doc, vars, lx) ==
  LET c == [MkCase(chain, pred, doc, vars, lx) EXCEPT !.silent = TRUE]  r == Eval(c, Par0)
  IN [path |-> c.path, doc |-> doc, vars |-> vars, q |-> SpecEntry(c, r), m |-> SpecMatch(c, r)]

(* the group C10 for (P, C) on doc *)
SpecC10(P, C, doc, vars, lx) ==
  LET pre == SpecGRun(P, FALSE, doc, vars, lx)
      U   == IF pre.q.err.cls # "none" THEN <<>>
             ELSE IF lx THEN GFlatten(pre.q.items, 1, <<>>) ELSE pre.q.items
      vr  == Append(vars, [k |-> RootVar, v |-> doc])
  IN [id |-> 0, kind |-> "C10", lax |-> lx, names |-> <<>>,
      runs |-> <<SpecGRun(Append(P, NFilter(C)), FALSE, doc, vars, lx), pre>>
               \o [k \in 1..Len(U) |-> SpecGRun(<<RwNode(C, 0)>>, TRUE, U[k], vr, lx)]]

(* the group C09 for prefix P and suffix S (a sequence of accessor nodes) *)
SpecC09(P, S, doc, vars, lx) ==
  LET pre == SpecGRun(P, FALSE, doc, vars, lx)
      U   == IF pre.q.err.cls # "none" THEN <<>> ELSE pre.q.items
  IN [id |-> 0, kind |-> "C09", lax |-> lx, names |-> <<>>,
      runs |-> <<SpecGRun(P \o S, FALSE, doc, vars, lx), pre>>
               \o [k \in 1..Len(U) |-> SpecGRun(<<NRoot>> \o S, FALSE, U[k], vars, lx)]]

Paren(p) == <<p>>
C11Names == <<"p", "q", "and", "or", "not", "isunknown", "notnot", "not-and", "notp-or-notq",
              "not-or", "notp-and-notq", "and-swapped", "or-swapped">>
C11Preds(p, q) ==
  << p, q, NBin("and", Paren(p), Paren(q)), NBin("or", Paren(p), Paren(q)), NUn("not", Paren(p)),
     NUn("isunknown", Paren(p)), NUn("not", Paren(NUn("not", Paren(p)))),
     NUn("not", Paren(NBin("and", Paren(p), Paren(q)))),
     NBin("or", Paren(NUn("not", Paren(p))), Paren(NUn("not", Paren(q)))),
     NUn("not", Paren(NBin("or", Paren(p), Paren(q)))),
     NBin("and", Paren(NUn("not", Paren(p))), Paren(NUn("not", Paren(q)))),
     NBin("and", Paren(q), Paren(p)), NBin("or", Paren(q), Paren(p)) >>
SpecC11(p, q, doc, vars, lx) ==
  LET ps == C11Preds(p, q)
  IN [id |-> 0, kind |-> "C11", lax |-> lx, names |-> C11Names,
      runs |-> [i \in 1..Len(ps) |-> SpecGRun(<<ps[i]>>, TRUE, doc, vars, lx)]]
SpecC11Exists(e, doc, vars, lx) ==
  [id |-> 0, kind |-> "C11exists", lax |-> lx, names |-> <<>>,
   runs |-> <<SpecGRun(e, FALSE, doc, vars, lx), SpecGRun(<<NUn("exists", e)>>, TRUE, doc, vars, lx),
              SpecGRunSilent(e, FALSE, doc, vars, lx)>>]

GroupOK(g) == \A cl \in JudgeGroup(g) : IsRemark(cl)
=============================================================================
