------------------------------ MODULE Oracles ------------------------------
(* Declarative side-oracles, deliberately written in a different style from *)
(* PathSem (level at a time, whole sequences, no continuation, no early     *)
(* exit) so that a law relating them is not a tautology.                    *)
(*                                                                          *)
(*   Slice(arr, subs, lax)    array subscripts by position (C14)            *)
(*   Walk(v, lo, hi)          .**{lo to hi} in document pre-order (C15)     *)
(*   LevelSem(chain, doc, lax) a set-at-a-time semantics of accessor chains *)
(*                            that does not stop at a structural mismatch   *)
(*                            but records that one happened (C07)           *)
EXTENDS Integers, Sequences, JsonValue, Num

OMax(a, b) == IF a > b THEN a ELSE b
OMin(a, b) == IF a < b THEN a ELSE b

RECURSIVE ConcatAll(_, _)
ConcatAll(ss, i) == IF i > Len(ss) THEN <<>> ELSE ss[i] \o ConcatAll(ss, i + 1)

(* --- pre-order walk ------------------------------------------------------ *)
OInf == 1000000000
Kids(v) == IF v.t = "arr" THEN v.a ELSE IF v.t = "obj" THEN MemberValues(v.o) ELSE <<>>

RECURSIVE Walk(_, _, _, _)
Walk(v, d, lo, hi) ==
  (IF d >= lo /\ d <= hi THEN <<v>> ELSE <<>>)
  \o (IF d < hi THEN ConcatAll([j \in 1..Len(Kids(v)) |-> Walk(Kids(v)[j], d + 1, lo, hi)], 1) ELSE <<>>)

RECURSIVE Leaves(_, _)
Leaves(v, d) ==      \* scalar leaves strictly below the item
  IF IsScalar(v) THEN (IF d >= 1 THEN <<v>> ELSE <<>>)
  ELSE ConcatAll([j \in 1..Len(Kids(v)) |-> Leaves(Kids(v)[j], d + 1)], 1)

(* first/last as in the AST: -1 is the keyword last *)
AnyOracle(v, first, last) ==
  IF first < 0 /\ last < 0 THEN Leaves(v, 0)
  ELSE IF first < 0 THEN <<>>
  ELSE Walk(v, 0, first, IF last < 0 THEN OInf ELSE last)

(* --- subscripts ---------------------------------------------------------- *)
(* A bound is [rel |-> "abs" | "last", off |-> Int (twice the value, so     *)
(* that halves are expressible)]: abs: off/2; last: (n-1) + off/2.          *)
TruncHalf(h) == IF h >= 0 THEN h \div 2 ELSE -((-h) \div 2)
BoundPos(b, n) == IF b.rel = "abs" THEN TruncHalf(b.off) ELSE (n - 1) + TruncHalf(b.off)
(* trunc((n-1) + x/2) = (n-1) + trunc(x/2) only when signs agree; bounds in *)
(* the universes use integral offsets with last, so this is exact there.    *)

(* one subscript [from, to] on an array: [items, oob] *)
SliceOne(arr, from, to, lax) ==
  LET n == Len(arr)
      oob == from < 0 \/ from > to \/ to >= n
      lo == OMax(from, 0)
      hi == OMin(to, n - 1)
  IN [items |-> IF lo <= hi THEN SubSeq(arr, lo + 1, hi + 1) ELSE <<>>, oob |-> oob]

(* --- the level-at-a-time semantics --------------------------------------- *)
(* State of a level: the item sequence, whether a structural mismatch was   *)
(* met so far, and whether the steps are below a .** (lenient).             *)
(* Supports: key anykey anyarr any idx (bounds: integer literals, last,     *)
(* last +/- integer literal) and filters (the predicate is supplied by the  *)
(* caller as an operator, evaluated per item).                              *)

IsLitChain(ch) == Len(ch) = 1 /\ ch[1].k = "num"
IsLastChain(ch) == Len(ch) = 1 /\ ch[1].k = "last"
IsLastOff(ch) == Len(ch) = 1 /\ ch[1].k = "bin" /\ ch[1].op \in {"add", "sub"}
                 /\ IsLastChain(ch[1].l) /\ IsLitChain(ch[1].r)

(* position denoted by a bound chain on an array of length n, as a TLC      *)
(* integer (literals in the universes are small)                            *)
LitInt(ch) == BNToInt(BNTrunc(ch[1].v.n))
BoundOf(ch, n) ==
  IF IsLitChain(ch) THEN LitInt(ch)
  ELSE IF IsLastChain(ch) THEN n - 1
  ELSE IF ch[1].op = "add" THEN (n - 1) + LitInt(ch[1].r)
  ELSE (n - 1) - LitInt(ch[1].r)
SimpleBound(ch) == IsLitChain(ch) \/ IsLastChain(ch) \/ IsLastOff(ch)

RECURSIVE SubsOn(_, _, _, _)
SubsOn(arr, subs, j, lax) ==     \* [items, oob] for a subscript list
  IF j > Len(subs) THEN [items |-> <<>>, oob |-> FALSE]
  ELSE LET s  == subs[j]
           f  == BoundOf(s.from, Len(arr))
           t  == IF s.hasTo THEN BoundOf(s.to, Len(arr)) ELSE f
           o  == SliceOne(arr, f, t, lax)
           r  == SubsOn(arr, subs, j + 1, lax)
       IN [items |-> o.items \o r.items, oob |-> o.oob \/ r.oob]

(* One step applied to one item: [items, mis]                               *)
StepOne(Pred(_, _, _), n, v, lax, len, unwrap) ==
  LET Mis == [items |-> <<>>, mis |-> ~len]
  IN CASE n.k = "key" ->
            IF v.t = "obj" THEN (IF ObjHas(v, n.s) THEN [items |-> <<ObjGet(v, n.s)>>, mis |-> FALSE] ELSE Mis)
            ELSE Mis
       [] n.k = "anykey" ->
            IF v.t = "obj" THEN [items |-> MemberValues(v.o), mis |-> FALSE] ELSE Mis
       [] n.k = "anyarr" ->
            IF v.t = "arr" THEN [items |-> v.a, mis |-> FALSE]
            ELSE IF lax THEN [items |-> <<v>>, mis |-> FALSE] ELSE Mis
       [] n.k = "idx" ->
            IF v.t = "arr" \/ lax
            THEN LET o == SubsOn(IF v.t = "arr" THEN v.a ELSE <<v>>, n.subs, 1, lax)
                 IN [items |-> o.items, mis |-> o.oob /\ ~len]
            ELSE [items |-> <<>>, mis |-> TRUE]
       [] n.k = "any" -> [items |-> AnyOracle(v, n.first, n.last), mis |-> FALSE]
       [] n.k = "filter" ->
            [items |-> IF Pred(n.p, v, len) THEN <<v>> ELSE <<>>, mis |-> FALSE]     \* len: the item lies below .**

(* lax: member accessors and filters see the elements of an array item      *)
Unwraps(n) == n.k \in {"key", "anykey", "filter"}

RECURSIVE StepAll(_, _, _, _, _, _)
StepAll(Pred(_, _, _), n, xs, j, lax, len) ==
  IF j > Len(xs) THEN [items |-> <<>>, mis |-> FALSE]
  ELSE LET v == xs[j]
           o == IF lax /\ Unwraps(n) /\ v.t = "arr"
                THEN StepAll(Pred, n, v.a, 1, FALSE, len)      \* one level only: elements are not unwrapped again
                ELSE StepOne(Pred, n, v, lax, len, FALSE)
           r == StepAll(Pred, n, xs, j + 1, lax, len)
       IN [items |-> o.items \o r.items, mis |-> o.mis \/ r.mis]

(* In lax mode a step never reports a mismatch, but the recursion above     *)
(* runs the element level with lax = FALSE (no second unwrap, no wrap), so  *)
(* mismatches are masked at the top.                                        *)
RECURSIVE LevelFrom(_, _, _, _, _, _, _)
LevelFrom(Pred(_, _, _), ch, i, xs, lax, len, mis) ==
  IF i > Len(ch) THEN [items |-> xs, mis |-> mis]
  ELSE LET o == StepAll(Pred, ch[i], xs, 1, lax, len \/ lax)
       IN LevelFrom(Pred, ch, i + 1, o.items, lax, len \/ ch[i].k = "any", mis \/ (o.mis /\ ~lax))

(* chain[1] must be the root node *)
LevelSem(Pred(_, _, _), ch, doc, lax) == LevelFrom(Pred, ch, 2, <<doc>>, lax, FALSE, FALSE)
=============================================================================
