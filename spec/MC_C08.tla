------------------------------- MODULE MC_C08 -------------------------------
\* C08: WithSilent suppresses exactly the suppressible errors, and the
\* suppression used inside predicates never leaks.
\* Universe (in addition to MC_Mix):
\*  (A) a multi-item prefix followed by a step that fails on some items only,
\*      the failing item placed at every position -- the silent run must
\*      return exactly the items found before the failure;
\*  (B) prefix ? (filter whose operand fails suppressibly on some item),
\*      followed by a step that raises its own error on a later item -- the
\*      verbose run must still report that error;
\*  (C) non-suppressible failures (unknown variable, invalid decimal
\*      precision, datetime template) at the same positions -- returned
\*      unchanged with WithSilent.
\* Invariant: PathSem's outcomes satisfy the laws of ExecLaws.
EXTENDS ExecLaws, Universe, SequencesExt, Json

KM == <<109>>
KVal == <<118,97,108,117,101>>      \* "value"
At(a) == <<NCur>> \o a
Prefixes2 == { <<NRoot, NAnyArr>>, <<NRoot, NAnyKey>>, <<NRoot, NAny(1, 1)>>, <<NRoot, NAny(2, 2)>>, <<NRoot, NAny(0, -1)>>,
               <<NRoot, NIdx(<<Sub1(Lit(0)), Sub1(Lit(1))>>)>>, <<NRoot, NIdx(<<Sub2(Lit(0), Lit(1))>>)>>, <<NRoot, NAnyArr, NAnyArr>> }
FailSteps == { <<NMethod("integer")>>, <<NMethod("double")>>, <<NKey(KA)>>, <<NIdx(<<Sub1(Lit(1))>>)>>, <<NMethod("keyvalue")>>,
               <<NKey(KB), NMethod("integer")>>, <<NMethod("size")>>, <<NDecimal1(VInt(0))>>, <<NMethod("abs")>> }
FailOps == { NFilter(NUn("exists", At(<<NKey(KA), NMethod("integer")>>))),
             NFilter(NBin("gt", At(<<NKey(KA), NMethod("integer")>>), Lit(0))),
             NFilter(NBin("gt", <<NBin("div", At(<<NKey(KA)>>), Lit(0))>>, Lit(1))),
             NFilter(NUn("isunknown", <<NBin("eq", At(<<NKey(KA), NMethod("double")>>), Lit(1))>>)),
             NFilter(NUn("not", <<NUn("exists", At(<<NKey(KX)>>))>>)),
             NFilter(NBin("eq", At(<<NKey(KA)>>), <<NVar(KM)>>)) }
PathSet ==
  {p \o f : p \in Prefixes2, f \in FailSteps}
  \cup {p \o <<g>> \o f : p \in {<<NRoot, NAnyArr>>, <<NRoot, NAnyKey>>, <<NRoot>>}, g \in FailOps,
                          f \in {<<NKey(KB), NMethod("integer")>>, <<NKey(KB), NMethod("double")>>, <<NKey(KM)>>, <<NKey(KB)>>}}
  (* .keyvalue() pairs come in key order; a later step fails on the first / middle / last pair *)
  \cup {p \o <<NMethod("keyvalue"), NKey(KVal)>> \o f : p \in {<<NRoot>>, <<NRoot, NAnyArr>>}, f \in {<<NMethod("integer")>>, <<NMethod("double")>>, <<NKey(KA)>>}}
  \cup {<<NRoot, NFilter(NBin("gt", At(<<NMethod("keyvalue"), NKey(KVal), NMethod("integer")>>), Lit(2)))>>,
        <<NRoot, NFilter(NUn("exists", At(<<NMethod("keyvalue"), NKey(KVal), NMethod("integer")>>)))>>}
  \cup {<<NBin("gt", <<NRoot, NAnyArr, NKey(KA)>>, Lit(0)), NMethod("type"), NKey(KM)>>,
        <<NUn("exists", <<NRoot, NAnyArr, NKey(KA), NMethod("integer")>>), NMethod("integer")>>}
PathRows == SetToSeq({[pred |-> FALSE, chain |-> p] : p \in PathSet})

SX == VStr(KX)
Objs == { VObj(<<[k |-> KA, v |-> SX]>>), VObj(<<[k |-> KA, v |-> VStr(<<49>>)], [k |-> KB, v |-> SX]>>),
          VObj(<<[k |-> KA, v |-> VFlt(1)], [k |-> KB, v |-> VFlt(1)]>>), VObj(<<[k |-> KB, v |-> SX]>>) }
Scal == { SX, VFlt(2), VStr(<<49>>), VNull }
Elems2 == Objs \cup Scal \cup {VArr(<<SX>>), VArr(<<VFlt(2)>>), VArr(<<VFlt(2), SX>>)}
DocSet == {VArr(<<a, b>>) : a \in Elems2, b \in Elems2}
          \cup {VObj(<<[k |-> KA, v |-> a], [k |-> KB, v |-> b]>>) : a \in Scal \cup {VArr(<<SX>>), VArr(<<VFlt(2)>>)}, b \in Scal \cup {VArr(<<VFlt(2)>>)}}
          \cup Objs
          \cup {VObj(<<[k |-> KA, v |-> a], [k |-> KB, v |-> b], [k |-> KC, v |-> c]>>) :
                   a \in {SX, VStr(<<49>>)}, b \in {SX, VStr(<<49>>)}, c \in {SX, VStr(<<51>>)}}
          \cup {VArr(<<VObj(<<[k |-> KA, v |-> VStr(<<49>>)], [k |-> KB, v |-> SX], [k |-> KC, v |-> VStr(<<51>>)]>>)>>)}
DocSeq == SetToSeq(DocSet)

ASSUME ndJsonSerialize("paths.ndjson", PathRows)
ASSUME ndJsonSerialize("docs.ndjson", [i \in 1..Len(DocSeq) |-> [doc |-> DocSeq[i]]])
ASSUME PrintT(<<"UNIVERSE", Len(PathRows), Len(DocSeq)>>)

VARIABLES pi, di, lax
CaseAt(p, d, lx) ==
  [path |-> [lax |-> lx, pred |-> FALSE, chain |-> PathRows[p].chain], doc |-> DocSeq[d],
   vars |-> <<>>, silent |-> FALSE, useTZ |-> FALSE, zone |-> "UTC"]
Init == pi \in 1..Len(PathRows) /\ di = 0 /\ lax \in BOOLEAN
Step == di = 0 /\ di' \in 1..Len(DocSeq) /\ UNCHANGED <<pi, lax>>
Inv == di = 0 \/ SpecSatisfiesLaws(CaseAt(pi, di, lax))
       \/ (PrintT(<<"LAWFAIL", PathRows[pi], DocSeq[di], lax, JudgeExec(SpecRec(CaseAt(pi, di, lax)))>>) /\ FALSE)
=============================================================================
