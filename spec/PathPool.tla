------------------------------ MODULE PathPool ------------------------------
(* A pool of paths that covers every node kind and every consumer of an     *)
(* operand's status; shared by the cancellation model (MC_C20) and the path *)
(* object model (MC_C19).                                                   *)
EXTENDS Universe

KM == <<109>>
At(a) == <<NCur>> \o a
Rt(a) == <<NRoot>> \o a
(* every consumer of an operand's status and every node kind *)
ExprPaths ==
  { Rt(<<NAnyArr>>), Rt(<<NKey(KA)>>), Rt(<<NAnyKey>>), Rt(<<NAny(0, -1)>>), Rt(<<NAny(1, 2), NKey(KA)>>),
    Rt(<<NIdx(<<Sub1(Lit(0)), Sub1(<<NLast>>)>>)>>), Rt(<<NIdx(<<Sub2(Rt(<<NKey(KB)>>), <<NLast>>)>>)>>),
    Rt(<<NAny(2, 2), NKey(KA)>>), Rt(<<NAny(2, -1), NKey(KA)>>), Rt(<<NAny(1, 1), NAnyArr, NKey(KA)>>),
    Rt(<<NAnyArr, NFilter(NBin("gt", At(<<>>), Lit(0)))>>),
    Rt(<<NAnyArr, NFilter(NUn("exists", At(<<NKey(KA)>>)))>>),
    Rt(<<NAnyArr, NFilter(NUn("isunknown", <<NBin("eq", At(<<NKey(KA)>>), Lit(1))>>))>>),
    Rt(<<NAnyArr, NFilter(NUn("not", <<NBin("eq", At(<<>>), Lit(1))>>))>>),
    Rt(<<NAnyArr, NFilter(NBin("and", <<NBin("gt", At(<<>>), Lit(0))>>, <<NBin("lt", At(<<>>), Lit(3))>>))>>),
    Rt(<<NAnyArr, NFilter(NBin("or", <<NBin("gt", At(<<>>), Lit(5))>>, <<NBin("lt", At(<<>>), Lit(3))>>))>>),
    Rt(<<NAnyArr, NFilter(NBin("gt", At(<<>>), Lit(0))), NMethod("double")>>),
    Rt(<<NFilter(NBin("gt", At(<<NAnyArr>>), Rt(<<NKey(KB)>>)))>>),
    Rt(<<NFilter(NBin("starts", At(<<NKey(KA)>>), <<NStr(KX)>>))>>), Rt(<<NFilter(NRegex(At(<<NAnyArr>>), KA, NoFlags))>>),
    <<NBin("add", Rt(<<NKey(KA)>>), Rt(<<NKey(KB)>>))>>, <<NBin("mul", Rt(<<NIdx(<<Sub1(Lit(0))>>)>>), Lit(2))>>,
    <<NUn("minus", Rt(<<NAnyArr>>))>>, <<NUn("plus", Rt(<<NAnyArr>>)), NMethod("abs")>>,
    Rt(<<NAnyArr, NMethod("size")>>), Rt(<<NAnyArr, NMethod("type")>>), Rt(<<NMethod("keyvalue"), NKey(<<107,101,121>>)>>),
    Rt(<<NAnyArr, NMethod("string")>>), Rt(<<NAnyArr, NDecimal2(VInt(3), VInt(1))>>),
    <<NVar(KX), NAnyArr>>, Lit(1), <<NBin("gt", Rt(<<NAnyArr>>), Lit(1)), NMethod("type")>> }
PredPaths ==
  { NBin("gt", Rt(<<NAnyArr>>), Lit(1)), NUn("exists", Rt(<<NAnyArr, NKey(KA)>>)),
    NUn("isunknown", <<NBin("eq", Rt(<<NKey(KA)>>), Lit(1))>>),
    NUn("isunknown", <<NUn("exists", Rt(<<NAnyArr>>))>>),
    NUn("not", <<NUn("exists", Rt(<<NAny(0, -1), NKey(KB)>>))>>),
    NBin("and", <<NUn("exists", Rt(<<NKey(KA)>>))>>, <<NBin("eq", Rt(<<NKey(KB)>>), Lit(2))>>),
    NBin("or", <<NBin("eq", Rt(<<NKey(KA)>>), Lit(7))>>, <<NUn("isunknown", <<NBin("lt", Rt(<<NAnyArr>>), <<NStr(KA)>>)>>)>>) }
=============================================================================
