----------------------------- MODULE GroupLaws -----------------------------
(* Laws that relate several real executions (properties C09, C10, C11).     *)
(* A group is [id, kind, lax, runs]; a run is [path, doc, vars, q, m] with  *)
(* q / m the decoded Query / Match observations of that execution.          *)
(* The verdict is a set of violated clauses, as in ExecLaws.                *)
EXTENDS ExecLaws

RECURSIVE GFlatten(_, _, _)
GFlatten(xs, j, acc) ==
  IF j > Len(xs) THEN acc
  ELSE GFlatten(xs, j + 1, IF xs[j].t = "arr" THEN acc \o xs[j].a ELSE Append(acc, xs[j]))

(* equality that ignores the address-derived id of keyvalue triples         *)
IsTriple(v) == v.t = "obj" /\ Len(v.o) = 3 /\ v.o[1].k = IdBytes /\ v.o[2].k = KeyBytes /\ v.o[3].k = ValBytes
RECURSIVE IdBlindEq(_, _), IdBlindSeq(_, _, _)
Big(v) == v.t = "num" /\ v.rep = "i" /\ BNCmp(BNAbs(v.n), BN(4096)) > 0
IdBlindEq(a, b) ==
  IF a.t # b.t THEN FALSE
  ELSE IF Big(a) /\ Big(b) THEN TRUE        \* address-derived ids taken out of a triple
  ELSE IF IsTriple(a) /\ IsTriple(b) THEN a.o[2].v = b.o[2].v /\ IdBlindEq(a.o[3].v, b.o[3].v)
  ELSE IF a.t = "arr" THEN Len(a.a) = Len(b.a) /\ IdBlindSeq(a.a, b.a, 1)
  ELSE IF a.t = "obj" THEN Len(a.o) = Len(b.o) /\ \A i \in 1..Len(a.o) : a.o[i].k = b.o[i].k /\ IdBlindEq(a.o[i].v, b.o[i].v)
  ELSE a = b
IdBlindSeq(a, b, i) == IF i > Len(a) THEN TRUE ELSE IdBlindEq(a[i], b[i]) /\ IdBlindSeq(a, b, i + 1)
SeqEq(a, b) == Len(a) = Len(b) /\ IdBlindSeq(a, b, 1)
RECURSIVE FirstBlind(_, _, _), BagBlind(_, _)
FirstBlind(x, r, i) == IF i > Len(r) THEN 0 ELSE IF IdBlindEq(x, r[i]) THEN i ELSE FirstBlind(x, r, i + 1)
BagBlind(s, r) ==       \* multiset equality under IdBlindEq; address-like numbers matched last
  IF Len(s) # Len(r) THEN FALSE
  ELSE IF Len(s) = 0 THEN TRUE
  ELSE LET ord == SelectSeq(s, LAMBDA x : ~Big(x)) \o SelectSeq(s, LAMBDA x : Big(x))
           i   == FirstBlind(ord[1], r, 1)
       IN i # 0 /\ BagBlind(Tail(ord), VRemoveAt(r, i))

Hard(cls) == cls \in {"hard", "ctx"}
(* In strict mode the steps (and filter conditions) that follow .** ignore  *)
(* structural errors; a suffix or condition evaluated on its own does not,  *)
(* so the splitting laws do not apply there (the property excludes it).     *)
HasAnyStep(ch) == \E i \in 1..Len(ch) : ch[i].k = "any"
(* ids of keyvalue triples depend on the base object; once a later step     *)
(* takes the id out of its triple it cannot be compared across executions   *)
KVNotLast(ch) == \E i \in 1..(Len(ch) - 1) : ch[i].k = "method" /\ ch[i].name = "keyvalue"
Excluded(g) == (~g.lax /\ HasAnyStep(g.runs[2].path.chain)) \/ KVNotLast(g.runs[1].path.chain)
GNondet(run) == Nondet([path |-> run.path, doc |-> run.doc, vars |-> run.vars])
(* crashes are reported under C05; "opaque" only occurs in groups built from *)
(* the specification (it declined to decide)                                *)
Broken(run) == run.q.err.cls \in {"panic", "timeout", "invalid", "other", "opaque"}

-----------------------------------------------------------------------------
(* C10.  runs[1] = P ? (C); runs[2] = P; runs[2+k] = C rewritten as a       *)
(* predicate check over the k-th item P produced (after one level of array  *)
(* unwrapping in lax mode), the original root passed as variable.           *)

RECURSIVE Kept(_, _, _)
Kept(runs, k, acc) ==      \* [items, err]: fold over the per-item runs
  IF k > Len(runs) THEN [items |-> acc, err |-> "none"]
  ELSE LET r == runs[k]
       IN IF r.q.err.cls # "none" THEN [items |-> acc, err |-> r.q.err.cls]
          ELSE IF r.q.items = <<VTrue>> THEN Kept(runs, k + 1, Append(acc, r.doc))
          ELSE Kept(runs, k + 1, acc)

JudgeC10(g) ==
  LET main == g.runs[1].q  pre == g.runs[2].q
      U == IF g.lax THEN GFlatten(pre.items, 1, <<>>) ELSE pre.items
      per == SubSeq(g.runs, 3, Len(g.runs))
  IN IF \E i \in 1..Len(g.runs) : Broken(g.runs[i]) THEN {}                 \* reported under C05
     ELSE IF Excluded(g) THEN {}
     ELSE IF pre.err.cls # "none" THEN
          (IF main.err.cls # "none" THEN {} ELSE {"C10.prefix-error"})
     ELSE IF Len(per) # Len(U) \/ \E k \in 1..Len(U) : per[k].doc # U[k] THEN {"infra.C10.group-shape"}
     ELSE LET e == Kept(per, 1, <<>>)
          IN IF e.err # "none" THEN (IF main.err.cls = e.err THEN {} ELSE {"C10.condition-error"})
             ELSE IF main.err.cls # "none" THEN {"C10.aborted"}
             ELSE IF SeqEq(main.items, e.items) THEN {}
             ELSE IF GNondet(g.runs[1]) /\ BagBlind(main.items, e.items) THEN {"bag.C10"}
             ELSE {"C10.wrong-items"}

(* runs[1] = P ? (C1) ? (C2); runs[2] = P ? (C1 && C2), strict, no hard error *)
JudgeC10Conj(g) ==
  LET a == g.runs[1].q  b == g.runs[2].q
  IN IF Broken(g.runs[1]) \/ Broken(g.runs[2]) \/ Hard(a.err.cls) \/ Hard(b.err.cls) THEN {}
     ELSE IF a.err.cls = b.err.cls /\ SeqEq(a.items, b.items) THEN {}
     ELSE IF GNondet(g.runs[1]) /\ a.err.cls = "none" /\ b.err.cls = "none" /\ BagBlind(a.items, b.items) THEN {"bag.C10"}
     ELSE IF GNondet(g.runs[1]) /\ (a.err.cls # "none" \/ b.err.cls # "none") THEN {"bag.C10"}
     ELSE {"C10.consecutive-filters"}

-----------------------------------------------------------------------------
(* C09.  runs[1] = P S; runs[2] = P; runs[2+k] = $ S on the k-th item of P. *)
RECURSIVE Concat(_, _, _)
Concat(runs, k, acc) ==
  IF k > Len(runs) THEN [items |-> acc, err |-> "none"]
  ELSE IF runs[k].q.err.cls # "none" THEN [items |-> acc, err |-> runs[k].q.err.cls]
  ELSE Concat(runs, k + 1, acc \o runs[k].q.items)

JudgeC09(g) ==
  LET main == g.runs[1].q  pre == g.runs[2].q
      per == SubSeq(g.runs, 3, Len(g.runs))
  IN IF \E i \in 1..Len(g.runs) : Broken(g.runs[i]) THEN {}
     ELSE IF Excluded(g) THEN {}
     (* P fails: P S fails too -- possibly earlier and with another class, since *)
     (* the steps of S run on each item of P before P produces its next item    *)
     ELSE IF pre.err.cls # "none" THEN (IF main.err.cls # "none" THEN {} ELSE {"C09.prefix-error"})
     ELSE IF Len(per) # Len(pre.items) \/ \E k \in 1..Len(per) : per[k].doc # pre.items[k] THEN {"infra.C09.group-shape"}
     ELSE LET e == Concat(per, 1, <<>>)
          IN IF e.err # "none" THEN (IF main.err.cls = e.err THEN {} ELSE {"C09.suffix-error"})
             ELSE IF main.err.cls # "none" THEN {"C09.aborted"}
             ELSE IF SeqEq(main.items, e.items) THEN {}
             ELSE IF GNondet(g.runs[1]) /\ BagBlind(main.items, e.items) THEN {"bag.C09"}
             ELSE {"C09.not-compositional"}

(* runs[1] = $ S on doc; runs[2] = $v S with v bound to doc; runs[3] (when   *)
(* the document is a literal-expressible scalar) = literal S                *)
JudgeC09Head(g) ==
  LET a == g.runs[1].q
  IN IF \E i \in 1..Len(g.runs) : Broken(g.runs[i]) THEN {}
     ELSE IF KVNotLast(g.runs[1].path.chain) THEN {}
     ELSE IF \A i \in 2..Len(g.runs) : g.runs[i].q.err.cls = a.err.cls /\ SeqEq(g.runs[i].q.items, a.items)
          THEN {}
     ELSE IF GNondet(g.runs[1]) /\ (\A i \in 2..Len(g.runs) :
                 \/ g.runs[i].q.err.cls # "none" \/ a.err.cls # "none"     \* member order decides whether the failure is met first
                 \/ BagBlind(g.runs[i].q.items, a.items))
          THEN {"bag.C09"}
     ELSE {"C09.head-independence"}

-----------------------------------------------------------------------------
(* C11.  runs: 1 = p, 2 = q, 3 = p && q, 4 = p || q, 5 = !(p), 6 = (p) is   *)
(* unknown, 7 = !(!(p)), 8 = !(p && q), 9 = !(p) || !(q), 10 = !(p || q),   *)
(* 11 = !(p) && !(q), 12 = q && p, 13 = q || p -- all predicate checks on    *)
(* the same document.  Outcomes: "T" "F" "U" or "H" (non-suppressible).      *)
Out(run) ==
  LET q == run.q
  IN IF q.err.cls # "none" THEN (IF Hard(q.err.cls) THEN "H" ELSE "E")
     ELSE IF q.items = <<VTrue>> THEN "T" ELSE IF q.items = <<VFalse>> THEN "F"
     ELSE IF q.items = <<VNull>> THEN "U" ELSE "?"

AndTab(a, b) == IF a = "H" THEN "H" ELSE IF a = "F" THEN "F" ELSE IF b = "H" THEN "H" ELSE KAnd(a, b)
OrTab(a, b)  == IF a = "H" THEN "H" ELSE IF a = "T" THEN "T" ELSE IF b = "H" THEN "H" ELSE KOr(a, b)
NotTab(a)    == IF a = "H" THEN "H" ELSE KNot(a)
UnkTab(a)    == IF a = "H" THEN "H" ELSE IF a = "U" THEN "T" ELSE "F"

(* Match must tell the same story as Query: T/F -> that boolean, U -> NULL  *)
MatchAgrees(run) ==
  LET o == Out(run)  m == run.m
  IN CASE o = "T" -> m.err.cls = "none" /\ m.val
       [] o = "F" -> m.err.cls = "none" /\ ~m.val
       [] o = "U" -> m.err.cls = "NULL"
       [] o = "H" -> m.err.cls = run.q.err.cls
       [] OTHER -> FALSE

JudgeC11(g) ==
  LET o == [i \in 1..Len(g.runs) |-> Out(g.runs[i])]
      p == o[1]  q == o[2]
      bad(i, want) == IF o[i] = want THEN {} ELSE {"C11.table." \o g.names[i]}
  IN IF \E i \in 1..Len(g.runs) : Broken(g.runs[i]) THEN {}
     ELSE IF p \notin {"T", "F", "U", "H"} \/ q \notin {"T", "F", "U", "H"} THEN {"C11.operand-outcome"}
     ELSE bad(3, AndTab(p, q)) \cup bad(4, OrTab(p, q)) \cup bad(5, NotTab(p))
          \cup (IF o[6] = UnkTab(p) THEN {}
                ELSE IF p = "H" /\ g.runs[1].q.err.cls = "hard" /\ o[6] = "T"
                     THEN {"known.isunknown-swallows-hard.C11.table.isunknown"}
                     ELSE {"C11.table.isunknown"})
          \cup bad(7, p)                                             \* double negation
          \cup bad(8, NotTab(AndTab(p, q))) \cup bad(10, NotTab(OrTab(p, q)))
          \cup (IF "H" \in {p, q} \/ o[8] = o[9] THEN {} ELSE {"C11.demorgan-and"})
          \cup (IF "H" \in {p, q} \/ o[10] = o[11] THEN {} ELSE {"C11.demorgan-or"})
          \cup (IF "H" \in {p, q} \/ o[3] = o[12] THEN {} ELSE {"C11.and-commutes"})
          \cup (IF "H" \in {p, q} \/ o[4] = o[13] THEN {} ELSE {"C11.or-commutes"})
          \cup (IF o[6] \in {"T", "F", "H"} THEN {} ELSE {"C11.isunknown-unknown"})
          \cup (IF \A i \in 1..Len(g.runs) : MatchAgrees(g.runs[i]) THEN {} ELSE {"C11.match"})

(* exists(e): runs[1] = e (a path), runs[2] = exists(e) as predicate check.  *)
JudgeC11Exists(g) ==
  LET e == g.runs[1].q  x == Out(g.runs[2])
      want == IF e.err.cls = "none" THEN (IF e.items # <<>> THEN "T" ELSE "F")
              ELSE IF Hard(e.err.cls) THEN (IF g.lax /\ x = "T" THEN "T" ELSE "H")   \* lax may have found an item first
              ELSE IF g.lax /\ g.runs[3].q.items # <<>> THEN "T"     \* lax: an item found before the failure (silent run)
              ELSE "U"
      ech == g.runs[1].path.chain
      unaryLast == ech[Len(ech)].k = "un" /\ ech[Len(ech)].op \in {"plus", "minus"}
  IN IF \E i \in 1..Len(g.runs) : Broken(g.runs[i]) THEN {}
     ELSE IF x = want THEN {}
     ELSE IF g.lax /\ x = "T" /\ unaryLast /\ e.err.cls = "verbose"
          THEN {"known.unary-nonnum-exists.C11.exists"}     \* the named deviation of PathSem
     ELSE {"C11.exists"}

(* When the order of object members is in play the executions of a group   *)
(* may have met members in different orders (so that a different failure is *)
(* met first, or items come out in another order): such a group is judged   *)
(* by multiset comparison where all executions succeeded and is otherwise   *)
(* left undecided.                                                          *)
Loosen(g, v, tag) ==
  IF v = {} \/ ~(\E i \in 1..Len(g.runs) : GNondet(g.runs[i])) THEN v
  ELSE IF \A cl \in v : cl \in {"C10.wrong-items", "C09.not-compositional", "C09.head-independence", "C10.consecutive-filters"}
       THEN v             \* these laws already tried the multiset comparison themselves
       ELSE {"bag." \o tag}

(* C11 inside filters: runs[1] = P ? (p && q), runs[2] = P ? (q && p),      *)
(* runs[3] = P ? (p || q), runs[4] = P ? (q || p), runs[5] = P ? (!(!(p))),  *)
(* runs[6] = P ? (p): commutativity in value and double negation show as    *)
(* equal item sequences (conditions free of non-suppressible errors).       *)
JudgeC11Filter(g) ==
  LET q(i) == g.runs[i].q
      same(i, j) == q(i).err.cls = q(j).err.cls /\ SeqEq(q(i).items, q(j).items)
  IN IF \E i \in 1..Len(g.runs) : Broken(g.runs[i]) \/ Hard(g.runs[i].q.err.cls) THEN {}
     ELSE (IF same(1, 2) THEN {} ELSE {"C11.and-commutes"})
          \cup (IF same(3, 4) THEN {} ELSE {"C11.or-commutes"})
          \cup (IF same(5, 6) THEN {} ELSE {"C11.table.notnot"})

(* C16: a value and its .string() convert to the same value with the        *)
(* matching method.  runs[1] = x.m(), runs[2] = x.string().m().             *)
JudgeC16Str(g) ==
  LET a == g.runs[1].q  b == g.runs[2].q
  IN IF Broken(g.runs[1]) \/ Broken(g.runs[2]) THEN {}
     ELSE IF a.err.cls = b.err.cls /\ a.items = b.items THEN {} ELSE {"C16.string-roundtrip"}

(* C16: .keyvalue() yields one {id, key, value} per member in key order,    *)
(* ids equal within an object, distinct across objects, stable over         *)
(* repeated executions.  runs[1], runs[2] = the same query twice on the same *)
(* document instance; the document is an object or an array of objects.     *)
KVObjects(doc) == IF doc.t = "obj" THEN <<doc>> ELSE SelectSeq(doc.a, LAMBDA x : x.t = "obj")
RECURSIVE KVExpect(_, _)
KVExpect(objs, j) ==     \* the (object index, key, value) sequence expected
  IF j > Len(objs) THEN <<>>
  ELSE [m \in 1..Len(objs[j].o) |-> [obj |-> j, key |-> objs[j].o[m].k, value |-> objs[j].o[m].v]] \o KVExpect(objs, j + 1)
JudgeC16KV(g) ==
  LET a == g.runs[1].q  b == g.runs[2].q
      objs == KVObjects(g.runs[1].doc)
      want == KVExpect(objs, 1)
      tr(i) == a.items[i]
      shapeOK == /\ Len(a.items) = Len(want)
                 /\ \A i \in 1..Len(want) :
                       /\ IsTriple(tr(i)) /\ tr(i).o[2].v = VStr(want[i].key) /\ tr(i).o[3].v = want[i].value
                       /\ tr(i).o[1].v.t = "num"
      idOf(i) == tr(i).o[1].v
      idsOK == \A i, k \in 1..Len(want) : (idOf(i) = idOf(k)) <=> (want[i].obj = want[k].obj)
  IN IF Broken(g.runs[1]) \/ Broken(g.runs[2]) THEN {}
     ELSE IF a.err.cls # "none" THEN {"C16.keyvalue-error"}
     ELSE (IF shapeOK THEN {} ELSE {"C16.keyvalue-triples"})
          \cup (IF shapeOK /\ ~idsOK THEN {"C16.keyvalue-ids"} ELSE {})
          \cup (IF a = b THEN {} ELSE {"C16.keyvalue-unstable"})

(* any query ending in .keyvalue(), executed twice on one document instance: *)
(* only triples come out and they are identical both times (stable ids)      *)
JudgeC16KVStable(g) ==
  LET a == g.runs[1].q  b == g.runs[2].q
  IN IF Broken(g.runs[1]) \/ Broken(g.runs[2]) THEN {}
     ELSE (IF a = b THEN {} ELSE {"C16.keyvalue-unstable"})
          \cup (IF \A i \in 1..Len(a.items) : IsTriple(a.items[i]) THEN {} ELSE {"C16.keyvalue-triples"})

JudgeGroup(g) ==
  CASE g.kind = "C10"      -> Loosen(g, JudgeC10(g), "C10")
    [] g.kind = "C10conj"  -> Loosen(g, JudgeC10Conj(g), "C10")
    [] g.kind = "C09"      -> Loosen(g, JudgeC09(g), "C09")
    [] g.kind = "C09head"  -> Loosen(g, JudgeC09Head(g), "C09")
    [] g.kind = "C11"      -> Loosen(g, JudgeC11(g), "C11")   \* operands whose outcome depends on member order
    [] g.kind = "C11exists" -> JudgeC11Exists(g)
    [] g.kind = "C11filter" -> Loosen(g, JudgeC11Filter(g), "C11")
    [] g.kind = "C16str" -> JudgeC16Str(g)
    [] g.kind = "C16kv" -> JudgeC16KV(g)
    [] g.kind = "C16kvstable" -> JudgeC16KVStable(g)
=============================================================================
