------------------------------- MODULE MC_C12 -------------------------------
\* C12: comparisons and string predicates impose one consistent order.
\* The corpus: null, booleans, numbers (-1, 0, 1, 1.5, 2^31, 2^53, 2^53+1,
\* 2^63-1, -2^63, 10^19, 2^64+0.5-ish doubles ...) each in every Go
\* representation it has (int64 path literal, float64, json.Number), strings
\* ("", "a", "A", "ab", "b", e-acute, U+FFFD, U+1F600 as UTF-8 bytes), and
\* [], {}, [1].  TLC checks on the specification's CompareItems, over all
\* pairs and triples: trichotomy on comparable pairs, duality, <= and >= as
\* unions, transitivity, null equals only null, cross-type / array / object
\* pairs unknown; and exports the abstract corpus for the runner, which
\* records the real 6-operator matrix for Trace_Matrix to judge.
EXTENDS ExecLaws, Universe, SequencesExt, Json

P2(k) == BNMul2k(BNOne, k)
AbsNums == { BN(-1), BNZero, BNOne, BNMk(FALSE, <<3>>, -1), BN(2), P2(31), P2(53), BNAdd(P2(53), BNOne),
             BNSub(P2(63), BNOne), BNNeg(P2(63)), BNPow10(19), BNAdd(P2(53), BN(2)), BNMk(TRUE, <<5>>, -1), P2(63),
             BN(-2), BNMk(TRUE, <<1>>, -1) }      \* -2 next to -2.5, 0 next to -0.5: same integer part, negative fraction

(* the Go representations an exact number has *)
RepsOf(n) ==
  (IF BNFitsInt64(n) THEN {VNum("i", n)} ELSE {})
  \cup (IF BNIsDouble(n) THEN {VNum("f", n)} ELSE {})
  \cup { [t |-> "num", rep |-> "j", n |-> IF BNFitsInt64(n) THEN n ELSE BNRoundToDouble(n),
          tx |-> <<>>, ok |-> TRUE, ji |-> BNFitsInt64(n)] }
Strs == { <<>>, <<97>>, <<65>>, <<97, 98>>, <<98>>, <<195, 169>>, <<239, 191, 189>>, <<240, 159, 152, 128>> }
Corpus == {VNull, VTrue, VFalse} \cup UNION {RepsOf(n) : n \in AbsNums} \cup {VStr(s) : s \in Strs}
          \cup {VArr(<<>>), VObj(<<>>), VArr(<<VFlt(1)>>)}
CorpusSeq == SetToSeq(Corpus)

Abstract == SetToSeq({VNull, VTrue, VFalse} \cup {[t |-> "num", rep |-> "x", n |-> n] : n \in AbsNums}
                     \cup {VStr(s) : s \in Strs} \cup {VArr(<<>>), VObj(<<>>), VArr(<<VFlt(1)>>)})
ASSUME ndJsonSerialize("corpus.ndjson", [i \in 1..Len(Abstract) |-> [v |-> Abstract[i]]])
ASSUME PrintT(<<"UNIVERSE", Len(CorpusSeq), Len(Abstract)>>)

Env0 == [useTZ |-> FALSE, zone |-> "UTC"]
C(op, a, b) == CompareItems(op, a, b, Env0).val
Ops6 == {"eq", "ne", "lt", "gt", "le", "ge"}
Comparable(a, b) == C("eq", a, b) # "U"
SameClass(a, b) == (a.t = b.t /\ a.t \in {"null", "bool", "num", "str"})

VARIABLES i, j, k
Init == i \in 1..Len(CorpusSeq) /\ j \in 1..Len(CorpusSeq) /\ k = 0
Step == k = 0 /\ k' \in 1..Len(CorpusSeq) /\ UNCHANGED <<i, j>>

PairLaw(a, b) ==
  /\ \A op \in Ops6 : C(op, a, b) \in {"T", "F", "U"}
  /\ (a.t = "null" \/ b.t = "null") =>
        /\ C("eq", a, b) = (IF a.t = b.t THEN "T" ELSE "F")
        /\ C("ne", a, b) = (IF a.t = b.t THEN "F" ELSE "T")
  /\ (a.t # "null" /\ b.t # "null") =>
        IF SameClass(a, b)
        THEN /\ Cardinality({op \in {"lt", "eq", "gt"} : C(op, a, b) = "T"}) = 1
             /\ \A op \in Ops6 : C(op, a, b) # "U"
             /\ (C("lt", a, b) = "T") <=> (C("gt", b, a) = "T")
             /\ (C("le", a, b) = "T") <=> (C("lt", a, b) = "T" \/ C("eq", a, b) = "T")
             /\ (C("ge", a, b) = "T") <=> (C("gt", a, b) = "T" \/ C("eq", a, b) = "T")
             /\ (C("ne", a, b) = "T") <=> (C("eq", a, b) = "F")
        ELSE \A op \in Ops6 : C(op, a, b) = "U"
TripleLaw(a, b, c) ==
  /\ (C("lt", a, b) = "T" /\ C("lt", b, c) = "T") => C("lt", a, c) = "T"
  /\ (C("eq", a, b) = "T" /\ C("eq", b, c) = "T") => C("eq", a, c) = "T"
  /\ (C("le", a, b) = "T" /\ C("le", b, c) = "T") => C("le", a, c) = "T"

Inv == IF k = 0 THEN PairLaw(CorpusSeq[i], CorpusSeq[j])
       ELSE TripleLaw(CorpusSeq[i], CorpusSeq[j], CorpusSeq[k])
=============================================================================
