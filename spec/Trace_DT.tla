------------------------------ MODULE Trace_DT ------------------------------
(* Trace specification for C18: what the five datetime types of path/types  *)
(* did through their Go API, judged against spec/DateTime.tla.              *)
(*   kind "value":   a value built with its constructor: val (fields + the   *)
(*       text String() printed), parsed = ParseTime(String(v)), json =       *)
(*       MarshalJSON, unm = UnmarshalJSON(MarshalJSON(v)), pstr = what       *)
(*       .string() prints inside a path                                      *)
(*   kind "hostile": UnmarshalJSON on arbitrary JSON bytes                    *)
(*   kind "commute": date / timestamp -> timestamptz -> back, in a zone       *)
EXTENDS DateTime, TLC, Json

Recs == ndJsonDeserialize("dt.ndjson")

Strip(v) == [ty |-> v.ty, y |-> v.y, mo |-> v.mo, d |-> v.d, h |-> v.h, mi |-> v.mi, sec |-> v.sec, ns |-> v.ns, off |-> v.off]
SameValue(a, b) == Strip(a) = Strip(b)

JudgeValue(r) ==
  LET v == r.val
      want == Format(v)
      p == ParseISO(v.txt, -1)
  IN (IF v.txt = want THEN {} ELSE {"C18.not-iso-8601"})
     \cup (IF r.chk /\ ~SameValue(r.in, v) THEN {"C18.constructor-changes-value"} ELSE {})
     \cup (IF p.ok = "y" /\ SameValue(p.v, v) THEN {} ELSE IF p.ok = "opaque" THEN {"skip.C18"} ELSE {"C18.spec-does-not-read-back"})
     \cup (IF r.parsed.st = "ok" /\ SameValue(r.parsed.v, v) THEN {} ELSE {"C18.parsetime-roundtrip"})
     \cup (IF r.json = <<34>> \o v.txt \o <<34>> THEN {} ELSE {"C18.json-text"})
     \cup (IF r.unm.st = "ok" /\ SameValue(r.unm.v, v) THEN {} ELSE {"C18.json-roundtrip"})
     \cup (IF r.pstr = v.txt THEN {} ELSE {"C18.path-string-differs"})
     \cup (IF r.pstz = v.txt THEN {} ELSE {"C18.path-string-differs-under-WithTZ"})

(* the inner text of a JSON string token without escapes, or "none" *)
IsPlainString(d) == Len(d) >= 2 /\ d[1] = 34 /\ d[Len(d)] = 34 /\ \A i \in 2..(Len(d) - 1) : d[i] # 34 /\ d[i] # 92
JudgeHostile(r) ==
  IF r.unm.st = "panic" THEN {"C18.unmarshal-panics"}
  ELSE IF r.unm.st = "err" THEN {}
  ELSE (* accepted: it must be a JSON string whose text is a documented form of that very type *)
       IF ~IsPlainString(r.data) THEN {"C18.unmarshal-accepts-non-string"}
       ELSE LET p == ParseISO(SubSeq(r.data, 2, Len(r.data) - 1), -1)
            IN IF p.ok = "opaque" THEN {"skip.C18"}
               ELSE IF p.ok = "y" /\ p.v.ty = r.ty /\ SameValue(p.v, r.unm.v) THEN {}
               ELSE {"skip.C18"}      \* Go's layouts accept some undocumented variants: not decided

JudgeCommute(r) ==
  LET v == r.val
      up == Cast(v, "tstz", TRUE, r.zone)
      once == LocalExistsOnce(r.zone, DayNumber(v.y, v.mo, v.d), SecOfDay(v))
  IN IF ~up.ok THEN {"skip.C18"}                     \* zone rule not modelled for that year
     ELSE (IF r.up.st = "ok" /\ SameValue(r.up.v, up.v) THEN {} ELSE {"C18.to-timestamptz"})
          \cup (IF ~once THEN {}                     \* the local time does not exist (or exists twice) in the zone
                ELSE IF r.down.st = "ok" /\ SameValue(r.down.v, v) THEN {} ELSE {"C18.zone-roundtrip"})

Judge(r) ==
  CASE r.kind = "value" -> JudgeValue(r) [] r.kind = "hostile" -> JudgeHostile(r) [] r.kind = "commute" -> JudgeCommute(r)

VARIABLES l, verdict
Init == /\ l \in 1..Len(Recs)
        /\ verdict = Judge(Recs[l])
        /\ \A cl \in verdict : PrintT(<<"V", Recs[l].id, cl>>)
Step == UNCHANGED <<l, verdict>>
=============================================================================
