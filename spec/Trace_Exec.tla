----------------------------- MODULE Trace_Exec -----------------------------
(* Trace specification of the exec family: reads records of what the real   *)
(* entry points returned (obs.ndjson, with the path/document/variable       *)
(* tables they index) and judges each against the laws of ExecLaws.  One    *)
(* initial state per record; TLC is the judge, the Go runner only records.  *)
EXTENDS ExecLaws, Json

Paths == ndJsonDeserialize("paths.ndjson")
Docs  == ndJsonDeserialize("docs.ndjson")
VarsT == ndJsonDeserialize("vars.ndjson")
Obs   == ndJsonDeserialize("obs.ndjson")

(* error code "cls:flags" -> [cls, v, x, can, dl] *)
RECURSIVE ColonAt(_, _)
ColonAt(s, i) == IF i > Len(s) THEN 0 ELSE IF SubSeq(s, i, i) = ":" THEN i ELSE ColonAt(s, i + 1)
HasFlag(s, from, f) == \E i \in from..Len(s) : SubSeq(s, i, i) = f
ErrRec(code) ==
  CASE code = "none:" -> [cls |-> "none", v |-> FALSE, x |-> FALSE, can |-> FALSE, dl |-> FALSE]
    [] code = "verbose:vx" -> [cls |-> "verbose", v |-> TRUE, x |-> TRUE, can |-> FALSE, dl |-> FALSE]
    [] code = "hard:x" -> [cls |-> "hard", v |-> FALSE, x |-> TRUE, can |-> FALSE, dl |-> FALSE]
    [] code = "NULL:" -> [cls |-> "NULL", v |-> FALSE, x |-> FALSE, can |-> FALSE, dl |-> FALSE]
    [] OTHER -> LET p == ColonAt(code, 1)
                IN [cls |-> IF p = 0 THEN code ELSE SubSeq(code, 1, p - 1),
                    v |-> p # 0 /\ HasFlag(code, p + 1, "v"), x |-> p # 0 /\ HasFlag(code, p + 1, "x"),
                    can |-> p # 0 /\ HasFlag(code, p + 1, "c"), dl |-> p # 0 /\ HasFlag(code, p + 1, "d")]
DecodeEntry(e) == [items |-> e.i, val |-> e.b, err |-> ErrRec(e.e), bad |-> e.bad]
DecodeRun(o) ==
  [query |-> DecodeEntry(o.q), first |-> DecodeEntry(o.f), exists |-> DecodeEntry(o.x),
   match |-> DecodeEntry(o.m), eom |-> DecodeEntry(o.o), polls |-> o.p, mutated |-> o.mut]

RecOf(o) ==
  [c |-> [path |-> [lax |-> o.lax, pred |-> Paths[o.pi].pred, chain |-> Paths[o.pi].chain],
          doc |-> Docs[o.di].doc, vars |-> VarsT[o.vi].vars, useTZ |-> o.useTZ, zone |-> o.zone],
   v |-> DecodeRun(o.v), s |-> IF o.ss THEN DecodeRun(o.v) ELSE DecodeRun(o.s)]

VARIABLES l, verdict

Init == /\ l \in 1..Len(Obs)
        /\ verdict = JudgeExec(RecOf(Obs[l]))
        /\ \A cl \in verdict : PrintT(<<"V", Obs[l].id, cl>>)   \* one short line per clause
Step == UNCHANGED <<l, verdict>>
=============================================================================
