----------------------------- MODULE Trace_Exec -----------------------------
(* Trace specification of the exec family: reads records of what the real   *)
(* entry points returned (obs.ndjson, with the path/document/variable       *)
(* tables they index) and judges each against the laws of ExecLaws.  One    *)
(* initial state per record; TLC is the judge, the Go runner only records.  *)
EXTENDS ExecLaws, TraceCommon, Json

Paths == ndJsonDeserialize("paths.ndjson")
Docs  == ndJsonDeserialize("docs.ndjson")
VarsT == ndJsonDeserialize("vars.ndjson")
Obs   == ndJsonDeserialize("obs.ndjson")

RecOf(o) ==
  [c |-> [path |-> [lax |-> o.lax, pred |-> Paths[o.pi].pred, chain |-> Paths[o.pi].chain],
          doc |-> Docs[o.di].doc, vars |-> VarsT[o.vi].vars, useTZ |-> o.useTZ, zone |-> o.zone],
   v |-> DecodeRun(o.v), s |-> IF o.ss THEN DecodeRun(o.v) ELSE DecodeRun(o.s)]

VARIABLES l, verdict

Init == /\ l \in 1..Len(Obs)
        /\ verdict = JudgeExec(RecOf(Obs[l]))
        /\ \A cl \in verdict : PrintT(<<"V", Obs[l].id, cl>>)   \* one short line per clause
Step == UNCHANGED <<l, verdict>>
=============================================================================
