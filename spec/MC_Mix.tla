------------------------------- MODULE MC_Mix -------------------------------
\* The mixed universe of the exec family (properties C01, C05, C06, C08):
\* every kind of head (root, bound and unbound variable, literals, arithmetic,
\* predicates) followed by up to MaxSteps steps drawn from every kind of
\* accessor, filter and item method, plus predicate check expressions, over
\* all small JSON trees and a few documents built to fail midway.
\* Invariant: what PathSem says the five entry points return satisfies the
\* laws of ExecLaws (C05 totality and classification, C06 one story, C08
\* silent/verbose), so the laws are consistent with the rules; the counters
\* printed at the end show that the interesting antecedents are populated.
EXTENDS ExecLaws, Universe, SequencesExt, Json

CONSTANTS MaxSteps, MaxNodes

KM == <<109>>      \* "m": never bound
Cur(a) == <<NCur>> \o a

Steps ==
  { NKey(KA), NKey(KB), NAnyKey, NAnyArr, NAny(0, -1),
    NIdx(<<Sub1(Lit(0))>>), NIdx(<<Sub1(<<NLast>>)>>), NIdx(<<Sub2(Lit(0), Lit(1))>>), NIdx(<<Sub1(Lit(0)), Sub1(Lit(1))>>),
    NFilter(NBin("eq", Cur(<<NKey(KA)>>), Lit(1))),
    NFilter(NBin("gt", Cur(<<>>), Lit(0))),
    NFilter(NUn("exists", Cur(<<NKey(KB)>>))),
    NFilter(NBin("eq", Cur(<<>>), <<NVar(KM)>>)),                 \* non-suppressible inside a filter
    NFilter(NBin("gt", <<NBin("div", Cur(<<>>), Lit(0))>>, Lit(1))),   \* suppressible inside a filter
    NMethod("size"), NMethod("type"), NMethod("double"), NMethod("abs"), NMethod("string"),
    NMethod("keyvalue"), NMethod("boolean"), NMethod("integer") }

Heads ==
  { <<NVar(KX)>>, <<NVar(KM)>>, Lit(1), <<NStr(KA)>>, <<NNull>>,
    <<NBin("add", <<NRoot, NKey(KA)>>, Lit(1))>>,
    <<NBin("div", <<NRoot, NAnyArr>>, Lit(0))>>,
    <<NBin("mul", <<NRoot, NKey(KA)>>, <<NRoot, NKey(KB)>>)>>,
    <<NUn("minus", <<NRoot, NAnyArr>>)>>,
    <<NUn("plus", <<NRoot, NKey(KA)>>)>>,
    <<NBin("gt", <<NRoot, NKey(KA)>>, Lit(0))>> }       \* a predicate with accessors: ($.a > 0).x

Preds ==
  { NBin("eq", <<NRoot, NKey(KA)>>, Lit(1)),
    NBin("gt", <<NRoot, NAnyArr>>, Lit(0)),
    NUn("exists", <<NRoot, NKey(KA)>>),
    NUn("isunknown", <<NBin("eq", <<NRoot, NKey(KA)>>, Lit(1))>>),
    NBin("gt", <<NBin("div", <<NRoot, NKey(KA)>>, Lit(0))>>, Lit(1)),
    NBin("eq", <<NVar(KM)>>, Lit(1)),
    NUn("not", <<NBin("eq", <<NRoot, NKey(KA)>>, Lit(1))>>),
    NBin("and", <<NBin("eq", <<NRoot, NKey(KA)>>, Lit(1))>>, <<NBin("eq", <<NRoot, NKey(KB)>>, Lit(1))>>),
    NBin("or", <<NBin("eq", <<NRoot, NKey(KA)>>, Lit(1))>>, <<NBin("eq", <<NVar(KM)>>, Lit(1))>>),
    NBin("starts", <<NRoot>>, <<NStr(KA)>>),
    NRegex(<<NRoot, NAnyArr>>, KA, NoFlags),
    NUn("exists", <<NUn("minus", <<NRoot, NAnyArr>>)>>) }

ExprPaths == {<<NRoot>> \o s : s \in SeqsUpTo(Steps, MaxSteps)}
             \cup {h \o s : h \in Heads, s \in SeqsUpTo(Steps, 1)}
PathRows == SetToSeq({[pred |-> FALSE, chain |-> p] : p \in ExprPaths}
                     \cup {[pred |-> TRUE, chain |-> <<q>>] : q \in Preds})

Special == { VArr(<<VFlt(1), VStr(KA)>>), VArr(<<VStr(KA), VFlt(1)>>),
             VArr(<<VObj(<<[k |-> KA, v |-> VFlt(1)]>>), VObj(<<[k |-> KB, v |-> VFlt(2)]>>), VObj(<<[k |-> KA, v |-> VFlt(3)]>>)>>),
             VObj(<<[k |-> KA, v |-> VArr(<<VFlt(1), VFlt(2)>>)], [k |-> KB, v |-> VFlt(0)]>>),
             VObj(<<[k |-> KA, v |-> VFlt(2)], [k |-> KB, v |-> VFlt(3)]>>) }
DocSeq == SetToSeq(TreesUpTo({VNull, VTrue, VFlt(1), VStr(KA)}, <<KA, KB>>, MaxNodes) \cup Special)
VarRow == [vars |-> <<[k |-> KX, v |-> VObj(<<[k |-> KA, v |-> VFlt(1)]>>)]>>]

ASSUME ndJsonSerialize("paths.ndjson", PathRows)
ASSUME ndJsonSerialize("docs.ndjson", [i \in 1..Len(DocSeq) |-> [doc |-> DocSeq[i]]])
ASSUME ndJsonSerialize("vars.ndjson", <<VarRow>>)
ASSUME PrintT(<<"UNIVERSE", Len(PathRows), Len(DocSeq)>>)

VARIABLES pi, di, lax

CaseAt(p, d, lx) ==
  [path |-> [lax |-> lx, pred |-> PathRows[p].pred, chain |-> PathRows[p].chain], doc |-> DocSeq[d],
   vars |-> VarRow.vars, silent |-> FALSE, useTZ |-> FALSE, zone |-> "UTC"]

(* which of the antecedents of C06 / C08 a case populates *)
Class(c) ==
  LET r == Eval(c, Par0)
  IN IF r.err = "none" THEN (IF r.items = <<>> THEN "empty" ELSE "items")
     ELSE IF r.items = <<>> THEN "error-instead-" \o r.err ELSE "error-after-items-" \o r.err

Init == pi \in 1..Len(PathRows) /\ di = 0 /\ lax \in BOOLEAN
Step == di = 0 /\ di' \in 1..Len(DocSeq) /\ UNCHANGED <<pi, lax>>
Inv == di = 0 \/ SpecSatisfiesLaws(CaseAt(pi, di, lax))
          \/ (PrintT(<<"LAWFAIL", PathRows[pi], DocSeq[di], lax, JudgeExec(SpecRec(CaseAt(pi, di, lax)))>>) /\ FALSE)

(* non-vacuity: each class of outcome occurs (checked as "never" properties  *)
(* that TLC must refute is too indirect; the counts are reported by the      *)
(* trace judge instead).                                                     *)
=============================================================================
