------------------------------- MODULE MC_C09 -------------------------------
\* C09: path steps compose and leave their evaluation context intact.
\* (1) Splitting law.  Universe: every split P | S of every chain of up to
\*     MaxSteps root-independent steps x documents x modes.  On PathSem:
\*     Query(P S, doc) is the concatenation over the items x of Query(P, doc)
\*     of Query($ S, x), failing where the first of those fails; and the same
\*     steps from a variable bound to the document, or from a literal equal to
\*     it, return what they return from $.
\* (2) Context templates (exported as an exec-family universe and judged
\*     against PathSem, whose environment cannot be disturbed): constructs
\*     that rebind @, last, the leniency below .** or the error suppression,
\*     left through each of their exits (completed, early answer, suppressed
\*     failure, nothing found), followed by a use of the outer binding.
EXTENDS GroupUniverse, SequencesExt, Json

CONSTANTS MaxSteps, MaxNodes

At(a) == <<NCur>> \o a
Steps ==
  { NKey(KA), NKey(KB), NAnyArr, NAnyKey, NIdx(<<Sub1(Lit(0))>>), NIdx(<<Sub1(<<NLast>>)>>),
    NIdx(<<Sub2(Lit(0), Lit(1))>>), NAny(0, -1), NAny(1, 1),
    NFilter(NBin("eq", At(<<NKey(KA)>>), Lit(1))), NFilter(NBin("gt", At(<<>>), Lit(1))),
    NMethod("size"), NMethod("type"), NMethod("double"), NMethod("keyvalue"), NMethod("abs") }
ChainSeq == SetToSeq({s \in SeqsUpTo(Steps, MaxSteps) : Len(s) >= 1})
DocSeq == SetToSeq(TreesUpTo({VFlt(1), VFlt(2), VStr(KA), VNull}, <<KA, KB>>, MaxNodes)
                   \cup { VArr(<<VObj(<<[k |-> KA, v |-> VFlt(1)]>>), VObj(<<[k |-> KB, v |-> VFlt(2)]>>), VObj(<<[k |-> KA, v |-> VFlt(3)]>>)>>),
                          VObj(<<[k |-> KA, v |-> VArr(<<VFlt(1), VFlt(2), VArr(<<VFlt(3)>>)>>)]>>) })

ASSUME ndJsonSerialize("chains.ndjson", [i \in 1..Len(ChainSeq) |-> [chain |-> ChainSeq[i]]])
ASSUME ndJsonSerialize("docs.ndjson", [i \in 1..Len(DocSeq) |-> [doc |-> DocSeq[i]]])

VV == <<118>>      \* variable "v"
(* a literal chain head equal to a scalar document, if expressible *)
LitOf(d) ==
  CASE d.t = "null" -> <<NNull>> [] d.t = "bool" -> (IF d.b THEN <<NTrue>> ELSE <<NFalse>>)
    [] d.t = "str" -> <<NStr(d.s)>>
    [] d.t = "num" -> <<NNum(VNum("i", d.n))>>     \* integral documents only (callers check)
HasLit(d) == d.t \in {"null", "bool", "str"} \/ (d.t = "num" /\ BNIsInt(d.n))

SpecC09Head(S, doc, lx) ==
  [id |-> 0, kind |-> "C09head", lax |-> lx, names |-> <<>>,
   runs |-> <<SpecGRun(<<NRoot>> \o S, FALSE, doc, <<>>, lx),
              SpecGRun(<<NVar(VV)>> \o S, FALSE, VNull, <<[k |-> VV, v |-> doc]>>, lx)>>
            \o (IF HasLit(doc) /\ doc.t # "num" THEN <<SpecGRun(LitOf(doc) \o S, FALSE, VNull, <<>>, lx)>> ELSE <<>>)]

-----------------------------------------------------------------------------
\* context templates
KM == <<109>>
Inner == NIdx(<<Sub1(<<NLast>>)>>)
(* bounds that subscript another array on their way, left through different exits *)
BoundExprs ==
  { <<NRoot, NKey(KA), NIdx(<<Sub1(Lit(0))>>)>>,                                   \* $.a[0]
    <<NRoot, NKey(KA), NIdx(<<Sub1(<<NLast>>)>>)>>,                                \* $.a[last]
    <<NRoot, NKey(KA), NIdx(<<Sub1(Lit(0))>>), NKey(KX)>>,                          \* $.a[0].x
    <<NInt(0), NFilter(NUn("exists", <<NRoot, NKey(KA), NIdx(<<Sub1(Lit(0))>>), NKey(KX)>>))>>,   \* 0 ? (exists($.a[0].x))
    <<NInt(0), NFilter(NUn("exists", <<NRoot, NKey(KA), NIdx(<<Sub1(Lit(5))>>)>>))>>,            \* 0 ? (exists($.a[5]))
    <<NInt(0), NFilter(NBin("eq", <<NRoot, NKey(KA), NIdx(<<Sub1(<<NLast>>)>>)>>, Lit(1)))>>,     \* 0 ? ($.a[last] == 1)
    <<NInt(1), NFilter(NBin("gt", <<NRoot, NKey(KA), NIdx(<<Sub1(<<NStr(KX)>>)>>)>>, Lit(0)))>>, \* 1 ? ($.a["x"] > 0): suppressed failure
    <<NRoot, NKey(KA), NIdx(<<Sub1(Lit(0))>>), NMethod("size")>> }
LastUses ==
  { <<NRoot, NKey(KB), NIdx(<<Sub1(e), Sub1(<<NLast>>)>>)>> : e \in BoundExprs }
  \cup { <<NRoot, NKey(KB), NIdx(<<Sub2(e, <<NLast>>)>>)>> : e \in BoundExprs }
  \cup { <<NRoot, NKey(KB), NIdx(<<Sub1(<<NLast>>), Sub1(e), Sub1(<<NLast>>)>>)>> : e \in BoundExprs }
(* @ rebound by a nested filter and used again afterwards *)
NestedF(inner) == <<NCur, NKey(KA), NFilter(inner)>>
OrUses ==
  { <<NRoot, NKey(KB), NAnyArr, NFilter(NBin("or", <<l>>, <<NBin("eq", At(<<NKey(KB)>>), Lit(1))>>))>>
      : l \in { NUn("exists", NestedF(NBin("gt", At(<<>>), Lit(1)))), NUn("exists", NestedF(NBin("gt", At(<<>>), <<NStr(KX)>>))),
                NUn("exists", NestedF(NBin("gt", At(<<NKey(KB)>>), Lit(1)))), NBin("gt", NestedF(NBin("gt", At(<<>>), Lit(9))), Lit(0)),
                NUn("not", <<NUn("exists", NestedF(NBin("eq", At(<<>>), Lit(2))))>>) } }
  \cup { <<NRoot, NKey(KB), NAnyArr, NFilter(NBin("and", <<NUn("not", <<NUn("exists", NestedF(i))>>)>>, <<NBin("eq", At(<<NKey(KB)>>), Lit(1))>>))>>
      : i \in {NBin("gt", At(<<>>), Lit(9)), NBin("gt", At(<<>>), <<NStr(KX)>>), NBin("eq", At(<<>>), Lit(2))} }
CurUses ==
  OrUses \cup { <<NRoot, NKey(KB), NAnyArr, NFilter(NBin("and", <<NBin("gt", NestedF(i), Lit(0))>>, <<NBin("eq", At(<<NKey(KB)>>), Lit(1))>>))>>
      : i \in {NBin("gt", At(<<>>), Lit(1)), NBin("gt", At(<<>>), Lit(9)), NBin("gt", At(<<>>), <<NStr(KX)>>),
               NUn("exists", At(<<NKey(KX)>>))} }
  \cup { <<NRoot, NKey(KB), NAnyArr, NFilter(NBin("and", <<NUn("exists", NestedF(NBin("gt", At(<<>>), Lit(1))))>>, <<NBin("eq", At(<<NKey(KB)>>), Lit(1))>>))>>,
         <<NRoot, NKey(KB), NAnyArr, NFilter(NBin("eq", At(<<NIdx(<<Sub1(<<NLast>>)>>)>>), Lit(1))), NKey(KB)>> }
(* leniency below .** must end with the operand that contains it *)
LenUses ==
  { <<NRoot, NFilter(NUn("exists", At(<<NAny(0, -1), NKey(KX)>>))), NKey(KM)>>,       \* strict: .m must still fail
    <<NRoot, NFilter(NBin("eq", At(<<NAny(0, -1), NKey(KA)>>), Lit(1))), NKey(KM)>>,
    <<NRoot, NIdx(<<Sub1(<<NRoot, NKey(KB), NAny(1, 1), NKey(KB)>>)>>), NKey(KM)>> }
(* the outer @ read by a subscript that follows a nested filter; .keyvalue() pairs fed to steps that fail on one of them *)
KVal == <<118,97,108,117,101>>
MoreUses ==
  { <<NRoot, NKey(KB), NAnyArr, NFilter(NBin("eq", <<NCur, NKey(KA), NFilter(NBin("gt", At(<<NMethod("size")>>), Lit(0))), NIdx(<<Sub1(At(<<NKey(KB)>>))>>)>>, Lit(8)))>>,
    <<NRoot, NKey(KB), NAnyArr, NFilter(NBin("eq", <<NCur, NKey(KA), NFilter(NUn("exists", At(<<>>))), NIdx(<<Sub1(At(<<NKey(KB)>>))>>)>>, Lit(7)))>>,
    <<NRoot, NKey(KA), NMethod("keyvalue"), NKey(KVal), NMethod("integer")>>,
    <<NRoot, NKey(KA), NMethod("keyvalue"), NKey(KVal), NMethod("double"), NMethod("string")>>,
    <<NRoot, NFilter(NBin("gt", At(<<NKey(KA), NMethod("keyvalue"), NKey(KVal), NMethod("integer")>>), Lit(2)))>>,
    <<NRoot, NFilter(NUn("exists", At(<<NKey(KA), NMethod("keyvalue"), NKey(KVal), NMethod("integer")>>))), NKey(KB)>> }
(* a chain that starts at a variable, also where only existence is asked: it must be walked to its end *)
Gt9 == NFilter(NBin("gt", <<NCur>>, Lit(9)))
KV2 == <<118>>      \* $v, bound by the runner to {"a": {"b": 1}, "c": [1, 2]}
VarUses ==
  { <<NVar(KV2), NKey(KA), NKey(KB)>>, <<NVar(KV2), NKey(KA), NKey(KC)>>, <<NVar(KV2), NKey(KX)>>, <<NVar(KV2), NKey(KC), NAnyArr, Gt9>>,
    <<NRoot, NFilter(NUn("exists", <<NVar(KV2), NKey(KA), NKey(KC)>>))>>, <<NRoot, NFilter(NUn("exists", <<NVar(KV2), NKey(KA), NKey(KB)>>))>>,
    <<NRoot, NFilter(NUn("not", <<NUn("exists", <<NVar(KV2), NKey(KC), NAnyArr, Gt9>>)>>))>> }
CtxVars == << [k |-> KV2, v |-> VObj(<<[k |-> KA, v |-> VObj(<<[k |-> KB, v |-> VFlt(1)]>>)], [k |-> KC, v |-> VArr(<<VFlt(1), VFlt(2)>>)]>>)] >>
ASSUME ndJsonSerialize("ctxvars.ndjson", <<[vars |-> CtxVars]>>)
(* nested suppression scopes followed by a step whose own error must still be reported; existence below .** *)
(* found deep under a non-last sibling; strict exists over a subscript list / keyvalue with a miss last        *)
Gt1f == NFilter(NBin("gt", <<NCur>>, Lit(1)))
NestUses ==
  { <<NRoot, NKey(KB), NAnyArr, NFilter(NUn("exists", At(<<NKey(KA), Gt1f>>))), NKey(KX)>>,
    <<NRoot, NKey(KB), NAnyArr, NFilter(NUn("exists", At(<<NKey(KA), Gt1f>>))), NKey(KA), NMethod("integer")>>,
    <<NRoot, NKey(KB), NAnyArr, NFilter(NUn("exists", At(<<NAny(0, -1), NKey(KX)>>)))>>,
    <<NRoot, NKey(KB), NAny(0, -1), NKey(KX)>>,
    <<NRoot, NKey(KB), NAnyArr, NFilter(NUn("exists", At(<<NKey(KA), NIdx(<<Sub1(Lit(0)), Sub1(Lit(1))>>), Gt1f>>)))>>,
    <<NRoot, NKey(KB), NAnyArr, NFilter(NUn("exists", At(<<NKey(KA), NIdx(<<Sub2(Lit(0), <<NLast>>)>>), Gt1f>>)))>>,
    <<NRoot, NKey(KB), NAnyArr, NFilter(NUn("exists", At(<<NMethod("keyvalue"), NFilter(NBin("gt", At(<<NKey(KVal)>>), Lit(1)))>>)))>> }
CtxPaths == SetToSeq(LastUses \cup CurUses \cup LenUses \cup MoreUses \cup VarUses \cup NestUses)
Row(x) == VObj(<<[k |-> KA, v |-> VArr(x)], [k |-> KB, v |-> VFlt(1)]>>)
CtxDocs == SetToSeq(
  { VObj(<<[k |-> KA, v |-> a], [k |-> KB, v |-> b]>>) :
      a \in { VArr(<<VObj(<<[k |-> KX, v |-> VFlt(1)]>>)>>), VArr(<<VFlt(1)>>), VArr(<<VFlt(0), VFlt(1)>>), VArr(<<>>), VFlt(1) },
      b \in { VArr(<<VFlt(10), VFlt(20), VFlt(30), VFlt(40)>>), VArr(<<VFlt(10)>>),
              VArr(<<Row(<<VFlt(2)>>), Row(<<VFlt(0)>>), VObj(<<[k |-> KA, v |-> VArr(<<VFlt(5)>>)], [k |-> KB, v |-> VFlt(2)]>>)>>),
              VArr(<<VArr(<<VFlt(1)>>), VArr(<<VFlt(2), VFlt(1)>>)>>), VFlt(1) } }
  \cup { VObj(<<[k |-> KA, v |-> VFlt(1)], [k |-> KB, v |-> VArr(<<VObj(<<[k |-> KA, v |-> VArr(<<VFlt(7), VFlt(8)>>)], [k |-> KB, v |-> VFlt(1)]>>),
                                                              VObj(<<[k |-> KA, v |-> VArr(<<VFlt(7), VFlt(8)>>)], [k |-> KB, v |-> VFlt(0)]>>)>>)]>>) }
  \cup { VObj(<<[k |-> KA, v |-> VFlt(1)], [k |-> KB, v |-> VArr(<<
              VObj(<<[k |-> KA, v |-> VArr(<<VFlt(5), VFlt(0)>>)], [k |-> KB, v |-> VFlt(1)]>>),
              VObj(<<[k |-> KA, v |-> VArr(<<VFlt(0), VFlt(5)>>)]>>),
              VObj(<<[k |-> KA, v |-> VArr(<<VFlt(0), VFlt(0)>>)], [k |-> KB, v |-> VFlt(1)]>>)>>)]>>),
          VObj(<<[k |-> KA, v |-> VFlt(1)], [k |-> KB, v |-> VArr(<<
              VObj(<<[k |-> KC, v |-> VArr(<<VObj(<<[k |-> KC, v |-> VObj(<<[k |-> KX, v |-> VFlt(1)]>>)]>>), VObj(<<[k |-> KA, v |-> VFlt(2)]>>)>>)]>>)>>)]>>) }
  \cup { VObj(<<[k |-> KA, v |-> VObj(<<[k |-> KA, v |-> x], [k |-> KB, v |-> y], [k |-> KC, v |-> z]>>)], [k |-> KB, v |-> VFlt(1)]>>) :
            x \in {VStr(<<49>>), VStr(KX)}, y \in {VStr(<<50>>), VStr(KX)}, z \in {VStr(<<51>>), VStr(KX)} } )
ASSUME ndJsonSerialize("paths.ndjson", [i \in 1..Len(CtxPaths) |-> [pred |-> FALSE, chain |-> CtxPaths[i]]])
ASSUME ndJsonSerialize("ctxdocs.ndjson", [i \in 1..Len(CtxDocs) |-> [doc |-> CtxDocs[i]]])
ASSUME PrintT(<<"UNIVERSE", Len(ChainSeq), Len(DocSeq), Len(CtxPaths), Len(CtxDocs)>>)

VARIABLES ci, di, lax

AllSplitsOK(ch, doc, lx) ==
  /\ \A k \in 0..(Len(ch) - 1) :
        GroupOK(SpecC09(<<NRoot>> \o SubSeq(ch, 1, k), SubSeq(ch, k + 1, Len(ch)), doc, <<>>, lx))
  /\ GroupOK(SpecC09Head(ch, doc, lx))

Init == ci \in 1..Len(ChainSeq) /\ di = 0 /\ lax \in BOOLEAN
Step == di = 0 /\ di' \in 1..Len(DocSeq) /\ UNCHANGED <<ci, lax>>
Inv == di = 0 \/ AllSplitsOK(ChainSeq[ci], DocSeq[di], lax)
       \/ (PrintT(<<"LAWFAIL", ChainSeq[ci], DocSeq[di], lax>>) /\ FALSE)
=============================================================================
