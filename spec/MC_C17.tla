------------------------------- MODULE MC_C17 -------------------------------
\* C17 / C18 on the specification: over a grid of datetime strings (five
\* types, offsets -12 .. +14 incl. half hours, day / month / year / leap
\* boundaries, fractional digits) TLC checks that
\*   - every grid string parses to the most specific type and prints back to
\*     a string that parses to the same value (C18 round trip);
\*   - comparison is antisymmetric and transitive, times are incomparable
\*     with dates and timestamps, zone-crossing comparisons need WithTZ;
\*   - comparing two values equals comparing them after explicit casts to the
\*     common type (coherence), in every context zone;
\*   - date -> timestamptz -> date and timestamp -> timestamptz -> timestamp
\*     are identities for local times that exist in the zone.
\* The grid is exported for the runner.
EXTENDS DTLaws

B(str) == str     \* strings are written as byte sequences below
Dates == { <<50,48,49,53,45,48,56,45,48,50>>,          \* 2015-08-02
           <<50,48,49,53,45,48,49,45,48,50>>,          \* 2015-01-02
           <<50,48,49,54,45,48,50,45,50,57>>,          \* 2016-02-29
           <<50,48,49,53,45,49,50,45,51,49>>,          \* 2015-12-31
           <<48,48,48,49,45,48,49,45,48,49>>,          \* 0001-01-01
           <<57,57,57,57,45,49,50,45,51,49>> }         \* 9999-12-31
Clocks == { <<48,48,58,48,48,58,48,48>>, <<50,51,58,53,57,58,53,57>>, <<49,50,58,51,52,58,53,54>>,
            <<49,50,58,51,52,58,53,54,46,53>>,                                  \* .5
            <<50,51,58,53,57,58,53,57,46,57,57,57,57,57,57,53>>,                \* .9999995
            <<48,50,58,51,48,58,48,48,46,49,50,51,52,53,54,55,56,57>> }         \* 02:30:00.123456789
Zones == { <<90>>, <<43,48,48>>, <<45,48,52>>, <<45,48,52,58,51,48>>, <<43,48,53,58,51,48>>, <<45,49,50>>, <<43,49,52>> }
Strings == Dates \cup Clocks \cup {c \o z : c \in Clocks, z \in Zones}
           \cup {d \o <<84>> \o c : d \in Dates, c \in Clocks} \cup {d \o <<32>> \o c : d \in {<<50,48,49,53,45,48,56,45,48,50>>}, c \in Clocks}
           \cup {d \o <<84>> \o c \o z : d \in Dates, c \in {<<48,48,58,48,48,58,48,48>>, <<50,51,58,53,57,58,53,57>>, <<48,50,58,51,48,58,48,48,46,49,50,51,52,53,54,55,56,57>>}, z \in Zones}
StrSeq == SetToSeq(Strings \cup SpecialStrings)
\* fractions that lie exactly half way at some precision (decimal halves are not binary halves)
FracStrings == {
    <<49,50,58,51,52,58,53,54,46,50,56,53>>,   \* 12:34:56.285
    <<49,50,58,51,52,58,53,54,46,49,52,53>>,   \* 12:34:56.145
    <<49,50,58,51,52,58,53,54,46,53,54,53>>,   \* 12:34:56.565
    <<49,50,58,51,52,58,53,54,46,53,55,53>>,   \* 12:34:56.575
    <<49,50,58,51,52,58,53,54,46,53,48,48,53>>,   \* 12:34:56.5005
    <<49,50,58,51,52,58,53,54,46,48,48,48,49,50,52,53>>,   \* 12:34:56.0001245
    <<49,50,58,51,52,58,53,54,46,48,48,48,48,48,48,53>>,   \* 12:34:56.0000005
    <<49,50,58,51,52,58,53,54,46,57,57,57,53>>,   \* 12:34:56.9995
    <<49,50,58,51,52,58,53,54,46,52,57,57,57,57,57,57>>,   \* 12:34:56.4999999
    <<49,50,58,51,52,58,53,54,46,50,53>>,   \* 12:34:56.25
    <<49,50,58,51,52,58,53,54,46,51,53>>,   \* 12:34:56.35
    <<49,50,58,51,52,58,53,54,46,52,53>>,   \* 12:34:56.45
    <<49,50,58,51,52,58,53,54,46,48,48,53>>,   \* 12:34:56.005
    <<49,50,58,51,52,58,53,54,46,48,49,53>>,   \* 12:34:56.015
    <<49,50,58,51,52,58,53,54,46,48,50,53>>,   \* 12:34:56.025
    <<50,51,58,53,57,58,53,57,46,57,57,57,57,57,57,53>>,   \* 23:59:59.9999995
    <<49,50,58,51,52,58,53,54,46,49,50,51,52,53,54,53>>,   \* 12:34:56.1234565
    <<50,48,49,53,45,49,50,45,51,49,84,50,51,58,53,57,58,53,57,46,57,57,57,57,57,57,53>>,   \* 2015-12-31T23:59:59.9999995
    <<50,48,49,53,45,48,56,45,48,50,84,49,50,58,51,52,58,53,54,46,50,56,53,43,48,53,58,51,48>>,   \* 2015-08-02T12:34:56.285+05:30
    <<49,50,58,51,52,58,53,54,46,49,52,53,45,48,52,58,48,48>>    \* 12:34:56.145-04:00
  }
FracSeq == SetToSeq(FracStrings)
ASSUME ndJsonSerialize("fracstrings.ndjson", [i \in 1..Len(FracSeq) |-> [s |-> FracSeq[i]]])
ASSUME \A x \in FracStrings : ParseISO(x, -1).ok = "y"
ASSUME ndJsonSerialize("dststrings.ndjson", [i \in 1..Len(SpecialSeq) |-> [s |-> SpecialSeq[i]]])
ASSUME ndJsonSerialize("dtstrings.ndjson", [i \in 1..Len(StrSeq) |-> [s |-> StrSeq[i]]])
ASSUME PrintT(<<"UNIVERSE", Len(StrSeq)>>)

Val(i) == ParseISO(StrSeq[i], -1)

VARIABLES i, j, k, zone
(* pairs: the whole grid; triples (transitivity): every 5th string, which    *)
(* still has every type, offset and boundary instant; MC_DTPairs checks every *)
(* triple of the special values                                              *)
Core == {n \in 1..Len(StrSeq) : n % 5 = 1}      \* (every triple of the special values: MC_DTPairs)
Init == i \in 1..Len(StrSeq) /\ j = 0 /\ k = 0 /\ zone \in CtxZones
Step == \/ j = 0 /\ j' \in 1..Len(StrSeq) /\ UNCHANGED <<i, k, zone>>
        \/ j # 0 /\ k = 0 /\ i \in Core /\ j \in Core /\ k' \in Core /\ UNCHANGED <<i, j, zone>>

Inv == j = 0 \/
       LET a == Val(i)  b == Val(j)
       IN /\ a.ok = "y" /\ b.ok = "y"
          /\ IF k = 0 THEN PairLaw(a.v, b.v, zone)
             ELSE LET c == Val(k) IN c.ok = "y" /\ TripleLaw(a.v, b.v, c.v, zone)
=============================================================================
