----------------------------- MODULE Trace_Group -----------------------------
(* Trace specification for the laws that relate several real executions.    *)
EXTENDS GroupLaws, TraceCommon, Json

Groups == ndJsonDeserialize("groups.ndjson")

DecodeGRun(r) == [path |-> r.path, doc |-> r.doc, vars |-> r.vars, q |-> DecodeEntry(r.q), m |-> DecodeEntry(r.m)]
GroupOf(g) == [id |-> g.id, kind |-> g.kind, lax |-> g.lax, names |-> g.names,
               runs |-> [i \in 1..Len(g.runs) |-> DecodeGRun(g.runs[i])]]

VARIABLES l, verdict
Init == /\ l \in 1..Len(Groups)
        /\ verdict = JudgeGroup(GroupOf(Groups[l]))
        /\ \A cl \in verdict : PrintT(<<"V", Groups[l].id, cl>>)
Step == UNCHANGED <<l, verdict>>
=============================================================================
