------------------------------- MODULE MC_C18 -------------------------------
\* C18 on the specification: over a grid of datetime VALUES (fields, not
\* texts) of the five types TLC checks that
\*   - Format(v) is read back by ParseISO as exactly v, with the same type
\*     (so Format is injective and the documented grammar covers every text
\*     the printer can produce);
\*   - the text has the ISO-8601 shape of its type (lengths, separators);
\*   - date -> timestamptz -> date and timestamp -> timestamptz -> timestamp
\*     are identities whenever the local time exists once in the context
\*     zone, and the timestamptz in between denotes that local time.
\* The grid is exported; the runner builds each value with the Go
\* constructors (values.ndjson).
EXTENDS DateTime, SequencesExt, FiniteSets, TLC, Json
CONSTANT Deep

Days == {<<1, 1, 1>>, <<1970, 1, 1>>, <<2015, 8, 2>>, <<2015, 12, 31>>, <<2016, 2, 29>>, <<2015, 3, 8>>, <<2015, 11, 1>>, <<9999, 12, 31>>, <<999, 2, 28>>}
        \cup (IF Deep THEN {<<2000, 2, 29>>, <<1900, 2, 28>>, <<2100, 3, 1>>, <<2024, 3, 10>>, <<2024, 11, 3>>, <<1, 12, 31>>, <<9999, 1, 1>>, <<2006, 4, 2>>, <<2007, 3, 11>>} ELSE {})
Clocks == {<<0, 0, 0>>, <<23, 59, 59>>, <<12, 34, 56>>, <<2, 30, 0>>, <<1, 30, 0>>}
          \cup (IF Deep THEN {<<1, 59, 59>>, <<2, 0, 0>>, <<3, 0, 0>>, <<0, 59, 59>>, <<6, 59, 59>>, <<7, 0, 0>>} ELSE {})
Nss == {0, 500000000, 123456789, 1000, 999999999, 120000000, 1} \cup (IF Deep THEN {999999500, 10, 100000000, 999999, 5000} ELSE {})
Offs == {0, -43200, -16200, -14400, -1800, 2700, 19800, 50400} \cup (IF Deep THEN {60, -60, 3600, -34200, 45900} ELSE {})
CtxZones == {"UTC", "+05:30", "-04:00", "America/New_York"}

Values == {MkDate(d[1], d[2], d[3]) : d \in Days}
          \cup {MkTime(c[1], c[2], c[3], n) : c \in Clocks, n \in Nss}
          \cup {MkTimeTZ(c[1], c[2], c[3], n, o) : c \in Clocks, n \in Nss, o \in Offs}
          \cup {MkTS(d[1], d[2], d[3], c[1], c[2], c[3], n) : d \in Days, c \in Clocks, n \in Nss}
          \cup {MkTSTZ(d[1], d[2], d[3], c[1], c[2], c[3], n, o) : d \in Days, c \in Clocks, n \in Nss, o \in Offs}
ValSeq == SetToSeq(Values)
ASSUME ndJsonSerialize("values.ndjson", [i \in 1..Len(ValSeq) |-> ValSeq[i]])
ASSUME PrintT(<<"UNIVERSE", Len(ValSeq)>>)

Shape(v) ==
  LET s == v.txt
      dateOK(i) == Len(s) >= i + 9 /\ s[i + 4] = 45 /\ s[i + 7] = 45
      clockOK(i) == Len(s) >= i + 7 /\ s[i + 2] = 58 /\ s[i + 5] = 58
  IN CASE v.ty = "date"   -> Len(s) = 10 /\ dateOK(1)
       [] v.ty = "time"   -> clockOK(1)
       [] v.ty = "timetz" -> clockOK(1) /\ (s[Len(s) - 5] \in {43, 45} \/ s[Len(s) - 2] \in {43, 45})
       [] v.ty = "ts"     -> dateOK(1) /\ s[11] = 84 /\ clockOK(12)
       [] v.ty = "tstz"   -> dateOK(1) /\ s[11] = 84 /\ clockOK(12) /\ (s[Len(s) - 5] \in {43, 45} \/ s[Len(s) - 2] \in {43, 45})

Law(v, z) ==
  LET p == ParseISO(v.txt, -1)
  IN /\ v.txt = Format(v)
     /\ Shape(v)
     /\ p.ok = "y" /\ p.v = v
     /\ (v.ty \in {"date", "ts"}) =>
          LET up == Cast(v, "tstz", TRUE, z)
          IN (up.ok /\ LocalExistsOnce(z, DayNumber(v.y, v.mo, v.d), SecOfDay(v))) =>
               /\ up.v.ty = "tstz" /\ up.v.y = v.y /\ up.v.mo = v.mo /\ up.v.d = v.d /\ up.v.h = v.h /\ up.v.mi = v.mi /\ up.v.sec = v.sec /\ up.v.ns = v.ns
               /\ LET down == Cast(up.v, v.ty, TRUE, z) IN down.ok /\ down.v = v
     (* zone-less -> zone-aware without WithTZ is refused *)
     /\ (v.ty \in {"date", "ts"}) => LET n == Cast(v, "tstz", FALSE, z) IN ~n.ok /\ n.err = "hard"

VARIABLES blk, i, zone
NBlk == 64
Init == blk \in 1..NBlk /\ i = 0 /\ zone \in CtxZones
Step == i = 0 /\ i' \in {n \in 1..Len(ValSeq) : n % NBlk = blk - 1} /\ UNCHANGED <<blk, zone>>
Inv == i = 0 \/ Law(ValSeq[i], zone)
=============================================================================
