------------------------------- MODULE MC_C13 -------------------------------
\* C13: arithmetic is exact or fails loudly.
\* Corpus: 0, +-1, +-2, 7, 10, int32 and int64 limits and their neighbours,
\* 2^53 and neighbours, 1/2, 3/2, -5/2, 2^63 and -2^63-1, the doubles 1e308
\* and 5e-324 -- each in every Go representation it has.  TLC checks on the
\* specification's numeric tower (Num.tla), over all ordered pairs and all
\* five operators: the result is an error or a finite number; two
\* integer-represented operands whose exact result fits int64 give exactly
\* that integer (quotient truncated or exact); nothing wraps; division and
\* modulo by zero are suppressible errors; x + y = y + x, x * y = y * x;
\* -(-x) = x.  The abstract corpus is exported for the runner.
EXTENDS ExecLaws, Universe, SequencesExt, Json

P2(k) == BNMul2k(BNOne, k)
Dbl1e308 == BNRoundToDouble(BNPow10(308))
AbsNums ==
  { BNZero, BNOne, BN(-1), BN(2), BN(-2), BN(7), BN(10),
    BNSub(P2(31), BNOne), P2(31), BNNeg(P2(31)), BNSub(BNNeg(P2(31)), BNOne),
    BNSub(P2(63), BNOne), P2(63), BNNeg(P2(63)), BNSub(BNNeg(P2(63)), BNOne),
    BNSub(P2(53), BNOne), P2(53), BNAdd(P2(53), BNOne),
    BNMk(FALSE, <<1>>, -1), BNMk(FALSE, <<3>>, -1), BNMk(TRUE, <<5>>, -1),
    Dbl1e308, P2(-1074), BNSub(P2(62), BNOne), BN(3) }
RepsOf(n) ==
  (IF BNFitsInt64(n) THEN {VNum("i", n)} ELSE {})
  \cup (IF BNIsDouble(n) THEN {VNum("f", n)} ELSE {})
  \cup { [t |-> "num", rep |-> "j", n |-> IF BNFitsInt64(n) THEN n ELSE BNRoundToDouble(n),
          tx |-> <<>>, ok |-> TRUE, ji |-> BNFitsInt64(n)] }
Corpus == UNION {RepsOf(n) : n \in AbsNums}
CorpusSeq == SetToSeq(Corpus)
Abstract == SetToSeq({[t |-> "num", rep |-> "x", n |-> n] : n \in AbsNums})
ASSUME ndJsonSerialize("corpus.ndjson", [i \in 1..Len(Abstract) |-> [v |-> Abstract[i]]])
ASSUME PrintT(<<"UNIVERSE", Len(CorpusSeq), Len(Abstract)>>)

Ops == {"add", "sub", "mul", "div", "mod"}
M(op, a, b) == MathOp(op, a, b, "trunc")
Exact(op, a, b) ==
  CASE op = "add" -> BNAdd(a.n, b.n) [] op = "sub" -> BNSub(a.n, b.n) [] op = "mul" -> BNMul(a.n, b.n)

VARIABLES i, j
Init == i \in 1..Len(CorpusSeq) /\ j = 0
Step == j = 0 /\ j' \in 1..Len(CorpusSeq) /\ UNCHANGED i

PairLaw(a, b) ==
  /\ \A op \in Ops :
       LET r == M(op, a, b)
       IN /\ r.ok => /\ r.v.t = "num" /\ r.v.rep \in {"i", "f"}
                     /\ (r.v.rep = "i" => BNFitsInt64(r.v.n) /\ BNIsInt(r.v.n))
                     /\ (r.v.rep = "f" => BNIsDouble(r.v.n))
          /\ ~r.ok => r.err \in {"verbose", "unc"}
          /\ (op \in {"div", "mod"} /\ BNIsZero(b.n)) => (~r.ok /\ r.err = "verbose")
          /\ (IsIntRep(a) /\ IsIntRep(b) /\ op \in {"add", "sub", "mul"}) =>
               IF BNFitsInt64(Exact(op, a, b)) THEN r.ok /\ r.v = VNum("i", Exact(op, a, b))
               ELSE r.ok /\ r.v = VNum("f", BNRoundToDouble(Exact(op, a, b)))      \* the double result, never a wrapped integer
          /\ (IsIntRep(a) /\ IsIntRep(b) /\ op = "div" /\ ~BNIsZero(b.n)) =>
               r.ok /\ BNCmp(BNAbs(BNSub(BNMul(r.v.n, b.n), a.n)), BNAbs(b.n)) < 0   \* |q*b - a| < |b|: truncated (or exact) quotient
  /\ M("add", a, b) = M("add", b, a)
  /\ M("mul", a, b) = M("mul", b, a)
NegNeg(a) ==
  LET m == NumUnary("minus", a) IN m.ok /\ LET mm == NumUnary("minus", m.v) IN mm.ok /\ BNCmp(mm.v.n, AsValue(a)) = 0

Inv == IF j = 0 THEN NegNeg(CorpusSeq[i]) ELSE PairLaw(CorpusSeq[i], CorpusSeq[j])
=============================================================================
