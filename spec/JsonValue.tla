---------------------------- MODULE JsonValue ----------------------------
(* The SQL/JSON item domain of theory/sqljson as TLA+ values.              *)
(*                                                                          *)
(* Every item is a tagged record; the tag is always looked at before any    *)
(* other field (TLC compares records of different shapes as unequal but     *)
(* raises an error on a missing field).                                     *)
(*                                                                          *)
(*   [t |-> "null"]                                                         *)
(*   [t |-> "bool", b |-> BOOLEAN]                                          *)
(*   [t |-> "num",  rep |-> "i" | "f" | "j", n |-> BigNum, ...]             *)
(*        rep "i" = Go int64 (path literals, results of integer methods)    *)
(*        rep "f" = Go float64                                              *)
(*        rep "j" = Go json.Number; extra fields:                           *)
(*              tx |-> text bytes, ok |-> text converts to int64 or finite  *)
(*              float64, ji |-> text converts to int64; n is the converted  *)
(*              value (strconv is trusted for the decimal->binary rounding) *)
(*   [t |-> "str",  s |-> <<bytes>>]       UTF-8 bytes, not TLA+ strings    *)
(*   [t |-> "arr",  a |-> <<items>>]                                        *)
(*   [t |-> "obj",  o |-> << [k |-> <<bytes>>, v |-> item], ... >>]         *)
(*        members sorted by key bytes, keys distinct                        *)
(*   [t |-> "dt", ty |-> "date"|"time"|"timetz"|"ts"|"tstz", ...]           *)
(*        see DateTime.tla                                                  *)
(*   [t |-> "anyid"]  the id of a .keyvalue() triple (an address-derived    *)
(*        number in the implementation; matches any number, see Laws)       *)
EXTENDS Integers, Sequences, BigNum

VNull      == [t |-> "null"]
VBool(b)   == [t |-> "bool", b |-> b]
VTrue      == VBool(TRUE)
VFalse     == VBool(FALSE)
VStr(s)    == [t |-> "str", s |-> s]
VArr(a)    == [t |-> "arr", a |-> a]
VObj(o)    == [t |-> "obj", o |-> o]
VNum(r, n) == [t |-> "num", rep |-> r, n |-> n]
VInt(i)    == VNum("i", BN(i))       \* int64 literal with a small value
VFlt(i)    == VNum("f", BN(i))       \* float64 with a small integral value
VHalf(i)   == VNum("f", BNMk(i < 0, <<IF i < 0 THEN -i ELSE i>>, -1))  \* i/2 as float64
VAnyId     == [t |-> "anyid"]
(* IEEE-754 has a negative zero and BigNum does not.  A float64 zero that a  *)
(* computation produced (-(0.0), 0.0 * -1, ceiling(-0.5), "-0".double() ...) *)
(* is marked: its value is zero in every comparison and operation, but the   *)
(* specification declines to say whether .string() prints "0" or "-0".       *)
MarkZ(v) == IF v.t = "num" /\ v.rep = "f" /\ BNIsZero(v.n) THEN [t |-> "num", rep |-> "f", n |-> v.n, mz |-> TRUE] ELSE v
IsMarkedZero(v) == v.t = "num" /\ "mz" \in DOMAIN v

IsNull(v) == v.t = "null"
IsBool(v) == v.t = "bool"
IsNum(v)  == v.t = "num"
IsStr(v)  == v.t = "str"
IsArr(v)  == v.t = "arr"
IsObj(v)  == v.t = "obj"
IsDT(v)   == v.t = "dt"
IsContainer(v) == v.t = "arr" \/ v.t = "obj"
IsScalar(v)    == ~IsContainer(v)

(* A json.Number whose text fits neither int64 nor a finite float64.        *)
IsBadJNum(v) == v.t = "num" /\ v.rep = "j" /\ ~v.ok
(* Integer-represented numbers: int64, or json.Number text that is an int64 *)
IsIntRep(v) == v.t = "num" /\ (v.rep = "i" \/ (v.rep = "j" /\ v.ok /\ v.ji))

-----------------------------------------------------------------------------
(* Byte strings *)

RECURSIVE BytesCmpFrom(_, _, _)
BytesCmpFrom(a, b, i) ==
  IF i > Len(a) THEN (IF i > Len(b) THEN 0 ELSE -1)
  ELSE IF i > Len(b) THEN 1
  ELSE IF a[i] < b[i] THEN -1
  ELSE IF a[i] > b[i] THEN 1
  ELSE BytesCmpFrom(a, b, i + 1)
BytesCmp(a, b) == BytesCmpFrom(a, b, 1)

BytesPrefix(p, s) == Len(p) <= Len(s) /\ SubSeq(s, 1, Len(p)) = p

(* ASCII helper for specs that want to write keys as TLA+ strings.          *)
AsciiOf(c) ==
  CASE c = "a" -> 97 [] c = "b" -> 98 [] c = "c" -> 99 [] c = "d" -> 100
    [] c = "e" -> 101 [] c = "i" -> 105 [] c = "k" -> 107 [] c = "v" -> 118
    [] c = "x" -> 120 [] c = "y" -> 121 [] c = "z" -> 122
    [] c = "A" -> 65 [] c = "B" -> 66 [] c = "0" -> 48 [] c = "1" -> 49
    [] c = " " -> 32
B1(c) == <<AsciiOf(c)>>

-----------------------------------------------------------------------------
(* Objects *)

RECURSIVE ObjFind(_, _, _)
ObjFind(o, k, i) ==           \* index of key k in member sequence o, or 0
  IF i > Len(o) THEN 0 ELSE IF o[i].k = k THEN i ELSE ObjFind(o, k, i + 1)
ObjHas(v, k) == ObjFind(v.o, k, 1) # 0
ObjGet(v, k) == v.o[ObjFind(v.o, k, 1)].v

MemberValues(o) == [i \in 1..Len(o) |-> o[i].v]

(* k-th permutation (k >= 0, taken modulo n!) of a sequence, by Lehmer code *)
RECURSIVE Fact(_)
Fact(n) == IF n <= 1 THEN 1 ELSE n * Fact(n - 1)
VRemoveAt(s, i) == SubSeq(s, 1, i - 1) \o SubSeq(s, i + 1, Len(s))
RECURSIVE PermK(_, _)
PermK(s, k) ==
  IF Len(s) <= 1 THEN s
  ELSE LET f   == Fact(Len(s) - 1)
           idx == ((k \div f) % Len(s)) + 1
       IN <<s[idx]>> \o PermK(VRemoveAt(s, idx), k % f)

-----------------------------------------------------------------------------
(* Matching a value the specification computed against a value the          *)
(* implementation returned: equal trees, except that                        *)
(*  - "anyid" matches any number,                                           *)
(*  - numbers are compared by representation class and exact value          *)
(*    (a json.Number passed through must be the same text).                 *)
RECURSIVE VMatch(_, _), VMatchSeq(_, _, _), VMatchObj(_, _, _)
VMatch(s, r) ==
  IF s.t = "anyid" THEN r.t \in {"num", "anyid"}
  ELSE IF s.t # r.t THEN FALSE
  ELSE CASE s.t = "arr" -> Len(s.a) = Len(r.a) /\ VMatchSeq(s.a, r.a, 1)
         [] s.t = "obj" -> Len(s.o) = Len(r.o) /\ VMatchObj(s.o, r.o, 1)
         [] s.t = "num" -> IF s.rep = "j" \/ r.rep = "j" THEN s = r
                           ELSE s.rep = r.rep /\ s.n = r.n
         [] OTHER -> s = r
VMatchSeq(a, b, i) ==
  IF i > Len(a) THEN TRUE ELSE VMatch(a[i], b[i]) /\ VMatchSeq(a, b, i + 1)
VMatchObj(a, b, i) ==
  IF i > Len(a) THEN TRUE
  ELSE a[i].k = b[i].k /\ VMatch(a[i].v, b[i].v) /\ VMatchObj(a, b, i + 1)
ItemsMatch(s, r) == Len(s) = Len(r) /\ VMatchSeq(s, r, 1)

(* Multiset equality of two item sequences under VMatch (used when the      *)
(* order of object members cannot be enumerated).                           *)
RECURSIVE FirstMatch(_, _, _), BagMatch0(_, _)
FirstMatch(x, r, i) ==
  IF i > Len(r) THEN 0 ELSE IF VMatch(x, r[i]) THEN i ELSE FirstMatch(x, r, i + 1)
BagMatch0(s, r) ==
  IF Len(s) # Len(r) THEN FALSE
  ELSE IF Len(s) = 0 THEN TRUE
  ELSE LET i == FirstMatch(s[1], r, 1)
       IN i # 0 /\ BagMatch0(Tail(s), VRemoveAt(r, i))
(* wildcards (anyid) are matched last so that they cannot consume a number  *)
(* a concrete item needs                                                    *)
BagMatch(s, r) ==
  BagMatch0(SelectSeq(s, LAMBDA x : x.t # "anyid") \o SelectSeq(s, LAMBDA x : x.t = "anyid"), r)
=============================================================================
