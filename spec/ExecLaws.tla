----------------------------- MODULE ExecLaws -----------------------------
(* The laws of properties C01, C05, C06, C08 over one record of the exec    *)
(* family: a case and what the five real entry points returned for it, once *)
(* without and once with WithSilent.  Used by the MC_* models on outcomes    *)
(* the specification computes and by Trace_Exec on recorded observations of *)
(* the implementation.                                                      *)
(*                                                                          *)
(* A verdict is a set of violated clauses (strings "Cxx.clause.run"), the   *)
(* empty set when the record is accepted; "skip.*" entries are not          *)
(* violations: the specification declined to decide (opaque) and the record *)
(* is counted as not judged for that clause.                                *)
EXTENDS PathSem

(* --- the evaluation parameters the specification leaves open ------------ *)

RECURSIVE MaxMembers(_), MaxMembersSeq(_, _)
MaxMembers(v) ==
  IF v.t = "arr" THEN MaxMembersSeq(v.a, 1)
  ELSE IF v.t = "obj" THEN IMax(Len(v.o), MaxMembersSeq(MemberValues(v.o), 1))
  ELSE 0
MaxMembersSeq(xs, i) == IF i > Len(xs) THEN 0 ELSE IMax(MaxMembers(xs[i]), MaxMembersSeq(xs, i + 1))

RECURSIVE ChainExpands(_, _), NodeExpands(_)
NodeExpands(n) ==
  CASE n.k \in {"anykey", "any"} -> TRUE
    [] n.k = "bin"    -> ChainExpands(n.l, 1) \/ ChainExpands(n.r, 1)
    [] n.k \in {"un", "regex"} -> ChainExpands(n.x, 1)
    [] n.k = "filter" -> NodeExpands(n.p)
    [] n.k = "idx"    -> \E j \in 1..Len(n.subs) :
                            ChainExpands(n.subs[j].from, 1) \/ (n.subs[j].hasTo /\ ChainExpands(n.subs[j].to, 1))
    [] OTHER -> FALSE
ChainExpands(ch, i) == IF i > Len(ch) THEN FALSE ELSE NodeExpands(ch[i]) \/ ChainExpands(ch, i + 1)

RECURSIVE VarsMaxMembers(_, _)
VarsMaxMembers(vs, i) == IF i > Len(vs) THEN 0 ELSE IMax(MaxMembers(vs[i].v), VarsMaxMembers(vs, i + 1))

RECURSIVE ChainHasKV(_, _), NodeHasKV(_)
NodeHasKV(n) ==
  CASE n.k = "method" -> n.name = "keyvalue"
    [] n.k = "bin"    -> ChainHasKV(n.l, 1) \/ ChainHasKV(n.r, 1)
    [] n.k \in {"un", "regex"} -> ChainHasKV(n.x, 1)
    [] n.k = "filter" -> NodeHasKV(n.p)
    [] n.k = "idx"    -> \E j \in 1..Len(n.subs) :
                            ChainHasKV(n.subs[j].from, 1) \/ (n.subs[j].hasTo /\ ChainHasKV(n.subs[j].to, 1))
    [] OTHER -> FALSE
ChainHasKV(ch, i) == IF i > Len(ch) THEN FALSE ELSE NodeHasKV(ch[i]) \/ ChainHasKV(ch, i + 1)

(* .keyvalue() generates objects with three members *)
CaseMM(c) == IMax(IMax(MaxMembers(c.doc), VarsMaxMembers(c.vars, 1)),
                  IF ChainHasKV(c.path.chain, 1) THEN 3 ELSE 0)
Nondet(c) == ChainExpands(c.path.chain, 1) /\ CaseMM(c) >= 2

(* Choice vectors enumerated: 4 expansions of 2-member objects, 2 of        *)
(* 3-member objects; beyond that the record is judged by bag comparison.    *)
ChoiceSpace(c) ==
  IF ~Nondet(c) THEN {<<>>}
  ELSE IF CaseMM(c) = 2 THEN [1..4 -> 0..1]
  ELSE IF CaseMM(c) = 3 THEN [1..2 -> 0..5]
  ELSE {<<>>}
ChoiceCap(c) == IF ~Nondet(c) THEN 0 ELSE IF CaseMM(c) = 2 THEN 4 ELSE IF CaseMM(c) = 3 THEN 2 ELSE 0

ParSpace(c) == [cancelAt : {0}, choice : ChoiceSpace(c), pol : Policies, dev : {{}}, exm : {FALSE}]
DevSets == (SUBSET DevNames) \ {{}}
DevParSpace(c) == [cancelAt : {0}, choice : ChoiceSpace(c), pol : Policies, dev : DevSets, exm : {FALSE}]
ExmParSpace(c) == [cancelAt : {0}, choice : ChoiceSpace(c), pol : Policies,
                   dev : {{"unary-nonnum-exists"} \cup D : D \in SUBSET (DevNames \ {"unary-nonnum-exists"})}, exm : {TRUE}]

ClsOf(e) == e.cls

(* --- C01: Query conforms ------------------------------------------------ *)

QueryMatchesR(c, r, o) ==
  LET q == QueryOf(c, r)
  IN q.err = o.query.err.cls /\ ItemsMatch(q.items, o.query.items)
QueryMatches(c, par, o) == QueryMatchesR(c, Eval(c, par), o)

(* Decision for one run: "ok", "skip" (opaque under every parameter that    *)
(* could have matched), "bag" (accepted by multiset comparison beyond the   *)
(* choice cap) or "bad".                                                    *)
(* r0 is Eval(c, Par0), computed once per record (evaluation does not      *)
(* depend on the silent flag); the other parameters are tried only when the *)
(* default ones do not explain the observation.                             *)
C01Run(c, o, r0) ==
  IF QueryMatchesR(c, r0, o) THEN "ok"
  ELSE IF \E par \in ParSpace(c) : QueryMatches(c, par, o) THEN "ok"
  ELSE IF \E par \in ParSpace(c) : Eval(c, par).err = "opaque" THEN "skip"
  ELSE IF Nondet(c) /\ (\E par \in ParSpace(c) :
            LET r == Eval(c, par) q == QueryOf(c, r)
            IN r.st.ci > ChoiceCap(c) /\ q.err = o.query.err.cls
               /\ (q.err # "none" \/ BagMatch(q.items, o.query.items)))
       THEN "bag"
  ELSE IF \E par \in DevParSpace(c) : QueryMatches(c, par, o) THEN "dev"
  ELSE IF \E par \in DevParSpace(c) : Eval(c, par).err = "opaque" THEN "skip"
  ELSE "bad"

(* the deviations that explain a run the intended rules do not *)
DevsOf(c, o) == (CHOOSE par \in DevParSpace(c) : QueryMatches(c, par, o)).dev

(* --- C05: total, pure, classified --------------------------------------- *)

Entries == {"query", "first", "exists", "match", "eom"}
EntryOf(o, e) ==
  CASE e = "query" -> o.query [] e = "first" -> o.first [] e = "exists" -> o.exists
    [] e = "match" -> o.match [] e = "eom" -> o.eom

C05Run(o, tag) ==
  UNION { LET x == EntryOf(o, e) IN
            (IF x.err.cls \in {"panic", "timeout"} THEN {"C05.panic." \o e \o tag} ELSE {})
      \cup  (IF x.err.cls = "invalid" THEN {"C05.invalid." \o e \o tag} ELSE {})
      \cup  (IF x.err.cls = "other" THEN {"C05.unclassified." \o e \o tag} ELSE {})
      \cup  (IF x.err.cls = "NULL" /\ e \in {"query", "first"} THEN {"C05.null." \o e \o tag} ELSE {})
      \cup  (IF x.err.cls \in {"verbose", "hard", "ctx"} /\ ~x.err.x THEN {"C05.notexec." \o e \o tag} ELSE {})
      \cup  (IF x.bad # "" THEN {"C05." \o x.bad \o "." \o e \o tag} ELSE {})
        : e \in Entries }
  \cup (IF o.mutated THEN {"C05.mutated" \o tag} ELSE {})

(* --- C06: the entry points tell one story ------------------------------- *)

Crashed(o) == \E e \in Entries : EntryOf(o, e).err.cls \in {"panic", "timeout", "invalid", "other"}

SameOutcome(a, b) == a.err.cls = b.err.cls /\ a.val = b.val

C06Run(c, o, vOK, tag, r0) ==
  (* vOK: the verbose run's Query succeeded (a true success, no failure     *)
  (* suppressed); c carries this run's silent flag.                          *)
  IF Crashed(o) THEN {}        \* reported under C05
  ELSE
  LET q == o.query
      nd == Nondet(c)
      (* every entry point is a call of its own: where the members of an object *)
      (* are visited in an order Go picks per call (nd), First may have met      *)
      (* another member first than Query did - another item, or another failure  *)
      firstNd ==
        nd /\ \E par \in ParSpace(c) :
                 LET f == FirstOf(c, Eval(c, par))
                 IN /\ f.err = o.first.err.cls
                    /\ (f.err = "none" => Len(o.first.items) = 1 /\ VMatch(IF f.has THEN f.item ELSE VNull, o.first.items[1]))
      firstOK ==
        \/ IF q.err.cls # "none" THEN o.first.err.cls = q.err.cls
           ELSE /\ o.first.err.cls = "none"
                /\ \/ q.items = <<>> /\ o.first.items = <<VNull>>
                   \/ q.items # <<>> /\ o.first.items = <<q.items[1]>>
        \/ firstNd
      existsOK ==
        /\ vOK => o.exists.err.cls = "none" /\ (o.exists.val <=> q.items # <<>>)
        /\ (o.exists.err.cls = "none" /\ o.exists.val) =>
             \/ r0.items # <<>> \/ r0.err = "opaque"
             \/ \E par \in ParSpace(c) : LET r == Eval(c, par) IN r.items # <<>> \/ r.err = "opaque"
        /\ (~c.path.lax /\ q.err.cls # "none") => o.exists.err.cls # "none"
      matchSpec ==
        IF q.err.cls # "none" THEN [val |-> FALSE, cls |-> q.err.cls]
        ELSE IF Len(q.items) = 1 /\ q.items[1].t = "bool" THEN [val |-> q.items[1].b, cls |-> "none"]
        ELSE IF Len(q.items) = 1 /\ q.items[1].t = "null" THEN [val |-> FALSE, cls |-> "NULL"]
        ELSE [val |-> FALSE, cls |-> IF c.silent THEN "NULL" ELSE "verbose"]
      matchOK ==
        \/ o.match.err.cls = matchSpec.cls /\ o.match.val = matchSpec.val
        \/ nd /\ \E par \in ParSpace(c) :
                   LET m == MatchOf(c, Eval(c, par)) IN m.err = o.match.err.cls /\ m.val = o.match.val
      eomOK == IF c.path.pred THEN SameOutcome(o.eom, o.match) \/ nd
               ELSE SameOutcome(o.eom, o.exists) \/ nd
      (* an Exists the intended rules do not explain but a named deviation does *)
      AllDevPars == DevParSpace(c) \cup ExmParSpace(c)
      ExplainsExists(par) ==
        LET x == ExistsOf(c, Eval(c, par)) IN x.err = o.exists.err.cls /\ x.val = o.exists.val
      (* the same deviations must also explain what Query returned: an Exists  *)
      (* that needs other rules than the Query beside it is not a known finding *)
      QueryUnder(D) ==
        \E ch \in ChoiceSpace(c), pl \in Policies :
           QueryMatches(c, [cancelAt |-> 0, choice |-> ch, pol |-> pl, dev |-> D, exm |-> FALSE], o)
      DevExplains(par) == ExplainsExists(par) /\ QueryUnder(par.dev)
      (* ... and the deviation must be needed: an Exists that the intended rules *)
      (* produce as well (the failure lies in its relation to the other entry    *)
      (* points) is not explained by a deviation that has no bearing on it       *)
      PlainPars == ParSpace(c) \cup [cancelAt : {0}, choice : ChoiceSpace(c), pol : Policies, dev : {{}}, exm : {TRUE}]
      NeedDev == ~\E par \in PlainPars : ExplainsExists(par)
      existsDev == ~existsOK /\ NeedDev /\ \E par \in AllDevPars : DevExplains(par)
      existsSkip == \E par \in AllDevPars : Eval(c, par).err = "opaque"    \* the deviating rules decline: not decided
  IN (IF firstOK THEN {} ELSE {"C06.first" \o tag})
     \cup (IF existsOK THEN {}
           ELSE IF existsDev
           THEN {"known." \o d \o ".C06.exists" \o tag : d \in (CHOOSE par \in AllDevPars : DevExplains(par)).dev}
           ELSE IF existsSkip THEN {"skip.C06.exists" \o tag}
           ELSE {"C06.exists" \o tag})
     \cup (IF matchOK THEN {} ELSE {"C06.match" \o tag})
     \cup (IF eomOK THEN {} ELSE {"C06.eom" \o tag})

(* --- C08: WithSilent suppresses exactly the suppressible errors --------- *)

C08Pair(c, v, s, r0) ==
  IF Crashed(v) \/ Crashed(s) THEN {} ELSE
  LET nd == Nondet(c)
      cs == [c EXCEPT !.silent = TRUE]
      (* the suppression used inside predicates must not leak: where every   *)
      (* permitted evaluation ends in a suppressible error, the verbose run   *)
      (* must report an error                                                 *)
      noLeak ==
        (v.query.err.cls = "none" /\ r0.err = "verbose") =>
           \E par \in ParSpace(c) \cup DevParSpace(c) : Eval(c, par).err \notin {"verbose"}
      (* a suppressed failure leaves exactly the items found before it        *)
      silentItems ==
        (v.query.err.cls = "verbose" /\ s.query.err.cls = "none") =>
           \/ QueryMatchesR(cs, r0, s)
           \/ \E par \in ParSpace(c) \cup DevParSpace(c) :
                 LET r == Eval(c, par) IN r.err = "opaque" \/ QueryMatchesR(cs, r, s)
           \/ nd
      noVerbose == \A e \in Entries : ~EntryOf(s, e).err.v /\ EntryOf(s, e).err.cls # "verbose"
      sameWhenOK ==
        (v.query.err.cls = "none") =>
           /\ s.query.err.cls = "none"
           /\ (ItemsMatch(v.query.items, s.query.items) \/ (nd /\ BagMatch(v.query.items, s.query.items)))
           /\ (nd \/ (SameOutcome(v.first, s.first) /\ v.first.items = s.first.items))
           /\ SameOutcome(v.exists, s.exists)
           /\ (nd \/ v.match.err.cls # "none" \/ SameOutcome(v.match, s.match))
      suppressed ==
        (v.query.err.cls = "verbose") =>
           /\ s.query.err.cls = "none" /\ s.first.err.cls = "none"
           /\ s.exists.err.cls \in {"none", "NULL"}
           /\ s.match.err.cls \in {"none", "NULL"}
      hardKept ==
        /\ (v.query.err.cls \in {"hard", "ctx"}) => s.query.err.cls = v.query.err.cls /\ s.first.err.cls = v.first.err.cls
        /\ (v.exists.err.cls \in {"hard", "ctx"}) => s.exists.err.cls = v.exists.err.cls
        /\ (v.match.err.cls \in {"hard", "ctx"}) => s.match.err.cls = v.match.err.cls
  IN (IF noVerbose THEN {} ELSE {"C08.verbose-under-silent"})
     \cup (IF sameWhenOK THEN {} ELSE {"C08.success-differs"})
     \cup (IF suppressed \/ nd THEN {} ELSE {"C08.not-suppressed"})    \* nd: another member order may meet another failure first
     \cup (IF hardKept \/ nd THEN {} ELSE {"C08.hard-suppressed"})
     \cup (IF noLeak THEN {} ELSE {"C08.suppression-leak"})
     \cup (IF silentItems THEN {} ELSE {"C08.silent-items"})

(* --- the record ---------------------------------------------------------- *)

CaseOf(rec, silent) ==
  [path |-> rec.c.path, doc |-> rec.c.doc, vars |-> rec.c.vars, silent |-> silent,
   useTZ |-> rec.c.useTZ, zone |-> rec.c.zone]

C01Rec(rec, r0) ==
  LET dv == IF Crashed(rec.v) THEN "ok" ELSE C01Run(CaseOf(rec, FALSE), rec.v, r0)
      ds == IF Crashed(rec.s) THEN "ok" ELSE C01Run(CaseOf(rec, TRUE), rec.s, r0)
  IN (IF dv = "bad" THEN {"C01.query.v"} ELSE IF dv = "skip" THEN {"skip.C01.v"}
      ELSE IF dv = "bag" THEN {"bag.C01.v"}
      ELSE IF dv = "dev" THEN {"known." \o d \o ".C01.query.v" : d \in DevsOf(CaseOf(rec, FALSE), rec.v)} ELSE {})
     \cup (IF ds = "bad" THEN {"C01.query.s"} ELSE IF ds = "skip" THEN {"skip.C01.s"}
      ELSE IF ds = "bag" THEN {"bag.C01.s"}
      ELSE IF ds = "dev" THEN {"known." \o d \o ".C01.query.s" : d \in DevsOf(CaseOf(rec, TRUE), rec.s)} ELSE {})

(* --- the record the specification itself would produce ------------------ *)
(* Used by the MC_* models: the laws above, applied to what PathSem says    *)
(* the five entry points return, must hold (the laws and the rules are      *)
(* consistent, and the laws are not vacuous on the universe).               *)
ErrRecOf(cls) ==
  [cls |-> cls, v |-> cls = "verbose", x |-> cls \in {"verbose", "hard", "ctx"},
   can |-> cls = "ctx", dl |-> FALSE]
SpecEntryI(items, cls) == [items |-> items, val |-> FALSE, err |-> ErrRecOf(cls), bad |-> ""]
SpecEntryB(val, cls)   == [items |-> <<>>, val |-> val, err |-> ErrRecOf(cls), bad |-> ""]
SpecRun(c, r) ==
  LET q == QueryOf(c, r)  f == FirstOf(c, r)  x == ExistsOf(c, r)  m == MatchOf(c, r)
      xe == SpecEntryB(x.val, x.err)
      me == SpecEntryB(m.val, m.err)
  IN [query  |-> SpecEntryI(q.items, q.err),
      first  |-> SpecEntryI(IF f.err # "none" THEN <<>> ELSE IF f.has THEN <<f.item>> ELSE <<VNull>>, f.err),
      exists |-> xe, match |-> me,
      eom    |-> IF c.path.pred THEN me ELSE xe,
      polls  |-> r.st.polls, mutated |-> FALSE]
SpecRec(c) ==      \* c without the silent field
  LET cv == [c EXCEPT !.silent = FALSE]  cs == [c EXCEPT !.silent = TRUE]
      r  == Eval(cv, Par0)
  IN [c |-> [path |-> c.path, doc |-> c.doc, vars |-> c.vars, useTZ |-> c.useTZ, zone |-> c.zone],
      v |-> SpecRun(cv, r), s |-> SpecRun(cs, r)]

JudgeExec(rec) ==
  LET cv == CaseOf(rec, FALSE)
      cs == CaseOf(rec, TRUE)
      vOK == rec.v.query.err.cls = "none"
      r0  == Eval(cv, Par0)
  IN C01Rec(rec, r0)
     \cup C05Run(rec.v, ".v") \cup C05Run(rec.s, ".s")
     \cup C06Run(cv, rec.v, vOK, ".v", r0) \cup C06Run(cs, rec.s, vOK, ".s", r0)
     \cup C08Pair(cv, rec.v, rec.s, r0)

(* verdict entries that are not violations *)
IsRemark(cl) == \E p \in {"skip.", "bag.", "known."} : Len(cl) >= Len(p) /\ SubSeq(cl, 1, Len(p)) = p
SpecSatisfiesLaws(c) == \A cl \in JudgeExec(SpecRec(c)) : IsRemark(cl)
=============================================================================
